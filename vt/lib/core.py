"""Shared machinery of the DarSIA verification checks.

Verdict flow (DESIGN.md section 5):
  0 corpus replay -> 1 regenerate DarsiaGen -> 2 lake build + axioms audit ->
  3 correspondence (model vs implementation) -> 4 property oracle on the
  implementation -> 5 verdict (known findings are reported, not raised).
Exit codes: 0 held, 1 violation (VIOLATION line), 2 machinery error / timeout.
"""

from __future__ import annotations

import fcntl
import hashlib
import json
import os
import random
import re
import subprocess
import sys
import tempfile
import time
from fractions import Fraction
from pathlib import Path

VERIF = Path(__file__).resolve().parents[2]
LEAN = VERIF / "lean"
REPO = Path(os.environ.get("DARSIA_REPO", "/repo"))
EVID = VERIF / "evidence"
REPLAY = EVID / "replay"
ALLOWED_AXIOMS = {"propext", "Classical.choice", "Quot.sound"}
FORBIDDEN = re.compile(
    r"\bsorry\b|\badmit\b|^\s*axiom\s|native_decide|bv_decide|implemented_by|"
    r"\bunsafe\s|maxHeartbeats\s+0\b",
    re.M,
)


class MachineryError(Exception):
    pass


# --------------------------------------------------------------------------
# canonical formatting shared by the implementation side of every protocol


def frac(x) -> Fraction:
    """Exact rational value of an int / float / numpy scalar / Fraction."""
    if isinstance(x, Fraction):
        return x
    if isinstance(x, bool):
        return Fraction(int(x))
    if isinstance(x, int):
        return Fraction(x)
    try:
        import numpy as np

        if isinstance(x, np.integer):
            return Fraction(int(x))
        if isinstance(x, np.bool_):
            return Fraction(int(x))
        if isinstance(x, np.floating):
            return Fraction(float(x))
    except ImportError:  # pragma: no cover
        pass
    return Fraction(x)


def fmt(x) -> str:
    """Print a number as the Lean driver prints a Rat: `p` or `p/q`."""
    f = frac(x)
    return str(f.numerator) if f.denominator == 1 else f"{f.numerator}/{f.denominator}"


def fmts(xs) -> str:
    return " ".join(fmt(x) for x in xs)


def flist(xs) -> str:
    """Length-prefixed list of numbers: `n v1 .. vn`."""
    xs = list(xs)
    return (str(len(xs)) + " " + fmts(xs)).strip()


# --------------------------------------------------------------------------


def strip_lean_comments(src: str) -> str:
    out = []
    i, n, depth = 0, len(src), 0
    while i < n:
        if src.startswith("/-", i):
            depth += 1
            i += 2
        elif depth and src.startswith("-/", i):
            depth -= 1
            i += 2
        elif depth:
            i += 1
        elif src.startswith("--", i):
            while i < n and src[i] != "\n":
                i += 1
        else:
            out.append(src[i])
            i += 1
    return "".join(out)


class Ctx:
    def __init__(self, prop: str, tier: str, seed: int, level: str):
        self.prop = prop
        self.tier = tier
        self.seed = seed
        self.level = level
        self.rng = random.Random(f"{prop}-{seed}")
        self.t0 = time.time()
        self.marks: list[dict] = []  # broken proof / tie / correspondence
        self.failures: list[dict] = []  # property failures on the implementation
        self.known_hits: list[dict] = []
        self.cov: dict = {
            "evaluations": 0,
            "samples": [],
            "trusted_base": [
                "Lean 4.33.0 kernel (lake build; leanchecker in thorough tier)",
                "axioms allowed in property theorems: propext, Classical.choice, Quot.sound",
                "Mathlib v4.33.0 modules imported by DarsiaProofs/DarsiaProps",
                "vt/ translator, correspondence harness and canonical formatter (Python) and Driver.lean parser",
            ],
        }
        self.assumptions: list[str] = []
        self.distinct: set[str] = set()
        self.theorems: list[str] = []
        self.obligations = 0
        self.discharged = 0
        self.notes: list[str] = []
        self.findings = json.loads((VERIF / "known_findings.json").read_text())
        for extra in sorted((VERIF / "findings").glob("*.json")) if (VERIF / "findings").is_dir() else []:
            self.findings["findings"] += json.loads(extra.read_text()).get("findings", [])
        self._tmp = tempfile.mkdtemp(prefix="darsia-verif-")
        self.big = tier == "thorough"

    # ---------------------------------------------------------------- misc
    def log(self, *a):
        print(f"[{self.prop} {time.time() - self.t0:6.1f}s]", *a, flush=True)

    def pick(self, quick, thorough):
        return thorough if self.big else quick

    def count(self, case, nontrivial=True, n=1):
        """Register an explored case (hashable description) for the evidence."""
        self.cov["evaluations"] += n
        if nontrivial:
            self.distinct.add(hashlib.sha1(repr(case).encode()).hexdigest())

    def sample(self, obj, cap=6):
        if len(self.cov["samples"]) < cap:
            self.cov["samples"].append(obj)

    # ---------------------------------------------------------- generation
    def write_gen(self, name: str, content: str) -> bool:
        """Write a generated Lean file if its content changed. Returns changed?"""
        path = LEAN / "DarsiaGen" / f"{name}.lean"
        header = (
            "-- GENERATED by /verif/vt from /repo's current working tree. Do not edit.\n"
        )
        content = header + content
        with self._lock():
            old = path.read_text() if path.exists() else None
            if old != content:
                path.write_text(content)
                self.log(f"generated DarsiaGen/{name}.lean (changed)")
                return True
        return False

    def _lock(self):
        class _L:
            def __enter__(s):
                s.f = open(LEAN / ".build.lock", "w")
                fcntl.flock(s.f, fcntl.LOCK_EX)

            def __exit__(s, *a):
                fcntl.flock(s.f, fcntl.LOCK_UN)
                s.f.close()

        return _L()

    # --------------------------------------------------------------- Lean
    def build(self, targets: list[str]) -> bool:
        """lake build the given modules. A failure is a mark, not a verdict."""
        with self._lock():
            p = subprocess.run(
                ["lake", "build", *targets],
                cwd=LEAN,
                capture_output=True,
                text=True,
                timeout=3000,
            )
        if p.returncode != 0:
            out = p.stdout + p.stderr
            errs = [l for l in out.splitlines() if "error" in l][:20]
            self.mark("PROOF-BROKEN", {"targets": targets, "errors": errs, "log_tail": out[-3000:]})
            self.log("lake build FAILED:", *errs[:5])
            return False
        return True

    def audit(self, module: str) -> bool:
        """#print axioms on every theorem of DarsiaProps.<module>; grep sources."""
        path = LEAN / "DarsiaProps" / f"{module}.lean"
        src = strip_lean_comments(path.read_text())
        ns = re.findall(r"^namespace\s+(\S+)", src, re.M)
        prefix = ns[0] + "." if ns else ""
        names = [prefix + n for n in re.findall(r"^theorem\s+([^\s:({\[]+)", src, re.M)]
        if not names:
            raise MachineryError(f"no theorems found in {path}")
        self.theorems = names
        script = f"import DarsiaProps.{module}\n" + "".join(
            f"#print axioms {n}\n" for n in names
        )
        f = Path(self._tmp) / f"Audit{module}.lean"
        f.write_text(script)
        with self._lock():
            p = subprocess.run(
                ["lake", "env", "lean", str(f)], cwd=LEAN, capture_output=True, text=True, timeout=1200
            )
        out = p.stdout + p.stderr
        ok = p.returncode == 0
        seen = 0
        bad = []
        for m in re.finditer(
            r"^'(.+)' (does not depend on any axioms|depends on axioms: \[([^\]]*)\])", out, re.M
        ):
            seen += 1
            axs = set(a.strip() for a in (m.group(3) or "").replace("\n", " ").split(",") if a.strip())
            if not axs <= ALLOWED_AXIOMS:
                bad.append((m.group(1), sorted(axs - ALLOWED_AXIOMS)))
        # forbidden tokens anywhere in the lean sources
        hits = []
        for d in ("DarsiaModel", "DarsiaGen", "DarsiaProofs", "DarsiaProps"):
            for lf in sorted((LEAN / d).glob("*.lean")):
                s = strip_lean_comments(lf.read_text())
                for mm in FORBIDDEN.finditer(s):
                    hits.append(f"{lf.name}:{mm.group(0).strip()}")
        self.obligations += len(names)
        if ok and seen == len(names) and not bad and not hits:
            self.discharged += len(names)
            return True
        self.mark(
            "PROOF-BROKEN",
            {"module": module, "audit_ok": ok, "seen": seen, "expected": len(names),
             "bad_axioms": bad, "forbidden_tokens": hits, "log_tail": out[-2000:]},
        )
        return False

    def prove(self, module: str, extra_targets: list[str] | None = None):
        ok = self.build([f"DarsiaProps.{module}"] + (extra_targets or []))
        if ok:
            self.audit(module)
            if self.big:
                self.leanchecker([f"DarsiaProps.{module}"])
        else:
            # count the obligations that could not be discharged
            try:
                src = strip_lean_comments((LEAN / "DarsiaProps" / f"{module}.lean").read_text())
                self.obligations += len(re.findall(r"^theorem\s", src, re.M))
            except OSError:
                self.obligations += 1

    def leanchecker(self, modules: list[str]):
        with self._lock():
            p = subprocess.run(
                ["lake", "env", "leanchecker", *modules], cwd=LEAN, capture_output=True, text=True, timeout=3000
            )
        self.cov["leanchecker"] = {"modules": modules, "exit": p.returncode}
        if p.returncode != 0:
            self.mark("PROOF-BROKEN", {"leanchecker": modules, "log_tail": (p.stdout + p.stderr)[-2000:]})

    def model(self, lines: list[str], driver: str | None = None) -> list[str]:
        """Run request lines through the Lean model driver Drivers/<driver>.lean; one response per line."""
        driver = driver or self.prop
        if not lines:
            return []
        f = Path(self._tmp) / "ops.txt"
        f.write_text("\n".join(lines) + "\n")
        with self._lock():
            pass  # wait for any running build to finish; running the driver needs no lock
        with open(f) as fin:
            p = subprocess.run(
                ["lake", "env", "lean", "--run", f"Drivers/{driver}.lean"],
                cwd=LEAN, stdin=fin, capture_output=True, text=True, timeout=3000,
            )
        if p.returncode != 0:
            self.mark("TIE-BROKEN", {"driver_exit": p.returncode, "stderr": p.stderr[-2000:]})
            return ["!driver-failed"] * len(lines)
        out = [l[2:] for l in p.stdout.splitlines() if l.startswith("> ")]
        if len(out) != len(lines):
            self.mark("TIE-BROKEN", {"driver_lines": len(out), "expected": len(lines), "stderr": p.stderr[-1000:]})
            out = (out + ["!driver-missing"] * len(lines))[: len(lines)]
        return out

    def correspond(self, name: str, lines: list[str], impl: list[str], nontrivial=None, driver=None) -> list[int]:
        """Diff model responses against implementation responses. Returns indices that differ."""
        assert len(lines) == len(impl)
        got = self.model(lines, driver)
        diffs = [i for i, (a, b) in enumerate(zip(got, impl)) if a.strip() != b.strip()]
        c = self.cov.setdefault("correspondence", {})
        c[name] = {"cases": len(lines), "disagreements": len(diffs)}
        for i, l in enumerate(lines):
            self.count((name, l), nontrivial=True if nontrivial is None else nontrivial[i])
        if lines:
            self.sample({"corr": name, "request": lines[0][:300], "model": got[0][:300], "impl": impl[0][:300]})
        if diffs:
            i = min(diffs, key=lambda k: len(lines[k]))
            self.mark("CORR-BROKEN", {"correspondence": name, "request": lines[i], "model": got[i],
                                      "impl": impl[i], "n_diffs": len(diffs)})
            self.log(f"correspondence {name}: {len(diffs)} disagreements, e.g. {lines[i][:200]} model={got[i][:200]} impl={impl[i][:200]}")
        return diffs

    # ------------------------------------------------------------ verdicts
    def mark(self, kind: str, detail: dict):
        self.marks.append({"kind": kind, **detail})

    def fail(self, signature: str, what: str, replay: dict):
        """A concrete input on which the property fails on the implementation."""
        for k in self.findings.get("findings", []):
            if k.get("property") == self.prop and k.get("state") == "known" and k.get("signature") == signature:
                if not any(h["signature"] == signature for h in self.known_hits):
                    self.known_hits.append({"signature": signature, "what": k.get("what", what)})
                return
        if not any(f["signature"] == signature for f in self.failures):
            self.failures.append({"signature": signature, "what": what, "replay": replay})

    def finish(self) -> int:
        wall = time.time() - self.t0
        REPLAY.mkdir(parents=True, exist_ok=True)
        for stale in REPLAY.glob(f"{self.prop}-{self.seed}-*.json"):  # replays of an earlier run with this seed describe another tree
            try:
                stale.unlink()
            except OSError:
                pass
        rc = 0
        lines = []
        for h in self.known_hits:
            lines.append(f"KNOWN-FINDING: property={self.prop} {h['signature']} -- {h['what']}")
        n_viol = 0
        for n, f in enumerate(self.failures):
            path = REPLAY / f"{self.prop}-{self.seed}-{n}.json"
            path.write_text(json.dumps({"property": self.prop, "verif_seed": self.seed, "tier": self.tier, **f, "marks": self.marks}, indent=1, default=str))
            lines.append(f"VIOLATION property={self.prop} replay={path}")
            n_viol += 1
            rc = 1
        if self.marks and not self.failures:
            path = REPLAY / f"{self.prop}-{self.seed}-unproved.json"
            path.write_text(json.dumps({"property": self.prop, "verif_seed": self.seed, "tier": self.tier, "no_longer_checks": self.marks,
                                        "known_findings_hit": self.known_hits}, indent=1, default=str))
            lines.append(f"VIOLATION property={self.prop} replay={path} no-failing-input-found")
            n_viol += 1
            rc = 1
        cov = dict(self.cov)
        cov["distinct_nontrivial"] = len(self.distinct)
        cov.setdefault("rule", "distinct = SHA-1 of the canonical request line / case description; trivial cases are excluded where the check says so")
        cov["obligations"] = self.obligations
        cov["discharged"] = self.discharged
        cov["theorems"] = self.theorems
        cov["checker_cmd"] = "cd /verif/lean && lake build DarsiaProps." + self.prop + " && lake env lean <#print axioms on every theorem>" + (" && lake env leanchecker" if self.big else "")
        cov["marks"] = self.marks
        cov["known_findings_reported"] = self.known_hits
        cov["notes"] = self.notes
        if self.level == "other":
            cov.setdefault("explanation", "see MANIFEST level_note")
        ev = {
            "property_id": self.prop, "tier": self.tier, "seed": self.seed, "level": self.level,
            "coverage": cov, "assumptions": self.assumptions, "wall_s": round(wall, 2), "violations": n_viol,
        }
        EVID.mkdir(exist_ok=True)
        (EVID / f"{self.prop}.json").write_text(json.dumps(ev, indent=1, default=str))
        for l in lines:
            print(l, flush=True)
        self.log(f"done rc={rc} evaluations={cov['evaluations']} distinct={cov['distinct_nontrivial']} obligations={self.obligations}/{self.discharged}")
        import shutil

        shutil.rmtree(self._tmp, ignore_errors=True)
        return rc


def generic_replay(mod, prop, data):
    """Replay for checks without their own: re-run the check with the seed and tier stored in the replay file (all
    randomness derives from them, so the same cases are regenerated on the implementation) and report whether the stored
    signature fails again. Exit 1 if it still fails, 0 if not."""
    seed = int(data.get("verif_seed", 0))
    tier = data.get("tier", "quick")
    want = data.get("signature")
    print(f"replaying {prop}: seed={seed} tier={tier} signature={want!r}")
    print("stored case:", json.dumps(data.get("replay", data.get("no_longer_checks", "")), default=str)[:2000])
    ctx = Ctx(prop, tier, seed, getattr(mod, "LEVEL", "proof"))
    mod.run(ctx)
    again = [f for f in ctx.failures if want is None or f["signature"] == want]
    known = [h for h in ctx.known_hits if h["signature"] == want]
    for f in again:
        print("STILL FAILING:", f["signature"], "--", f["what"])
        print("  observed now:", json.dumps(f["replay"], default=str)[:2000])
    if known:
        print("reported as KNOWN-FINDING now:", want)
    if not again and not known:
        print("does not fail any more on the current tree" + (f" (marks: {[m['kind'] for m in ctx.marks]})" if ctx.marks else ""))
    import shutil

    shutil.rmtree(ctx._tmp, ignore_errors=True)
    return 1 if again else 0


def main(argv=None):
    argv = list(sys.argv[1:] if argv is None else argv)
    if not argv:
        print("usage: check Cnn [quick|thorough] | check Cnn --replay FILE", file=sys.stderr)
        return 2
    prop = argv[0].upper()
    tier = os.environ.get("VERIF_TIER", "quick")
    replay = None
    rest = argv[1:]
    while rest:
        a = rest.pop(0)
        if a in ("quick", "thorough"):
            tier = a
        elif a == "--replay":
            replay = rest.pop(0)
    seed = int(os.environ.get("VERIF_SEED", "0"))
    sys.path.insert(0, str(VERIF))
    import importlib

    try:
        mod = importlib.import_module(f"vt.checks.{prop.lower()}")
    except ModuleNotFoundError as e:
        print(f"no check for {prop}: {e}", file=sys.stderr)
        return 2
    if replay is not None:
        data = json.loads(Path(replay).read_text())
        if hasattr(mod, "replay"):
            return mod.replay(data)
        return generic_replay(mod, prop, data)
    ctx = Ctx(prop, tier, seed, getattr(mod, "LEVEL", "proof"))
    try:
        mod.run(ctx)
        return ctx.finish()
    except (subprocess.TimeoutExpired, MachineryError, OSError, MemoryError) as e:
        import traceback

        traceback.print_exc()
        print(f"machinery error / timeout (exit 2, not a verdict): {e}", file=sys.stderr)
        return 2
    except Exception as e:  # noqa: BLE001
        # The harness itself tripped over what the implementation returned (e.g. a result of unexpected
        # shape or type). That is a broken correspondence, not a machinery failure: it is reported like any
        # other tie that no longer checks (DESIGN.md section 5), naming the exception in the replay file.
        import traceback

        tb = traceback.format_exc()
        print(tb, file=sys.stderr)
        ctx.mark("HARNESS-EXCEPTION", {"exception": repr(e), "traceback_tail": tb[-3000:],
                                       "meaning": "the correspondence harness could not process the implementation's behaviour"})
        try:
            return ctx.finish()
        except Exception:  # noqa: BLE001
            traceback.print_exc()
            return 2
