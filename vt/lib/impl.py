"""Helpers to call the real DarSIA in-process and canonicalise what happens."""
from __future__ import annotations

import contextlib
import io
import warnings

ERR = {
    AssertionError: "assertion", ValueError: "value", IndexError: "index", TypeError: "type",
    NotImplementedError: "notImpl", KeyError: "key", UnboundLocalError: "unbound",
}


def err_class(e: BaseException) -> str:
    for k, v in ERR.items():
        if type(e) is k:
            return v
    for k, v in ERR.items():
        if isinstance(e, k):
            return v
    return "other"


ERRSHOW = {
    "assertion": "!AssertionError", "value": "!ValueError", "index": "!IndexError", "type": "!TypeError",
    "notImpl": "!NotImplementedError", "key": "!KeyError", "unbound": "!UnboundLocalError", "other": "!Other",
}


class Raised:
    def __init__(self, e):
        self.cls = err_class(e)
        self.exc = e

    def __repr__(self):
        return ERRSHOW[self.cls]

    def __eq__(self, o):
        return isinstance(o, Raised) and o.cls == self.cls

    def __hash__(self):
        return hash(self.cls)


def call(fn, *a, **k):
    """Call fn; return its value or a Raised (exception class as data)."""
    try:
        with warnings.catch_warnings():
            warnings.simplefilter("ignore")
            with contextlib.redirect_stdout(io.StringIO()):
                return fn(*a, **k)
    except Exception as e:  # noqa: BLE001 - the class is the datum
        return Raised(e)


def darsia():
    import darsia as d

    return d
