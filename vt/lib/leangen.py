"""Emit Lean syntax for generated tables."""
from fractions import Fraction

from .impl import Raised


def lnat(n):
    return str(int(n))


def lbool(b):
    return "true" if b else "false"


def lrat(x):
    f = Fraction(x)
    if f.denominator == 1:
        return f"({f.numerator} : Rat)"
    return f"(({f.numerator} : Rat) / {f.denominator})"


def llist(xs, f=str):
    return "[" + ", ".join(f(x) for x in xs) + "]"


def lexcept(v, f):
    if isinstance(v, Raised):
        return f"(.error .{v.cls})"
    return f"(.ok {f(v)})"
