"""C13 - concentration analysis zeroes the baseline and applies its stages in order.

  T     DarsiaProps.C13 over DarsiaModel.Pipeline (skeleton of ConcentrationAnalysis with arbitrary stage callables)
  corr  the real ConcentrationAnalysis with *instrumented* real stage objects (MonochromaticReduction, LinearModel,
        ClipModel wrapped so that each call and its input array are recorded) against the model: recorded stage
        inputs in call order, class of the result, result array - exact on dyadic float images.
  oracle (implementation only): baseline -> 0 for every diff option / dtype / 0-3 extra baselines / stock stages incl.
        TVD and gray; call order and chaining of inputs; positive + negative = absolute, positive - negative = plain;
        no wrap-around for integer dtypes; the probe, the baselines and the analysis object survive stages that
        scribble on their input; result metadata and kind rule.
"""
from __future__ import annotations

import copy
import datetime as dt

import numpy as np

from ..lib.core import fmt, fmts
from ..lib.impl import Raised, call

LEVEL = "proof"
CLAIM = dict(
    category="proof",
    text="Model: skeleton of ConcentrationAnalysis as (i) a functional pipeline over arbitrary stage callables, (ii) a state machine "
    "(constructor with extra baselines -> any number of update(base=...) -> calls) and (iii) the call on BUFFERS (cell 0 the "
    "caller's probe, cell 1 the stored baseline; deep copy; the difference is a new array or, for option plain without baseline, "
    "the copy's array; every stage may overwrite the buffer it is handed). Proved: baseline -> zero for every diff option, any "
    "extra baselines (threshold non-negative by construction, per channel) and both orders, given each stage maps 0 to 0, at "
    "construction (baseline_zero) and after any sequence of updates (baseline_zero_after_updates, update_replaces_baseline_only); "
    "the stages present are called once each in the documented order, swapped when configured (stage_order), each on the output "
    "of the previous one (stage_inputs), result = model(restoration(balancing(cleaning(reduction(difference))))) "
    "(result_eq_composition); positive+negative=absolute, positive-negative=plain; on buffers, whatever the stages write, the "
    "caller's probe and the stored baseline are unchanged and the returned array holds the value of the functional "
    "specification (probe_unchanged) - with a witness that this fails without the deep copy; integer images: after the promotion "
    "the code performs every difference equals the exact scaled integer difference, no wrap-around (diff_no_wrap); the cleaning "
    "filter has the shape of the reduced signal and is the running maximum from 0 of the extra baselines' reduced differences "
    "(cleaning_filter_is_running_max, extra_baseline_cleaned_zero); formulas of the stock reductions (reduction_semantics). "
    "call_eq, call_eq_callSt and scalar_kind_rule are definitional unfoldings (the kind rule's content is that it is applied to "
    "the final array). Tie: the real class with instrumented real stage objects (well-behaved or input-overwriting), 0-3 extra "
    "baselines incl. multi-channel signals, 0-2 updates, against the model: stage inputs, result class, result array, result on "
    "buffers, probe after the call, stored baseline after the call - exact on dyadic float64 images; exact-rational ties for "
    "promotion (uint8/uint16) and the stock reductions (1e-5). Result metadata: result_meta (with the constructor model of "
    "DarsiaModel.Persist: the returned image, of the class the kind rule yields, carries the probe's physical metadata key by "
    "key, scalar = True when reduced, all keys of the probe's class otherwise; parametric in the key table whose shape C18 "
    "discharges), result_kind_cases; tied: per metadata key same / True / other, model on symbolic values vs real result. The "
    "correspondence runs on float64 and float32 (dyadic) images. The order theorems on the model's stageList "
    "(stage_order, result_eq_composition, cleaning_iff) are definitional case splits; what links the ORDER to the code is "
    "source_call_order (the sequence of private stage calls of __call__ and their chaining, extracted from the AST on every "
    "check, equals the documented order) with stage_order_general / stage_order_from_source, the instrumented tie and the "
    "oracle. result_meta's conclusions hold for both result classes whatever the kind (its antecedents only select the "
    "relevant half). Promotion per dtype: the rules img_as(float), the constructor, update and __call__ apply to uint8..64 / int8..64 / "
    "float16..64 / bool are TABULATED from the implementation each run (DarsiaGen.Promotion) and "
    "promotion_rules_from_implementation states that all four agree with the model's rule of the dtype kind (unsigned: v/max; "
    "signed: max(v/max, -1); bool / float: unchanged); baseline_zero_every_dtype, diff_parts_every_dtype, promoted_range are "
    "stated on that rule (near-definitional given the rule); diff_no_wrap remains the exact statement for unsigned types. Tied "
    "by dtype_tie: all 144 (baseline dtype, probe dtype) pairs, values over the whole integer range, against the model's "
    "exact rational difference (1e-12). Baseline LISTS of mixed dtype are not covered. OBSERVED ONLY (oracle): TVD / compare_images / cv2 internals, 0-preservation of TVD, update(mask=...) (unused by this class). "
    "FAILING INPUTS come only from clauses of the statement (route()): baseline -> 0, order, chaining, result = last stage output, "
    "probe unmodified, reduced result scalar, physical metadata, option relations and the promoted difference for uint8 / uint16 / "
    "float32 / float64 / bool at 1e-6; conventions of the model (exact-rational agreement below 1e-6, promotion rule of other "
    "dtypes, reduction formulas, cleaning-filter formula, scribbling stages, argument immutability of constructor / update, result "
    "class name) give TIE-BROKEN marks; raises on other dtypes / two-channel images and the result name are observations.",
    note="stage objects are parameters of the model; library numerics are observed only",
    technique="Lean 4 proof (list induction, state-machine and buffer invariants, case analysis over configurations, ordered-field "
    "arithmetic) + differential correspondence with instrumented stages + exact-rational numeric ties + property oracle",
)

OPTS = ["positive", "negative", "absolute", "plain"]
ORDER = ["reduction", "balancing", "restoration", "model"]


class Rec:
    """a stage object that records its calls (name, copy of the input) and delegates to a real stage"""

    def __init__(self, name, fn, log, scribble=False):
        self.name, self.fn, self.log, self.scribble = name, fn, log, scribble

    def __call__(self, x, *a, **k):
        self.log.append((self.name, np.array(x, copy=True)))
        out = self.fn(np.array(x, copy=True)) if self.scribble else self.fn(x)
        out = np.array(out, copy=True) if self.scribble else out
        self.log.append(("out:" + self.name, np.array(out, copy=True)))
        if self.scribble and isinstance(x, np.ndarray) and x.flags.writeable:
            x[...] = 7  # a badly behaved callable: overwrites the buffer it was given
        return out


def show_arr(a):
    a = np.asarray(a)
    sc = a.ndim == 2
    nch = 1 if sc else a.shape[2]
    return f"{int(sc)} {a.shape[0] * a.shape[1]} {nch} {fmts(a.astype(float).ravel())}".strip()


def mk_stage(d, spec):
    """real DarSIA stage object for a stage spec of the driver language"""
    if spec is None:
        return None
    if spec[0] == "chan":
        return d.MonochromaticReduction(color=["red", "green", "blue"][spec[1]])
    if spec[0] == "chanAdd":
        return d.MonochromaticReduction(color="red+green")
    if spec[0] == "gray":
        return d.MonochromaticReduction(color="gray")
    if spec[0] == "negkey":
        return d.MonochromaticReduction(color="negative-key")
    if spec[0] == "hsv":
        return d.MonochromaticReduction(color="hsv", **{"hue lower bound": spec[1], "hue upper bound": spec[2],
                                                        "saturation lower bound": spec[3], "saturation upper bound": spec[4]})
    if spec[0] == "affine":
        return d.LinearModel(scaling=spec[1], offset=spec[2])
    if spec[0] == "clip":
        return d.ClipModel(**{"min value": spec[1], "max value": spec[2]})
    raise KeyError(spec)


def show_stage(spec):
    if spec is None:
        return "none"
    if spec[0] == "clip":
        return f"clip {fmt(spec[1])} {'none' if spec[2] is None else fmt(spec[2])}"
    return spec[0] + " " + " ".join(fmt(x) for x in spec[1:])


ALL_DTYPES = ["uint8", "uint16", "uint32", "uint64", "int8", "int16", "int32", "int64", "float16", "float32", "float64", "bool"]
KIND_RULE = {"u": "unsigned", "i": "signedClip", "f": "asIs", "b": "asIs"}  # the model's DKind.rule


def rand_data(r, dtype, full, extremes=0.3):
    """values over the WHOLE range of an integer dtype (python integers, so 64-bit types are covered), booleans, or dyadic
    floats (multiples of 1/4 in [-2, 4]: exact in float16/32/64, so no tolerance has to absorb rounding of the inputs)"""
    t = np.dtype(dtype)
    n = int(np.prod(full))
    if t.kind in "ui":
        ii = np.iinfo(t)
        lo, hi = int(ii.min), int(ii.max)
        a = r.randint(0, 2 ** 32, size=n, dtype=np.int64)
        b = r.randint(0, 2 ** 32, size=n, dtype=np.int64)
        vals = [lo + (((int(x) << 32) | int(y)) % (hi - lo + 1)) for x, y in zip(a, b)]
        if r.rand() < extremes and n:
            vals[0], vals[-1] = lo, hi
            if n > 2:
                vals[1] = lo + 1
        return np.array(vals, dtype=t).reshape(full)
    if t.kind == "b":
        return r.rand(*full) < 0.5
    return (r.randint(-8, 17, size=full) / 4.0).astype(t)


def promoted_exact(a):
    """the model's promotion (DKind.rule / PRule.apply) of every entry, as exact fractions"""
    from fractions import Fraction

    t = a.dtype
    flat = a.ravel().tolist()
    if t.kind == "u":
        m = int(np.iinfo(t).max)
        return [Fraction(int(v), m) for v in flat]
    if t.kind == "i":
        m = int(np.iinfo(t).max)
        return [max(Fraction(int(v), m), Fraction(-1)) for v in flat]
    if t.kind == "b":
        return [Fraction(int(v)) for v in flat]
    return [Fraction(float(v)) for v in flat]


def promoted(a):
    return np.array([float(x) for x in promoted_exact(a)], dtype=np.float64).reshape(a.shape)


def classify_rule(a, out):
    """which rule maps the sample values `a` to the observed `out` (None: none of them)"""
    from fractions import Fraction

    t = a.dtype
    out = np.asarray(out)
    if out.shape != a.shape or out.dtype.kind != "f":
        return "asIs" if (out.shape == a.shape and np.array_equal(out, a) and t.kind in "uib") else None
    obs = [Fraction(float(v)) for v in out.ravel().tolist()]
    vals = a.ravel().tolist()
    cands = {"asIs": [Fraction(float(v)) if t.kind == "f" else Fraction(int(v)) for v in vals]}
    if t.kind in "ui":
        m = int(np.iinfo(t).max)
        cands["unsigned" if t.kind == "u" else "signedClip"] = promoted_exact(a)
        cands["signedClip" if t.kind == "u" else "unsigned"] = [max(Fraction(int(v), m), Fraction(-1)) if t.kind == "u" else Fraction(int(v), m) for v in vals]
    order = [KIND_RULE[t.kind]] + [k for k in cands if k != KIND_RULE[t.kind]]
    for k in order:
        if k in cands and all(abs(o - e) <= Fraction(1, 10 ** 15) * max(1, abs(e)) for o, e in zip(obs, cands[k])):
            return k
    return None


def tabulate_promotion(ctx, d):
    """G1: for every dtype, what img_as(float), the constructor, update(base=...) and __call__ do to sample pixel values
    (both ends of the range, values around 0, a third of the maximum)"""
    rows = []
    for name in ALL_DTYPES:
        t = np.dtype(name)
        if t.kind in "ui":
            ii = np.iinfo(t)
            vals = sorted({int(ii.min), int(ii.min) + 1, 0, 1, 2, int(ii.max) // 3, int(ii.max) - 1, int(ii.max)} | ({-1, -2, int(ii.min) // 3} if t.kind == "i" else set()))
        elif t.kind == "b":
            vals = [False, True, True, False]
        else:
            vals = [-1.5, 0.0, 0.25, 1.0, 3.0]
        a = np.array(vals, dtype=t).reshape(1, -1)
        mk = lambda x: d.ScalarImage(x.copy(), dimensions=[1.0, 1.0])
        plain = {"diff option": "plain"}

        def upd():
            an = d.ConcentrationAnalysis(mk(np.zeros(a.shape)), **plain)
            an.update(base=mk(a))
            return an.base.img

        obs = {
            "imgAs": call(lambda: mk(a).img_as(float).img),
            "ctor": call(lambda: d.ConcentrationAnalysis(mk(a), **plain).base.img),
            "update": call(upd),
            "call": call(lambda: d.ConcentrationAnalysis(None, **plain)(mk(a)).img),
        }
        row = dict(name=name, kind=t.kind, bits=8 * t.itemsize)
        for k, o in obs.items():
            rule = None if isinstance(o, Raised) else classify_rule(a, o)
            if rule is None:
                ctx.mark("TIE-BROKEN", {"G1": f"promotion of {name} by {k} matches none of the rules unsigned / signedClip / asIs",
                                        "observed": repr(o.exc) if isinstance(o, Raised) else np.asarray(o).ravel().tolist()[:8], "samples": a.ravel().tolist()[:8]})
                rule = "asIs" if t.kind in "ui" else "unsigned"  # deliberately not the rule of the kind: the theorem must not hold
            row[k] = rule
        rows.append(row)
    return rows


def emit_promotion(rows):
    L = ["import DarsiaModel.Pipeline", "namespace Darsia.Gen", "open Darsia Darsia.Pipeline", "",
         "/-- per dtype: rule observed for `Image.img_as(float)`, for the baseline stored by the constructor and by",
         "`update(base=…)`, and for the probe in `ConcentrationAnalysis.__call__` (sample values through the implementation) -/",
         "def promotionTable : List DTypeRow := ["]
    L.append(",\n".join(
        f'  {{ name := "{r["name"]}", kind := .{r["kind"]}, bits := {r["bits"]}, imgAs := .{r["imgAs"]}, ctor := .{r["ctor"]}, '
        f'update := .{r["update"]}, call := .{r["call"]} }}' for r in rows) + "]")
    L += ["", "end Darsia.Gen"]
    return "\n".join(L) + "\n"


def rand_image(ctx, d, kind, shape, dtype=float, dyadic=True, lo=0, hi=16):
    r = np.random.RandomState(ctx.rng.randrange(2 ** 31))
    full = shape + ({"ScalarImage": (), "OpticalImage": (3,), "Image": (2,)}[kind])
    if np.dtype(dtype).kind in "uib":
        data = rand_data(r, dtype, full)
    elif np.dtype(dtype) == np.float16:
        data = rand_data(r, dtype, full)  # dyadic: float16 arithmetic on them is exact
    elif dyadic:
        data = (r.randint(lo, hi + 1, size=full) / 4.0).astype(dtype)
    else:
        data = r.rand(*full).astype(dtype)
    kw = dict(dimensions=[ctx.rng.choice([1.0, 0.5, 2.0]), ctx.rng.choice([1.0, 1.5])], name=ctx.rng.choice([None, "probe"]))
    if ctx.rng.random() < 0.4:
        kw["origin"] = [ctx.rng.choice([0.0, 1.0, -2.0]), ctx.rng.choice([0.0, 3.0])]
    if ctx.rng.random() < 0.4:
        kw["date"] = dt.datetime(2021, 3, 4, 5, ctx.rng.randrange(60))
    elif ctx.rng.random() < 0.3:
        kw["time"] = float(ctx.rng.randrange(100))
    if kind == "ScalarImage":
        return d.ScalarImage(data, **kw)
    if kind == "OpticalImage":
        return d.OpticalImage(data, color_space="RGB", **kw)
    return d.Image(data, scalar=False, **kw)


def rand_config(ctx, kind, allow_offset=True, late=None):
    """`late`: name of a stage after the reduction that collapses the channels to one (the signal reduction itself is
    then absent, i.e. channel preserving) - the shape of MultichromaticTracerAnalysis-like set-ups"""
    rnd = ctx.rng
    nchan = {"OpticalImage": 3, "Image": 2, "ScalarImage": 0}[kind]
    reducer = lambda: rnd.choice([("chan", k) for k in range(nchan)] + [("chanAdd", 0, 1)])
    red = None
    if late is None and kind == "OpticalImage" and rnd.random() < 0.75:
        red = reducer()
    aff = lambda: ("affine", rnd.choice([2.0, 0.5, 3.0, -1.0]), rnd.choice([0.0, 0.25, -1.0]) if allow_offset and rnd.random() < 0.4 else 0.0)
    clip = lambda: ("clip", rnd.choice([0.0, 0.5]) if allow_offset else 0.0, rnd.choice([None, 1.0, 2.0]))
    stage = lambda: rnd.choice([None, aff(), clip()])
    cfg = dict(opt=rnd.choice(OPTS), first=rnd.random() < 0.5, reduction=red, balancing=rnd.choice([None, aff()]),
               restoration=stage(), model=stage())
    if late is not None and nchan:
        cfg[late] = reducer()
        # a stage that runs before the collapsing one must keep working on multi-channel data, one after it on scalar data:
        # affine / clip do both
    return cfg


def pick_late(ctx, kind):
    """None (reduction collapses or nothing does) or the later stage that collapses the channels"""
    if kind == "ScalarImage" or ctx.rng.random() < 0.55:
        return None
    return ctx.rng.choice(["balancing", "model", "model", "restoration"])


def build(d, cfg, base, log, scribble=False, real=None):
    real = real or {}
    stages = {}
    for k in ORDER:
        spec = cfg[k]
        obj = real.get(k) if k in real else mk_stage(d, spec)
        stages[k] = None if obj is None else Rec(k, obj, log, scribble)
    return call(lambda: d.ConcentrationAnalysis(
        base, signal_reduction=stages["reduction"], balancing=stages["balancing"], restoration=stages["restoration"],
        model=stages["model"], **{"diff option": cfg["opt"], "restoration -> model": cfg["first"]}))


STAGE_METHODS = {"_reduce_signal": "reduction", "_clean_signal": "cleaning", "_balance_signal": "balancing",
                 "_restore_signal": "restoration", "_convert_signal": "model"}


def extract_call_order(d):
    """G2: the order in which ConcentrationAnalysis.__call__ invokes its private stage methods, for both values of
    `first_restoration_then_model`, and whether each call is handed the variable the previous call assigned (chaining)"""
    import ast
    import inspect
    import textwrap

    f = ast.parse(textwrap.dedent(inspect.getsource(d.ConcentrationAnalysis.__call__))).body[0]

    def walk(stmts, first, out):
        for st in stmts:
            if isinstance(st, ast.If):
                test = ast.unparse(st.test)
                if "first_restoration_then_model" in test:
                    neg = test.strip().startswith("not ")
                    walk(st.body if (first != neg) else st.orelse, first, out)
                else:
                    # other conditionals (dtype promotion, plotting) contain no stage calls; scan both to be sure
                    walk(st.body, first, out)
                    walk(st.orelse, first, out)
                continue
            for n in ast.walk(st):
                if isinstance(n, ast.Call) and isinstance(n.func, ast.Attribute) and isinstance(n.func.value, ast.Name) \
                        and n.func.value.id == "self" and (n.func.attr in STAGE_METHODS or n.func.attr == "_subtract_background"):
                    tgt = st.targets[0].id if isinstance(st, ast.Assign) and isinstance(st.targets[0], ast.Name) else None
                    arg = n.args[0].id if n.args and isinstance(n.args[0], ast.Name) else None
                    out.append((n.func.attr, tgt, arg))

    table = {}
    for first in (True, False):
        calls = []
        walk(f.body, first, calls)
        names = [STAGE_METHODS[m] for m, _, _ in calls if m in STAGE_METHODS]
        chained = bool(calls) and calls[0][0] == "_subtract_background" and all(
            calls[k][2] is not None and calls[k][2] == calls[k - 1][1] for k in range(1, len(calls)))
        ret = [n for n in ast.walk(f) if isinstance(n, ast.Return)]
        table[first] = dict(order=names, chained=chained, last_target=calls[-1][1] if calls else None)
    return table


def emit_call_order(t):
    L = ["import DarsiaModel.Pipeline", "namespace Darsia.Gen", "open Darsia Darsia.Pipeline", "",
         "/-- order of the private stage calls in `ConcentrationAnalysis.__call__` (AST) -/", "def callOrder : Bool → List StageName"]
    for first in (True, False):
        L.append(f"  | {'true' if first else 'false'} => [" + ", ".join("." + n for n in t[first]["order"]) + "]")
    L += ["", "/-- each stage call receives the variable assigned by the previous call, the first one the difference -/",
          "def callsChained : Bool → Bool"]
    for first in (True, False):
        L.append(f"  | {'true' if first else 'false'} => {'true' if t[first]['chained'] else 'false'}")
    L += ["", "end Darsia.Gen"]
    return "\n".join(L) + "\n"


def correspondence(ctx, d):
    """constructor (+ extra baselines, also with multi-channel signals) -> 0..2 update(base=...) -> call, with well-behaved
    or input-overwriting stage objects; compared: recorded stage inputs, result class, result array, the result computed on
    buffers, the caller's probe after the call, the stored baseline after the call"""
    lines, impl = [], []
    for _ in range(ctx.pick(1500, 12000)):
        kind = ctx.rng.choice(["ScalarImage", "OpticalImage", "OpticalImage", "Image"])
        shape = (ctx.rng.randint(1, 3), ctx.rng.randint(1, 4))
        cfg = rand_config(ctx, kind, late=pick_late(ctx, kind))
        has_base = ctx.rng.random() < 0.85
        n_extra = ctx.rng.randint(0, 3) if (has_base and ctx.rng.random() < 0.6) else 0
        n_upd = ctx.rng.randint(1, 2) if ctx.rng.random() < 0.35 else 0
        scribble = ctx.rng.random() < 0.4
        fdt = ctx.rng.choice([np.float64, np.float64, np.float32])  # dyadic values: float32 arithmetic is exact as well
        lo = ctx.rng.choice([0, 0, -16])  # signed images too (scalar signals may be negative; matters without a baseline)
        base = rand_image(ctx, d, kind, shape, fdt, lo=lo)
        extras = [rand_image(ctx, d, kind, shape, fdt, lo=lo) for _ in range(n_extra)]
        updates = [rand_image(ctx, d, kind, shape, fdt, lo=lo) for _ in range(n_upd)]
        probe = rand_image(ctx, d, kind, shape, fdt, lo=lo) if ctx.rng.random() < 0.9 else (updates[-1] if updates else base).copy()
        log = []
        an = build(d, cfg, ([base] + extras) if has_base else None, log, scribble=scribble)
        req = (f"call {cfg['opt']} {int(cfg['first'])} {kind} " + (show_arr(base.img) if has_base else "none")
               + f" {n_extra} " + " ".join(show_arr(e.img) for e in extras) + f" {n_upd} " + " ".join(show_arr(u.img) for u in updates)
               + " " + show_arr(probe.img) + f" {int(scribble)} " + " ".join(show_stage(cfg[k]) for k in ORDER))
        lines.append(" ".join(req.split()))
        if isinstance(an, Raised):
            impl.append(repr(an))
            continue
        r = None
        for u in updates:
            r = call(lambda: an.update(base=u))
            if isinstance(r, Raised):
                break
        if isinstance(r, Raised):
            impl.append(repr(r))
            continue
        del log[:]
        res = call(lambda: an(probe))
        if isinstance(res, Raised):
            impl.append(repr(res))
            continue
        tr = ";".join(f"{n}={show_arr(a)}" for n, a in log if not n.startswith("out:"))
        stored = getattr(an, "base", None)
        pm, rm = meta_snapshot(probe), meta_snapshot(res)
        pm["scalar"], rm["scalar"] = probe.scalar, res.scalar
        mline = []
        for key in ("space_dim", "indexing", "dimensions", "origin", "series", "scalar", "date", "reference_date", "time", "name"):
            same = meta_equal({key: pm[key]}, {key: rm[key]}) is None
            mline.append(f"{key}=" + ("same" if same else ("True" if rm[key] is True else "other")))
        impl.append(f"{tr}|{type(res).__name__}|{show_arr(res.img)}|{show_arr(res.img)}|{show_arr(probe.img)}|"
                    + (show_arr(stored.img) if stored is not None else "none") + "|" + " ".join(mline))
    ctx.correspond("pipeline", lines, impl)


# ---------------------------------------------------------------------------------------------


def to_float(img):
    """the documented promotion of integer images (skimage img_as_float)"""
    a = img.img
    return promoted(a) if a.dtype.kind in "uib" else a


def ref_diff(opt, p, b):
    x = p.astype(np.float64) - b.astype(np.float64)
    return {"positive": np.clip(x, 0, None), "negative": np.clip(-x, 0, None), "absolute": np.abs(x), "plain": x}[opt]


def meta_snapshot(img):
    m = img.metadata()
    return {k: copy.deepcopy(m[k]) for k in ("space_dim", "indexing", "dimensions", "origin", "series", "date",
                                             "reference_date", "time", "name")}


def meta_equal(a, b):
    for k in a:
        x, y = a[k], b[k]
        if isinstance(x, np.ndarray) or isinstance(y, np.ndarray) or isinstance(x, list):
            if not np.array_equal(np.asarray(x, dtype=object if k in ("date",) else None), np.asarray(y, dtype=object if k in ("date",) else None)):
                return k
        elif x != y:
            return k
    return None


def zero_stock_stages(ctx, d, kind):
    """stock stage objects that map 0 to 0 (hypothesis of baseline_zero)"""
    rnd = ctx.rng
    red = None
    if kind == "OpticalImage":
        red = rnd.choice([None, "red", "green", "blue", "red+green", "gray"])
    real = {
        "reduction": None if red is None else d.MonochromaticReduction(color=red),
        "balancing": rnd.choice([None, d.LinearModel(scaling=rnd.choice([2.0, 0.3]), offset=0.0)]),
        "restoration": rnd.choice([None, None, d.TVD(method="chambolle", weight=0.1, max_num_iter=20),
                                   d.TVD(method="isotropic bregman", weight=5.0, max_num_iter=20)]),
        "model": rnd.choice([None, d.LinearModel(scaling=rnd.choice([1.0, 4.0]), offset=0.0),
                             d.ClipModel(**{"min value": 0.0, "max value": 1.0}), d.ScalingModel(scaling=2.0)]),
    }
    return real, red


def oracle(ctx, d):
    dtypes = [np.float64, np.float32, np.uint8, np.uint16]
    wide = dtypes + [np.dtype(n).type for n in ALL_DTYPES]  # random blocks: every dtype (the four common ones twice as often)
    # --- O1 baseline -> 0, O5 metadata / kind --------------------------------------------------------
    for opt in OPTS:
        for dtype in dtypes:
            for kind in ("ScalarImage", "OpticalImage", "Image"):
                for rep in range(ctx.pick(6, 40)):
                    shape = (ctx.rng.randint(2, 9), ctx.rng.randint(2, 9))
                    real, red = zero_stock_stages(ctx, d, kind)
                    if kind == "Image":
                        real["restoration"] = None  # TVD on 2-channel data: channel handling of skimage, not of interest
                    scalar_signal = kind == "ScalarImage" or red is not None
                    n_extra = ctx.rng.randint(0, 3)
                    base = rand_image(ctx, d, kind, shape, dtype, dyadic=False)
                    extras = [rand_image(ctx, d, kind, shape, dtype, dyadic=False) for _ in range(n_extra)]
                    cfg = dict(opt=opt, first=ctx.rng.random() < 0.5, reduction=None, balancing=None, restoration=None, model=None)
                    log = []
                    an = build(d, cfg, [base] + extras, log, real=real)
                    case = dict(opt=opt, dtype=np.dtype(dtype).name, kind=kind, shape=list(shape), extras=n_extra, reduction=red,
                                first=cfg["first"], stages={k: type(v).__name__ for k, v in real.items() if v is not None})
                    ctx.count(("baseline", opt, np.dtype(dtype).name, kind, shape, n_extra, red, cfg["first"]))
                    if isinstance(an, Raised):
                        ctx.fail(f"C13:constructor-raises({type(an.exc).__name__},dtype={case['dtype']},kind={kind})", f"ConcentrationAnalysis(...) raises {an.exc!r}", case)
                        continue
                    if ctx.rng.random() < 0.3:
                        # the caller goes on working on the baseline image it passed: the analysis holds its own copy
                        pristine = base.copy()
                        base.img[...] = base.img.max()
                        base = pristine
                        case = dict(case, caller_modified_baseline_after_construction=True)
                    before = (base.img.copy(), meta_snapshot(base))
                    res = call(lambda: an(base))
                    if isinstance(res, Raised):
                        ctx.fail(f"C13:call-raises({type(res.exc).__name__},dtype={case['dtype']},kind={kind})", f"analysis(baseline) raises {res.exc!r}", case)
                        continue
                    if not np.all(res.img == 0):
                        ctx.fail(f"C13:baseline-not-zero(opt={opt},dtype={case['dtype']})",
                                 f"analysis(baseline) is not the zero signal: max |value| = {float(np.max(np.abs(res.img)))}",
                                 dict(case, observed_max=float(np.max(np.abs(res.img))), base=base.img.tolist() if base.img.size <= 64 else None))
                    if not np.array_equal(before[0], base.img) or meta_equal(before[1], meta_snapshot(base)):
                        ctx.fail("C13:probe-modified(baseline)", "the image passed to the analysis was modified", case)
                    reduced = res.img.ndim == base.img.ndim - 1
                    want = "ScalarImage" if reduced else type(base).__name__
                    if reduced and not getattr(res, "scalar", False):
                        ctx.fail(f"C13:result-not-scalar({type(base).__name__},reduced=True)", f"reduced result ({type(res).__name__}) is not a scalar image", case)
                    elif type(res).__name__ != want:
                        ctx.fail(f"C13:result-kind({type(base).__name__},reduced={reduced})", f"result is {type(res).__name__}, expected {want}", case)
                    k = meta_equal(meta_snapshot(base), meta_snapshot(res))
                    if k:
                        ctx.fail(f"C13:result-metadata({k})", f"result metadata '{k}' differs from the probe's", dict(case, key=k))

    # --- O2 order and chaining, O4 scribbling stages ---------------------------------------------------------
    for rep in range(ctx.pick(1200, 12000)):
        kind = ctx.rng.choice(["ScalarImage", "OpticalImage", "OpticalImage", "Image"])
        dtype = ctx.rng.choice(dtypes)
        shape = (ctx.rng.randint(1, 6), ctx.rng.randint(1, 6))
        cfg = rand_config(ctx, kind, late=pick_late(ctx, kind))
        scalar_signal = kind == "ScalarImage" or cfg["reduction"] is not None
        has_base = ctx.rng.random() < 0.85
        n_extra = ctx.rng.randint(0, 3) if has_base else 0
        scribble = ctx.rng.random() < 0.5
        base = rand_image(ctx, d, kind, shape, dtype, dyadic=False)
        extras = [rand_image(ctx, d, kind, shape, dtype, dyadic=False) for _ in range(n_extra)]
        probe = rand_image(ctx, d, kind, shape, dtype, dyadic=False)
        log = []
        bases = [base] + extras
        bases_before = [(b.img.copy(), meta_snapshot(b)) for b in bases]
        an = build(d, cfg, bases if has_base else None, log, scribble=scribble)
        case = dict(cfg={k: (list(v) if isinstance(v, tuple) else v) for k, v in cfg.items()}, dtype=np.dtype(dtype).name, kind=kind,
                    shape=list(shape), extras=n_extra, base=has_base, scribbling_stages=scribble)
        ctx.count(("order", kind, np.dtype(dtype).name, shape, n_extra, has_base, scribble, repr(sorted(cfg.items(), key=str))))
        if isinstance(an, Raised):
            ctx.fail(f"C13:constructor-raises({type(an.exc).__name__},dtype={case['dtype']},kind={kind})", f"ConcentrationAnalysis(...) raises {an.exc!r}", case)
            continue
        ctor_log = list(log)
        del log[:]
        pb = (probe.img.copy(), probe.img.dtype, meta_snapshot(probe), type(probe))
        res = call(lambda: an(probe))
        if isinstance(res, Raised):
            ctx.fail(f"C13:call-raises({type(res.exc).__name__},dtype={case['dtype']},kind={kind})", f"analysis(probe) raises {res.exc!r}", case)
            continue
        names = [n for n, _ in log if not n.startswith("out:")]
        present = [k for k in ORDER if cfg[k] is not None]
        want = [k for k in ["reduction", "balancing"] if k in present] + (
            [k for k in ["restoration", "model"] if k in present] if cfg["first"] else [k for k in ["model", "restoration"] if k in present])
        if names != want:
            ctx.fail(f"C13:stage-order(restoration-first={cfg['first']})", f"stages called in order {names}, documented order {want}",
                     dict(case, observed=names, required=want))
            continue
        # chaining: first input = difference, then output of the previous stage (through the cleaning filter)
        p64, b64 = to_float(probe), to_float(base)
        diff = ref_diff(cfg["opt"], p64, b64 if has_base else np.zeros_like(p64))
        ins = [a for n, a in log if not n.startswith("out:")]
        outs = [a for n, a in log if n.startswith("out:")]
        thr = None
        if n_extra:
            # threshold as the constructor computed it: max over the reduced differences of the extra baselines
            # reference reduction of the extra baselines' differences, computed here (not taken from the implementation)
            def ref_reduce(spec, a):
                if spec is None:
                    return a
                return a[..., spec[1]] if spec[0] == "chan" else a[..., spec[1]] + a[..., spec[2]]

            sig = [ref_reduce(cfg["reduction"], ref_diff(cfg["opt"], to_float(e), b64)) for e in extras]
            thr = np.zeros_like(np.asarray(sig[0], dtype=float))
            for s in sig:
                thr = np.maximum(thr, s)
        prev = diff
        ok = True
        for idx, nm in enumerate(names):
            expect = prev
            if thr is not None and ((nm != "reduction" and (idx == 0 or names[idx - 1] == "reduction") and "reduction" in names[:idx]) or
                                    (idx == 0 and nm != "reduction")):
                expect = np.clip(prev - thr, 0, None)
            if ins[idx].shape != expect.shape or not np.allclose(ins[idx], expect, rtol=1e-6, atol=1e-6):
                ctx.fail(f"C13:stage-input({nm})", f"stage '{nm}' did not receive the output of the previous stage (max deviation "
                         f"{float(np.max(np.abs(ins[idx] - expect))) if ins[idx].shape == expect.shape else 'shape'})",
                         dict(case, stage=nm, position=idx))
                ok = False
                break
            prev = outs[idx]
        if ok:
            final = prev
            if thr is not None and (not names or names == ["reduction"]):
                final = np.clip(prev - thr, 0, None)
            if res.img.shape != final.shape or not np.allclose(res.img, final, rtol=1e-6, atol=1e-6):
                ctx.fail("C13:result-is-not-last-stage-output", "the returned image does not hold the output of the last stage", case)
        # probe / baselines untouched, also under scribbling stages; analysis reusable
        if not np.array_equal(pb[0], probe.img) or probe.img.dtype != pb[1] or meta_equal(pb[2], meta_snapshot(probe)) or type(probe) is not pb[3]:
            ctx.fail(f"C13:probe-modified(scribbling={scribble})", "the probe image was modified by the analysis", case)
        for (a0, m0), b in zip(bases_before, bases):
            if not np.array_equal(a0, b.img) or meta_equal(m0, meta_snapshot(b)):
                ctx.fail(f"C13:baseline-modified(scribbling={scribble})", "a baseline image passed to the constructor was modified", case)
                break
        res2 = call(lambda: an(probe))
        if isinstance(res2, Raised) or res2.img.shape != res.img.shape or not np.array_equal(res2.img, res.img):
            ctx.fail(f"C13:second-call-differs(scribbling={scribble})", "a second call with the same probe gives a different result (stored baseline / filter corrupted)", case)
        k = meta_equal(pb[2], meta_snapshot(res))
        if k:
            ctx.fail(f"C13:result-metadata({k})", f"result metadata '{k}' differs from the probe's", dict(case, key=k))
        reduced = res.img.ndim == probe.img.ndim - 1
        wantk = "ScalarImage" if reduced else type(probe).__name__
        if reduced and not getattr(res, "scalar", False):
            ctx.fail(f"C13:result-not-scalar({type(probe).__name__},reduced=True)", f"reduced result ({type(res).__name__}) is not a scalar image", case)
        elif type(res).__name__ != wantk:
            ctx.fail(f"C13:result-kind({type(probe).__name__},reduced={reduced})", f"result is {type(res).__name__}, expected {wantk}", case)

    # --- O6 channels collapsed by a LATER stage (reduction absent): kind rule + metadata, exhaustive over
    #        {balancing, restoration, model} x both orders x diff options x colour kinds x dtypes
    for late in ("balancing", "restoration", "model"):
        for first in (True, False):
            for opt in OPTS:
                for kind in ("OpticalImage", "Image"):
                    for dtype in dtypes:
                        for rep in range(ctx.pick(1, 4)):
                            shape = (ctx.rng.randint(1, 6), ctx.rng.randint(1, 6))
                            cfg = rand_config(ctx, kind, late=late)
                            cfg["opt"], cfg["first"] = opt, first
                            base = rand_image(ctx, d, kind, shape, dtype, dyadic=False)
                            probe = rand_image(ctx, d, kind, shape, dtype, dyadic=False)
                            case = dict(cfg={k: (list(v) if isinstance(v, tuple) else v) for k, v in cfg.items()}, late_collapse=late,
                                        dtype=np.dtype(dtype).name, kind=kind, shape=list(shape))
                            ctx.count(("late", late, first, opt, kind, np.dtype(dtype).name, shape, rep))
                            log = []
                            an = build(d, cfg, [base], log)
                            res = an if isinstance(an, Raised) else call(lambda: an(probe))
                            if isinstance(res, Raised):
                                ctx.fail(f"C13:late-collapse({late},restoration-first={first}):raises-{type(res.exc).__name__}",
                                         f"channels collapsed by the {late} stage (no signal reduction): the analysis raises {res.exc!r} instead of "
                                         "returning a ScalarImage", case)
                                continue
                            if not getattr(res, "scalar", False) or res.img.ndim != 2:
                                ctx.fail(f"C13:late-collapse({late}):result-not-scalar", f"one-channel result is not a scalar image: {type(res).__name__} of shape {res.img.shape}", case)
                            elif type(res).__name__ != "ScalarImage":
                                ctx.fail(f"C13:late-collapse({late}):result-kind", f"one-channel result returned as {type(res).__name__} of shape {res.img.shape}", case)
                            k = meta_equal(meta_snapshot(probe), meta_snapshot(res))
                            if k:
                                ctx.fail(f"C13:result-metadata({k})", f"result metadata '{k}' differs from the probe's", dict(case, key=k))
                            outs = [a for n, a in log if n.startswith("out:")]
                            if outs and (res.img.shape != outs[-1].shape or not np.array_equal(res.img, outs[-1])):
                                ctx.fail("C13:result-is-not-last-stage-output", "the returned image does not hold the output of the last stage", case)

    # --- O7 update(base=...) / update(mask=...): the state "fixed at construction / update" --------------------------
    for rep in range(ctx.pick(120, 1200)):
        kind = ctx.rng.choice(["ScalarImage", "OpticalImage", "Image"])
        shape = (ctx.rng.randint(2, 7), ctx.rng.randint(2, 7))  # (TVD of skimage needs more than one row / column)
        # float16 is left to dtype_tie / the stage-free block: the stock TVD restoration (skimage / scipy) rejects float16 input
        # with TypeError('No matching signature found') - img_as(float) keeps float16 -, which is not a matter of this property
        upd_dtypes = [t for t in wide if np.dtype(t) != np.float16]
        dt0, dt1 = ctx.rng.choice(upd_dtypes), ctx.rng.choice(upd_dtypes)
        opt = ctx.rng.choice(OPTS)
        real, red = zero_stock_stages(ctx, d, kind)
        if kind == "Image":
            real["restoration"] = None
        n_extra = ctx.rng.randint(0, 2)
        b0 = rand_image(ctx, d, kind, shape, dt0, dyadic=False)
        extras = [rand_image(ctx, d, kind, shape, dt0, dyadic=False) for _ in range(n_extra)]
        n_upd = ctx.rng.randint(1, 3)
        news = [rand_image(ctx, d, kind, shape, dt1, dyadic=False) for _ in range(n_upd)]
        cfg = dict(opt=opt, first=ctx.rng.random() < 0.5, reduction=None, balancing=None, restoration=None, model=None)
        case = dict(opt=opt, kind=kind, shape=list(shape), dtype_at_construction=np.dtype(dt0).name, dtype_of_update=np.dtype(dt1).name,
                    extras=n_extra, updates=n_upd, reduction=red, stages={k: type(v).__name__ for k, v in real.items() if v is not None})
        ctx.count(("update", opt, kind, shape, np.dtype(dt0).name, np.dtype(dt1).name, n_extra, n_upd, red, rep))
        log = []
        an = build(d, cfg, [b0] + extras, log, real=real)
        if isinstance(an, Raised):
            ctx.fail(f"C13:constructor-raises({type(an.exc).__name__},dtype={case['dtype_at_construction']},kind={kind})", f"ConcentrationAnalysis(...) raises {an.exc!r}", case)
            continue
        bad = False
        for nb in news:
            keep = (nb.img.copy(), meta_snapshot(nb))
            r = call(lambda: an.update(base=nb))
            if isinstance(r, Raised):
                ctx.fail(f"C13:update(base):raises-{type(r.exc).__name__}", f"analysis.update(base=image) raises {r.exc!r}", case)
                bad = True
                break
            if ctx.rng.random() < 0.3:
                call(lambda: an.update(mask=np.ones(shape, dtype=bool)))
            if not np.array_equal(keep[0], nb.img) or meta_equal(keep[1], meta_snapshot(nb)):
                ctx.fail("C13:update(base):modifies-argument", "update(base=image) modified the image it was given", case)
        if bad:
            # the state the failed update left behind still decides later calls: the new baseline must map to zero
            pass
        cur = news[-1] if not bad else nb
        if not bad and ctx.rng.random() < 0.5:
            # the caller goes on working on the image it passed: the analysis holds its own copy
            pristine = cur.copy()
            cur.img[...] = cur.img.max()
            cur = pristine
            case = dict(case, caller_modified_image_after_update=True)
        res = call(lambda: an(cur))
        if isinstance(res, Raised):
            ctx.fail(f"C13:call-raises-after-update({type(res.exc).__name__},dtype={case['dtype_of_update']})", f"analysis(new baseline) raises {res.exc!r} after update", case)
            continue
        if not np.all(res.img == 0):
            ctx.fail(f"C13:baseline-not-zero-after-update(dtype={case['dtype_of_update']})",
                     f"after update(base=b) the analysis does not map b to zero: max |value| = {float(np.max(np.abs(res.img)))}",
                     dict(case, observed_max=float(np.max(np.abs(res.img)))))
        if not bad:
            # and any probe is analysed against the NEW baseline
            probe = rand_image(ctx, d, kind, shape, dt1, dyadic=False)
            an2 = call(lambda: d.ConcentrationAnalysis(cur, **{"diff option": opt}))
            an1 = call(lambda: d.ConcentrationAnalysis(b0, **{"diff option": opt}))
            r1 = an1 if isinstance(an1, Raised) else call(lambda: (an1.update(base=cur), an1(probe))[1])
            r2 = an2 if isinstance(an2, Raised) else call(lambda: an2(probe))
            if isinstance(r1, Raised) or isinstance(r2, Raised) or r1.img.shape != r2.img.shape or not np.allclose(r1.img, r2.img, rtol=0, atol=1e-6):
                ctx.fail(f"C13:update(base):differs-from-fresh-analysis(dtype={case['dtype_of_update']})",
                         "an analysis updated to baseline b differs from a fresh analysis constructed with b", case)

    # --- O3 positive / negative / absolute / plain --------------------------------------------------------
    for rep in range(ctx.pick(400, 4000)):
        kind = ctx.rng.choice(["ScalarImage", "OpticalImage", "Image"])
        dtype = ctx.rng.choice(wide)
        shape = (ctx.rng.randint(1, 7), ctx.rng.randint(1, 7))
        base = rand_image(ctx, d, kind, shape, dtype, dyadic=False)
        probe = rand_image(ctx, d, kind, shape, dtype, dyadic=False)
        no_base = ctx.rng.random() < 0.35  # the documented default: an analysis without baseline
        if np.dtype(dtype).kind == "f" and ctx.rng.random() < 0.6:
            probe.img -= probe.img.dtype.type(0.5)  # signed signal
            base.img -= base.img.dtype.type(0.25)
        out = {}
        case = dict(dtype=np.dtype(dtype).name, kind=kind, shape=list(shape), baseline=not no_base,
                    base=base.img.tolist() if base.img.size <= 32 else None,
                    probe=probe.img.tolist() if probe.img.size <= 32 else None)
        ctx.count(("diffs", kind, np.dtype(dtype).name, shape, rep))
        bad = False
        for opt in OPTS:
            an = call(lambda: d.ConcentrationAnalysis(None if no_base else base, **{"diff option": opt}))
            r = an if isinstance(an, Raised) else call(lambda: an(probe))
            if isinstance(r, Raised):
                ctx.fail(f"C13:call-raises({type(r.exc).__name__},dtype={case['dtype']},kind={kind})", f"analysis raises {r.exc!r}", dict(case, opt=opt))
                bad = True
                break
            out[opt] = r.img.astype(np.float64)
        if bad:
            continue
        tol = dict(rtol=0, atol=1e-6)
        nb = ",no-baseline" if no_base else ""
        if not np.allclose(out["positive"] + out["negative"], out["absolute"], **tol):
            ctx.fail(f"C13:pos+neg!=abs(dtype={case['dtype']}{nb})", "positive part + negative part differs from the absolute difference", case)
        if not np.allclose(out["positive"] - out["negative"], out["plain"], **tol):
            ctx.fail(f"C13:pos-neg!=plain(dtype={case['dtype']}{nb})", "positive part - negative part differs from the plain difference", case)
        ref = to_float(probe).astype(np.float64) - (0.0 if no_base else to_float(base).astype(np.float64))
        if not np.allclose(out["plain"], ref, **tol):
            ctx.fail(f"C13:plain-difference-wrong(dtype={case['dtype']})",
                     "plain difference is not probe - baseline on the promoted values (wrap-around / missing promotion)",
                     dict(case, max_dev=float(np.max(np.abs(out["plain"] - ref)))))
        if np.any(out["positive"] < 0) or np.any(out["negative"] < 0) or np.any(out["absolute"] < 0):
            ctx.fail(f"C13:negative-part-of-clipped-difference(dtype={case['dtype']})", "clipped / absolute difference has negative entries", case)


def reduction_tie(ctx, d):
    """the stock signal reductions inside the real analysis against the model's exact formulas (gray: 0.299 R + 0.587 G +
    0.114 B in that channel order; negative-key; channel selections): cv2 works in float32, so the comparison is numeric
    (1e-5), a larger deviation is a failing input"""
    from fractions import Fraction

    lines, cases = [], []
    for n in range(ctx.pick(150, 1500)):
        red = ctx.rng.choice([("gray",), ("gray",), ("negkey",), ("chan", 0), ("chan", 1), ("chan", 2), ("chanAdd", 0, 1), "hsv", "hsv"])
        opt = ctx.rng.choice(OPTS)
        if red == "hsv":
            # user windows for hue (skimage: hue in [0, 1)) and saturation; the difference must be non-negative for rgb2hsv
            red = ("hsv", ctx.rng.choice([0.0, 0.125, 0.5]), ctx.rng.choice([0.75, 1.0, 360.0]), ctx.rng.choice([0.0, 0.25]),
                   ctx.rng.choice([0.5, 0.75, 1.0]))
            opt = ctx.rng.choice(["positive", "negative", "absolute"])
        shape = (ctx.rng.randint(1, 4), ctx.rng.randint(1, 4))
        base = rand_image(ctx, d, "OpticalImage", shape, hi=4)
        probe = rand_image(ctx, d, "OpticalImage", shape, hi=4)
        if ctx.rng.random() < 0.4:  # a pure single-channel tracer on top of the baseline
            probe = base.copy()
            probe.img[..., ctx.rng.choice([0, 2])] += 0.5
        n_extra = ctx.rng.randint(0, 2)
        extras = [rand_image(ctx, d, "OpticalImage", shape, hi=4) for _ in range(n_extra)]
        cfg = dict(opt=opt, first=True, reduction=red, balancing=None, restoration=None, model=None)
        req = (f"call {opt} 1 OpticalImage {show_arr(base.img)} {n_extra} " + " ".join(show_arr(e.img) for e in extras) + " 0 "
               + show_arr(probe.img) + " 0 " + " ".join(show_stage(cfg[k]) if cfg[k] is None or len(cfg[k]) > 1 else cfg[k][0] for k in ORDER))
        if n_extra and red[0] == "hsv":
            pass
        lines.append(" ".join(req.split()))
        cases.append((cfg, base, extras, probe))
    got = ctx.model(lines)
    worst = 0.0
    for line, out, (cfg, base, extras, probe) in zip(lines, got, cases):
        ctx.count(("reduction", line))
        log = []
        an = build(d, cfg, [base] + extras, log)
        res = an if isinstance(an, Raised) else call(lambda: an(probe))
        case = dict(reduction=cfg["reduction"][0], reduction_parameters=list(cfg["reduction"][1:]), opt=cfg["opt"], base=base.img.tolist(),
                    probe=probe.img.tolist(), extras=[e.img.tolist() for e in extras])
        if isinstance(res, Raised):
            ctx.fail(f"C13:call-raises({type(res.exc).__name__},dtype=float64,kind=OpticalImage)", f"analysis raises {res.exc!r}", case)
            continue
        try:
            exact = [Fraction(t) for t in out.split("|")[2].split()[3:]]
        except (ValueError, IndexError, ZeroDivisionError):
            ctx.mark("TIE-BROKEN", {"driver_output": out[:200], "request": line[:200]})
            continue
        vals = np.asarray(res.img, dtype=np.float64).ravel()
        if len(exact) != vals.size:
            ctx.fail(f"C13:reduction({case['reduction']}):shape", "reduced signal has another number of entries than pixels", case)
            continue
        dev = max(abs(float(v) - float(e)) for v, e in zip(vals, exact))
        worst = max(worst, dev)
        if dev > 1e-5:
            ctx.fail(f"C13:reduction({case['reduction']}):differs-from-documented-reduction",
                     f"the analysis with signal reduction '{case['reduction']}' deviates by {dev:.3g} from the documented reduction of the "
                     "difference (gray: 0.299 R + 0.587 G + 0.114 B; hsv: value inside the hue / saturation windows)", dict(case, max_dev=dev, observed=vals.tolist(), required=[float(e) for e in exact]))
    ctx.cov["reduction_max_float_error"] = worst


def dtype_tie(ctx, d):
    """every dtype img_as(float) accepts, for baseline and probe (all 144 ordered pairs, same and mixed), scalar / RGB /
    two-channel images, baseline installed by the constructor or by update(base=...), every diff option: the difference the
    real analysis returns (no stages) against the model's exact difference of the promoted values (diffD); the baseline
    itself -> 0; positive + negative = absolute, positive - negative = plain. Inputs are integers over the whole range of
    the type / booleans / dyadic floats, so the only rounding is that of the promotion and one subtraction (<= 1e-15)."""
    from fractions import Fraction

    fr = lambda x: (str(x.numerator) if x.denominator == 1 else f"{x.numerator}/{x.denominator}")
    raw = lambda a: [Fraction(float(v)) if a.dtype.kind == "f" else Fraction(int(v)) for v in a.ravel().tolist()]
    pairs = [(b, p) for b in ALL_DTYPES for p in ALL_DTYPES]
    lines, cases = [], []
    for n in range(ctx.pick(2, 10) * len(pairs)):
        db, dp = pairs[n % len(pairs)]
        kind = ctx.rng.choice(["ScalarImage", "ScalarImage", "OpticalImage", "Image"])
        shape = (ctx.rng.randint(1, 3), ctx.rng.randint(1, 4))
        full = shape + ({"ScalarImage": (), "OpticalImage": (3,), "Image": (2,)}[kind])
        r = np.random.RandomState(ctx.rng.randrange(2 ** 31))
        base, probe = rand_data(r, db, full), rand_data(r, dp, full)
        via = ctx.rng.choice(["constructor", "constructor", "update"])
        tb, tp = np.dtype(db), np.dtype(dp)
        for opt in OPTS:
            lines.append(f"diffdt {opt} {tb.kind} {8 * tb.itemsize} {tp.kind} {8 * tp.itemsize} {probe.size} " + " ".join(fr(x) for x in raw(probe))
                         + f" {base.size} " + " ".join(fr(x) for x in raw(base)))
        cases.append((db, dp, kind, shape, base, probe, via))
    got = ctx.model(lines)
    worst = 0.0
    for i, (db, dp, kind, shape, base, probe, via) in enumerate(cases):
        mk = {"ScalarImage": lambda a: d.ScalarImage(a.copy(), dimensions=[1.0, 1.0]),
              "OpticalImage": lambda a: d.OpticalImage(a.copy(), dimensions=[1.0, 1.0], color_space="RGB"),
              "Image": lambda a: d.Image(a.copy(), scalar=False, dimensions=[1.0, 1.0])}[kind]
        case = dict(baseline_dtype=db, probe_dtype=dp, kind=kind, shape=list(shape), baseline_installed_by=via,
                    base=base.tolist(), probe=probe.tolist())
        ctx.count(("dtype", db, dp, kind, shape, via, lines[4 * i]))
        out = {}
        for j, opt in enumerate(OPTS):
            def build_an():
                if via == "constructor":
                    return d.ConcentrationAnalysis(mk(base), **{"diff option": opt})
                an = d.ConcentrationAnalysis(mk(np.zeros(base.shape)), **{"diff option": opt})
                an.update(base=mk(base))
                return an

            an = call(build_an)
            res = an if isinstance(an, Raised) else call(lambda: an(mk(probe)))
            if isinstance(res, Raised):
                ctx.fail(f"C13:call-raises({type(res.exc).__name__},dtype={db}/{dp},kind={kind})", f"analysis raises {res.exc!r}", dict(case, opt=opt))
                break
            zero = call(lambda: an(mk(base)))
            if isinstance(zero, Raised) or np.any(np.asarray(zero.img) != 0):
                ctx.fail(f"C13:baseline-not-zero(opt={opt},dtype={db})",
                         f"analysis(baseline) is not identically zero for a {db} baseline (installed by {via})",
                         dict(case, opt=opt, observed=repr(zero.exc) if isinstance(zero, Raised) else np.asarray(zero.img, dtype=float).ravel().tolist()[:12]))
            try:
                exact = [Fraction(t) for t in got[4 * i + j].split()]
            except (ValueError, ZeroDivisionError):
                ctx.mark("TIE-BROKEN", {"driver_output": got[4 * i + j][:200], "request": lines[4 * i + j][:200]})
                break
            vals = np.asarray(res.img, dtype=np.float64)
            out[opt] = vals
            if vals.size != len(exact) or vals.shape != base.shape:
                ctx.fail(f"C13:dtype(base={db},probe={dp},opt={opt}):shape", "result has another shape than the images", dict(case, opt=opt))
                break
            dev = max(abs(Fraction(float(v)) - e) for v, e in zip(vals.ravel().tolist(), exact))
            if Fraction(1, 10 ** 12) < dev <= Fraction(1, 10 ** 6):
                # the statement asks for promotion, not for float64 promotion: a working precision of float32 is a break of the
                # tie with the exact model only
                ctx.mark("TIE-BROKEN", {"correspondence": "diffD (exact promoted difference)", "dtype": f"{db}/{dp}", "opt": opt, "max_dev": float(dev)})
            if dev > Fraction(1, 10 ** 6):
                ctx.fail(f"C13:dtype(base={db},probe={dp},opt={opt}):differs-from-promoted-difference",
                         f"the {opt} difference of a {dp} probe and a {db} baseline deviates by {float(dev):.3g} from the difference of the "
                         "promoted values (img_as(float) of each image)",
                         dict(case, opt=opt, max_dev=float(dev), observed=vals.ravel().tolist()[:12], required=[float(e) for e in exact[:12]]))
            else:
                worst = max(worst, float(dev))
        if len(out) == 4:
            if not np.allclose(out["positive"] + out["negative"], out["absolute"], rtol=0, atol=1e-6):
                ctx.fail(f"C13:pos+neg!=abs(dtype={db}/{dp})", "positive part + negative part differs from the absolute difference", case)
            if not np.allclose(out["positive"] - out["negative"], out["plain"], rtol=0, atol=1e-6):
                ctx.fail(f"C13:pos-neg!=plain(dtype={db}/{dp})", "positive part - negative part differs from the plain difference", case)
    ctx.cov["dtype_tie_max_float_error"] = worst


def promotion_tie(ctx, d):
    """integer images: the difference the real analysis returns (no stages) against the model's exact promoted difference
    (value / (2^bits - 1), then the option); float round-off measured, anything larger is a failing input"""
    from fractions import Fraction

    lines, cases = [], []
    for n in range(ctx.pick(120, 1200)):
        bits = ctx.rng.choice([8, 16])
        dtype = np.uint8 if bits == 8 else np.uint16
        opt = ctx.rng.choice(OPTS)
        shape = (ctx.rng.randint(1, 4), ctx.rng.randint(1, 5))
        r = np.random.RandomState(ctx.rng.randrange(2 ** 31))
        hi = 2 ** bits
        probe = r.randint(0, hi, size=shape).astype(dtype)
        base = r.randint(0, hi, size=shape).astype(dtype)
        if ctx.rng.random() < 0.3:  # extremes: the cases that wrap without promotion
            probe.flat[0], base.flat[0] = 0, hi - 1
            probe.flat[-1], base.flat[-1] = hi - 1, 0
        lines.append(f"diffint {bits} {opt} {probe.size} " + " ".join(map(str, probe.ravel().tolist())) + f" {base.size} "
                     + " ".join(map(str, base.ravel().tolist())))
        cases.append((bits, opt, probe, base))
    got = ctx.model(lines)
    worst = 0.0
    for line, out, (bits, opt, probe, base) in zip(lines, got, cases):
        ctx.count(("promotion", line))
        an = call(lambda: d.ConcentrationAnalysis(d.ScalarImage(base, dimensions=[1.0, 1.0]), **{"diff option": opt}))
        res = an if isinstance(an, Raised) else call(lambda: an(d.ScalarImage(probe, dimensions=[1.0, 1.0])))
        case = dict(bits=bits, opt=opt, probe=probe.tolist(), base=base.tolist())
        if isinstance(res, Raised):
            ctx.fail(f"C13:call-raises({type(res.exc).__name__},dtype=uint{bits},kind=ScalarImage)", f"analysis raises {res.exc!r}", case)
            continue
        try:
            exact = [Fraction(t) for t in out.split()]
        except (ValueError, ZeroDivisionError):
            ctx.mark("TIE-BROKEN", {"driver_output": out[:200], "request": line[:200]})
            continue
        vals = np.asarray(res.img, dtype=np.float64).ravel()
        if len(exact) != vals.size:
            ctx.fail(f"C13:promotion(uint{bits},{opt}):shape", "result has another number of entries than the images", case)
            continue
        dev = max(abs(Fraction(float(v)) - e) for v, e in zip(vals, exact))
        worst = max(worst, float(dev))
        if Fraction(1, 10 ** 12) < dev <= Fraction(1, 10 ** 6):
            ctx.mark("TIE-BROKEN", {"correspondence": "diffPromoted (exact promoted difference)", "dtype": f"uint{bits}", "opt": opt, "max_dev": float(dev)})
        if dev > Fraction(1, 10 ** 6):
            ctx.fail(f"C13:promotion(uint{bits},{opt}):differs-from-promoted-integer-difference",
                     f"difference of integer images deviates by {float(dev):.3g} from (option of) (probe - baseline) / {2 ** bits - 1} "
                     "(wrap-around or missing promotion)", dict(case, max_dev=float(dev), observed=vals.tolist()))
    ctx.cov["promotion_max_float_error"] = worst


STATED_DTYPES = {"uint8", "uint16", "float32", "float64", "bool"}  # "supported dtype (incl. integer types that must be promoted)"


def route(sig, rep):
    """'fail' (a clause of the statement), 'obs' (outside statement and model) or the name of the correspondence (mark)"""
    dts = set()
    for k in ("dtype", "dtype_at_construction", "dtype_of_update", "baseline_dtype", "probe_dtype"):
        if rep.get(k):
            dts |= set(str(rep[k]).split("/"))
    stated = dts <= STATED_DTYPES
    raises = "raises" in sig
    if raises and (not stated or rep.get("kind") == "Image"):
        return "obs"  # acceptance of further dtypes / of two-channel images is not claimed
    if sig.startswith("C13:update(base):raises") or sig == "C13:update(base):modifies-argument":
        return "update(base=...) of the state machine (AState.update)"
    if "differs-from-promoted-difference" in sig and not stated:
        return "promotion rule of the dtype kind (DKind.rule: signed / wide / half types)"
    if sig.startswith("C13:reduction("):
        return "stock reductions (StageFn gray / negKey / hsv formulas)"
    if (sig.startswith("C13:stage-input(") or sig == "C13:result-is-not-last-stage-output") and rep.get("extras", 0):
        return "cleaning filter formula (clip(x - running max, 0))"
    if "(scribbling=True)" in sig:
        return "probe_unchanged under stages that overwrite their input"
    if sig.startswith("C13:baseline-modified("):
        return "constructor keeps its arguments (callOp frame)"
    if sig.startswith("C13:baseline-not-zero") and (rep.get("caller_modified_baseline_after_construction") or rep.get("caller_modified_image_after_update")):
        return "the analysis holds its own copy of the baseline (AState.init / update)"
    if sig.startswith("C13:result-kind(") or sig.endswith(":result-kind"):
        return "result class rule (resultKind)"
    if sig == "C13:result-metadata(name)":
        return "obs"
    return "fail"


def replay(data):
    """re-execute the stored case on the implementation: the failing case is regenerated deterministically from the stored
    seed and tier (the whole generation stream of that tier is replayed, Lean proofs are skipped), the oracle is evaluated
    again and the observed outcome is printed next to the stored one. Exit code 1 = reproduced, 0 = not reproduced."""
    import shutil

    from ..lib import core

    sig = data.get("signature")
    rep = data.get("replay") or {}
    print(f"property C13 replay")
    print(f"  stored signature: {sig}")
    print(f"  stored finding  : {data.get('what')}")
    if "verif_seed" not in rep:
        print("  no failing input stored (proof / tie / correspondence break):", [m.get("kind") for m in data.get("no_longer_checks", data.get("marks", []))])
        return 0
    print(f"  stored input    : { {k: v for k, v in rep.items() if k not in ('before', 'after')} }")

    class RCtx(core.Ctx):
        def prove(self, *a, **k):  # the Lean side is not part of a replay
            pass

        def write_gen(self, *a, **k):
            return False

        def log(self, *a):
            pass

    ctx = RCtx("C13", rep.get("tier", "quick"), int(rep["verif_seed"]), LEVEL)
    try:
        run(ctx)
    finally:
        shutil.rmtree(ctx._tmp, ignore_errors=True)
    hits = [f for f in ctx.failures if f["signature"] == sig] + [h for h in ctx.known_hits if h["signature"] == sig]
    if hits:
        h = hits[0]
        print("  REPRODUCED on the current implementation:")
        print(f"    observed: {h.get('what')}")
        if "replay" in h:
            print(f"    input   : { {k: v for k, v in h['replay'].items() if k not in ('before', 'after')} }")
            for k in ("before", "after", "observed", "required"):
                if k in h["replay"]:
                    print(f"    {k:8}: {str(h['replay'][k])[:300]}")
        return 1
    others = sorted({f["signature"] for f in ctx.failures})
    print("  not reproduced on the current implementation (the required behaviour holds for the regenerated case)" + (f"; other failures now: {others[:5]}" if others else ""))
    return 0


def run(ctx):
    import darsia as d

    _fail = ctx.fail
    obs, marked = {}, {}

    def fail(sig, what, rep):
        """only clauses of the STATEMENT give failing inputs; clauses that encode the model's conventions give a TIE-BROKEN mark,
        clauses outside statement and model are recorded as observations (route)"""
        rep = dict(rep, verif_seed=ctx.seed, tier=ctx.tier)  # replays are reproducible
        r = route(sig, rep)
        if r == "fail":
            return _fail(sig, what, rep)
        head = sig.split("(")[0] if r == "obs" else sig
        if r == "obs":
            obs[head] = obs.get(head, 0) + 1
            obs.setdefault("example:" + head, f"{sig}: {what}"[:240])
            ctx.cov["observations_outside_the_statement"] = obs
            return None
        marked[sig] = marked.get(sig, 0) + 1
        if marked[sig] <= 3:
            ctx.mark("TIE-BROKEN", {"correspondence": r, "signature": sig, "what": what[:300], "case": repr({k: v for k, v in rep.items() if k not in ("base", "probe")})[:500]})
        return None

    ctx.fail = fail

    co = call(lambda: extract_call_order(d))
    if isinstance(co, Raised):
        ctx.mark("TIE-BROKEN", {"G2": "call order of ConcentrationAnalysis.__call__ not extractable", "error": repr(co.exc)})
        co = {True: dict(order=[], chained=False), False: dict(order=[], chained=False)}
    ctx.write_gen("CallOrder", emit_call_order(co))
    prom = tabulate_promotion(ctx, d)
    ctx.write_gen("Promotion", emit_promotion(prom))
    ctx.cov["generated_tables"] = {"callOrder": {str(k): v for k, v in co.items()}, "promotion": prom}
    ctx.prove("C13")
    correspondence(ctx, d)
    promotion_tie(ctx, d)
    dtype_tie(ctx, d)
    reduction_tie(ctx, d)
    oracle(ctx, d)
    ctx.cov["rule"] = "distinct = request line (correspondence) / (clause, diff option, dtype, kind, shape, #extra baselines, stage configuration)"
    ctx.assumptions += [
        "stage objects are parameters: the theorems hold for arbitrary callables (baseline_zero: callables mapping 0 to 0)",
        "img_as(float) promotion, skimage.util.compare_images, skimage TVD, cv2.cvtColor are outside the model (observed)",
        "np.maximum / np.clip / broadcasting of the cleaning filter as in numpy (tied by the correspondence)",
    ]
