"""C08 - all linear-solve formulations and back-ends solve the same system.

Tie:
  G1  acceptance matrix formulation x back-end tabulated from the running code (construct on a tiny
      grid + one linear_solve) -> DarsiaGen.Dispatch; vocabulary (documented / accepted spellings)
      extracted from the docstring and the constructor's assert with stdlib ast/regex (G2).
  T   DarsiaProps.C08: Schur-complement equivalence, pressure (pinned) equivalence, dispatch theorems
      (decide over the generated table), CSC-surgery theorem on the faithful array model.
  C   correspondences model-vs-implementation: block assembly (exact), reduced / fully reduced
      matrices (exact on dyadic weights), exact rational solution vs every formulation x back-end,
      CSC surgery on every grid shape of the C07 range with position tags as data (exact).
  O   oracle on the public entry `linear_solve(matrix, rhs)`: residual of every returned
      (flux, pressure, multiplier) against the ORIGINAL full system evaluated in exact Fraction
      arithmetic, pairwise agreement, reuse of the cached factorisation, end-to-end distance.
"""
from __future__ import annotations

import ast
import inspect
import itertools
import re
import textwrap
from fractions import Fraction

import numpy as np

from ..lib.core import fmt
from ..lib.impl import Raised, call
from ..lib.leangen import lexcept, llist

LEVEL = "proof"
CLAIM = dict(
    category="proof",
    text="PROVED (Lean, any field, any finite face/cell index sets, abstract divergence D, arbitrary pinned cell): flux_reduced_equiv "
    "(full block system <=> Schur-complement system + flux formula, W diagonal invertible), pressure_equiv (under 1^T D = 0, zero-mean "
    "source, zero last rhs entry: reduced system <=> pinned pure-pressure system with p_k = 0, lambda = 0), full_iff_pinned (the three "
    "formulations have the same solution SET), full_system_unique (ordered field, positive weights, kernel of D^T = constants: at most "
    "one solution, hence THE same flux/pressure/multiplier), with the kernel hypothesis DERIVED for the finite-volume divergence of every "
    "tensor grid with non-zero face areas (cell_graph_connected from C07's connectivity theorems, fv_kerDT_const from C06's div_column, "
    "fv_full_system_unique), full_system_homogeneous. BRIDGE to the executable model the driver runs (every matrix "
    "tabulated from an entry formula over Q; eliminate_flux reads only the diagonal from the matrix handed in and D, D^T, the constant "
    "sub-block from the setup-time cache, as the code does): model_full_is_abstract / model_reduced_is_abstract / model_pinned_rows "
    "identify assembleFull, eliminateFlux, eliminateMultiplier with the abstract operators on Fin nf, Fin nc; model_linearSolve_sound: "
    "for each formulation the vector the model returns solves the assembled full system - UNCONDITIONALLY in the inner solver, because "
    "the model checks its Gauss-Jordan result in exact arithmetic before using it (solveChecked; non-vacuity example by decide +kernel); "
    "1^T D = 0 for the finite-volume divergence of any tensor grid is imported from C06 (model_linearSolve_sound_fv). CSC surgery: "
    "modelled numpy-operation by numpy-operation; csc_surgery_dense / csc_surgery_toDense prove for every well-formed pattern (decidable "
    "patternOk) and arbitrary data that it drops rows/columns {k, last}; cached_pattern_reuse for the data-only refresh. OBSERVED IN "
    "LEAN FORM (decide over a table re-tabulated from the running code on a 2x2 grid on every run, i.e. an exhaustive observation of the "
    "dispatch, not a theorem about the source): documented_formulations_usable, pressure_all_backends, flux_reduced_all_backends_run, "
    "accepted_spellings_handled. TIED BY CORRESPONDENCE: block assembly = darcy_init (exact), reduced / fully reduced matrices (exact on "
    "dyadic weights), the cached-solver state machine (SolverCache: reuse_sound, stale_iff, reuse_after_matrix_change_is_stale, "
    "pressure_cg_never_stale, cache_refines_WObj of C16) against instrumented call sequences on live objects (set-up events, which inner "
    "system each call solves), exact rational model solution vs every usable formulation x back-end incl. matrices whose divergence blocks differ "
    "from the cache, CSC arrays + patternOk on C07-range shapes (all 186 in the thorough tier, 54 in quick). ORACLE ONLY (no model): "
    "Bregman runs with a regularisation schedule, solutions handed out earlier in a reuse sequence stay intact after later solves, "
    "caller-held rhs/matrix "
    "unchanged, same right-hand side kind at magnitudes 2^-40 .. 2^20, end-to-end distances; residuals in exact Fraction arithmetic "
    "against the original full system with an a-posteriori bound.",
    note="KNOWN FINDINGS (reported, exit 0): formulation 'flux_reduced'/'flux-reduced' with linear_solver 'amg'/'cg' does not solve the full "
    "system on grids with >= 100 cells (indefinite non-symmetric saddle system; signature carries the size class, a failure of those pairs "
    "on 2..99 cells is a violation; non-finite / misshaped results have their own signature and are violations), CG divides by zero on the "
    "single-cell grid, AMG's coarse pseudo-inverse mis-solves it end to end for a small Bregman penalty (signature carries penalty regime "
    "and magnitude class rel<=1e-3). Option lumping=False is refused at construction (NotImplementedError, probed on every run); all linear "
    "systems of this check are built by the harness from random weights (cell weight images / lumping do not enter linear_solve). A matrix handed to linear_solve whose off-diagonal blocks differ from the solver's own is silently solved with "
    "the cached blocks (model and code agree; outside C08, which quantifies over systems the solver assembles). petsc4py is not installed: "
    "ksp is tabulated as unavailable. AMG/CG accuracy is a measured quantity (tolerance = configured rtol x ||reduced rhs||).",
    technique="Lean 4 proofs (Finset algebra, list induction; decide over generated tables) + differential correspondence + exact-residual oracle",
)

EPS = float(np.finfo(float).eps)


# ---------------------------------------------------------------------------------------------
# vocabulary (G2) and acceptance matrix (G1)


def vocabulary(d):
    """Documented formulations / solvers (docstring) and spellings accepted by the constructor (ast)."""
    W = d.measure.wasserstein.VariationalWassersteinDistance
    doc = W.__init__.__doc__ or ""
    info = {"source": "docstring+ast"}

    def bullet_names(after):
        i = doc.find(after)
        if i < 0:
            return []
        names = []
        for line in doc[i + len(after):].splitlines()[1:]:
            m = re.match(r'\s*-\s*"([^"]+)"\s*:', line)
            if m:
                names.append(m.group(1))
            elif re.match(r"\s*-\s*\w+\s*\(", line):  # next option entry
                break
        return names

    documented_f = bullet_names("Supported formulations are:")
    documented_s = bullet_names("Supported solvers are:")
    accepted_f, accepted_s, compared_f = [], [], []
    try:
        for fn in (W._setup_linear_solver, W.linear_solve):
            tree = ast.parse(textwrap.dedent(inspect.getsource(fn)))
            for node in ast.walk(tree):
                if isinstance(node, ast.Compare) and isinstance(node.left, ast.Attribute):
                    consts = []
                    for c in node.comparators:
                        if isinstance(c, (ast.List, ast.Tuple, ast.Set)):
                            consts += [e.value for e in c.elts if isinstance(e, ast.Constant) and isinstance(e.value, str)]
                        elif isinstance(c, ast.Constant) and isinstance(c.value, str):
                            consts.append(c.value)
                    if node.left.attr == "formulation":
                        (accepted_f if isinstance(node.ops[0], ast.In) else compared_f).extend(consts)
                    elif node.left.attr == "linear_solver_type" and isinstance(node.ops[0], ast.In):
                        accepted_s.extend(consts)
    except (OSError, TypeError, SyntaxError):
        info["source"] = "defaults (source unavailable)"
    if not documented_f:
        documented_f = ["full", "flux_reduced", "pressure"]
        info["source"] = "defaults (docstring pattern not found)"
    if not documented_s:
        documented_s = ["direct", "amg", "cg", "ksp"]

    def uniq(xs):
        return list(dict.fromkeys(xs))

    forms = uniq(documented_f + accepted_f + compared_f + ["flux_reduced", "flux-reduced"])
    solvers = uniq(documented_s + [s for s in accepted_s if s not in ("amg_flux_reduced", "amg_pressure")])
    return dict(documented_f=uniq(documented_f), documented_s=uniq(documented_s), forms=forms, solvers=solvers,
                accepted_f=uniq(accepted_f), info=info)


def lname(s: str) -> str:
    return re.sub(r"\W", "_", s.replace("-", "_dash_"))


def make_solver(d, shape, form, solver, voxel=None, cls=None, **opts):
    dim = len(shape)
    grid = d.Grid(shape=tuple(int(s) for s in shape), voxel_size=list(voxel) if voxel is not None else [0.5] * dim)
    cls = cls or d.measure.wasserstein.WassersteinDistanceNewton
    options = dict(formulation=form, linear_solver=solver, **opts)
    return cls(grid, None, options)


def full_matrix(w, W, dscale=1.0):
    import scipy.sparse as sps

    D = w.div * dscale
    return sps.bmat(
        [[sps.diags(W, format="csc"), -D.T, None], [D, None, -w.pressure_constraint.T], [None, w.pressure_constraint, None]],
        format="csc",
    )


def tabulate(d, voc):
    """construct[(f,s)], accept[(f,s)] in {'ok', Raised}: constructor; constructor + one linear_solve on a 2x2 grid."""
    construct, accept = {}, {}
    for f in voc["forms"]:
        for s in voc["solvers"]:
            w = call(make_solver, d, (2, 2), f, s)
            if isinstance(w, Raised):
                construct[(f, s)] = accept[(f, s)] = w
                continue
            construct[(f, s)] = "ok"
            nf, nc = int(w.grid.num_faces), int(w.grid.num_cells)
            rhs = np.zeros(nf + nc + 1)
            rhs[nf:-1] = [1.0, -1.0, 0.5, -0.5]
            A = full_matrix(w, np.array([1.0, 2.0, 0.5, 4.0]))
            r = call(w.linear_solve, A.copy(), rhs.copy())
            if isinstance(r, Raised):
                accept[(f, s)] = r
            else:
                try:
                    sol = np.asarray(r[0], dtype=float)
                    good = sol.shape == rhs.shape and np.all(np.isfinite(sol))
                except Exception:  # noqa: BLE001
                    good = False
                accept[(f, s)] = "ok" if good else Raised(ValueError("malformed result"))
    return construct, accept


def emit(voc, construct, accept) -> str:
    L = ["import DarsiaModel.Basic", "namespace Darsia.Gen", "open Darsia", ""]
    L.append("/-- every formulation spelling that is documented, accepted by the constructor's assert or tested by a branch -/")
    L.append("inductive Formulation\n  | " + " | ".join(lname(f) for f in voc["forms"]) + "\n  deriving DecidableEq, Repr\n")
    L.append("inductive Backend\n  | " + " | ".join(lname(s) for s in voc["solvers"]) + "\n  deriving DecidableEq, Repr\n")
    L.append("def Formulation.all : List Formulation := " + llist(voc["forms"], lambda f: "." + lname(f)))
    L.append("def Backend.all : List Backend := " + llist(voc["solvers"], lambda f: "." + lname(f)))
    L.append("/-- formulations named in the class docstring -/")
    L.append("def documentedFormulations : List Formulation := " + llist(voc["documented_f"], lambda f: "." + lname(f)))
    L.append("def documentedBackends : List Backend := " + llist(voc["documented_s"], lambda f: "." + lname(f)))
    L.append("")
    for name, tab, doc in (("construct", construct, "constructing the solver object on a 2x2 grid"),
                           ("accept", accept, "constructing and completing one `linear_solve(matrix, rhs)`")):
        L.append(f"/-- outcome of {doc} (value or exception class), tabulated from the running code -/")
        L.append(f"def {name} : Formulation → Backend → Except Err Unit")
        for (f, s), v in tab.items():
            L.append(f"  | .{lname(f)}, .{lname(s)} => " + lexcept(None if v == "ok" else v, lambda _: "()"))
        L.append("")
    L.append("end Darsia.Gen")
    return "\n".join(L) + "\n"


# ---------------------------------------------------------------------------------------------
# exact residual and tolerances


def exact_residual(A, x, b):
    """A x - b in exact rational arithmetic (entries are the exact values of the floats)."""
    A = A.tocsr()
    xs = [Fraction(float(v)) for v in x]
    out = []
    for i in range(A.shape[0]):
        s = -Fraction(float(b[i]))
        for p in range(A.indptr[i], A.indptr[i + 1]):
            s += Fraction(float(A.data[p])) * xs[A.indices[p]]
        out.append(s)
    return out


def tolerances(w, A, W, rhs, x_ref, solver, rtol=1e-6, atol=0.0):
    """Justified a-posteriori bounds for the residual against the full system.

    direct: LU with partial pivoting is backward stable. In the reduced formulations the flux is recovered as
    u = W^-1 (g + D^T p) and the mass-balance row is evaluated through D W^-1 D^T, so the rounding errors are relative to
      row 1:  |W||u| + |D^T||p| + |g|,    row 2:  |D| W^-1 (|g| + |D^T||p|) + |f| + |lam|,    row 3: |p_k| + |r|
    (for the full formulation |D||u| <= |D| W^-1 (|g| + |D^T||p|), so the same expression bounds |A||x| + |b|).
    Bound: 64 n eps max(those).  No condition number of W enters.
    iterative: the stopping rule of CG / AMG is ||r||_2 <= rtol ||b_red||_2 on the inner system whose residual is exactly
    the mass-balance row of the full system (the flux row holds by construction): 4 rtol ||b_red||_2 + sqrt(n) x direct bound.
    """
    n = A.shape[0]
    nf = len(W)
    x = np.abs(np.asarray(x_ref, dtype=float))
    g, f, r = np.abs(rhs[:nf]), np.abs(rhs[nf:-1]), abs(float(rhs[-1]))
    p, lam = x[nf:-1], float(x[-1])
    aD = abs(w.div)
    if nf:
        dtp = aD.T @ p
        row1 = float((np.abs(W) * x[:nf] + dtp + g).max())
        row2 = float((aD @ ((g + dtp) / np.abs(W)) + f).max()) + lam
    else:
        row1, row2 = 0.0, float(f.max() if f.size else 0.0) + lam
    k = int(w.constrained_cell_flat_index)
    row3 = (float(p[k]) if p.size else 0.0) + r
    direct = 64 * n * EPS * max(row1, row2, row3, 1e-300)
    if solver == "direct":
        return direct
    bred = rhs[nf:-1] - (w.div @ (rhs[:nf] / W) if nf else 0.0)
    # "up to solver tolerance": a configured ABSOLUTE tolerance may be honoured as such (the option of the AMG back-end is
    # literally called atol), so a right-hand side below it may legitimately be answered with a cruder solution
    return 4 * max(rtol * float(np.linalg.norm(bred)), atol) + float(np.sqrt(n)) * direct


# ---------------------------------------------------------------------------------------------
# shapes


def c07_shapes():
    s1 = [(n,) for n in range(1, 13)]
    s2 = [(a, b) for a in range(1, 8) for b in range(1, 8)]
    s3 = [(a, b, c) for a in range(1, 6) for b in range(1, 6) for c in range(1, 6)]
    return s1 + s2 + s3


def protocol_system(w, W, rhs=None):
    nf, nc = int(w.grid.num_faces), int(w.grid.num_cells)
    D = w.div.tocoo()
    trip = " ".join(f"{int(c)} {int(e)} {fmt(v)}" for c, e, v in zip(D.row, D.col, D.data))
    s = f"{nf} {nc} {int(w.constrained_cell_flat_index)} " + " ".join(fmt(v) for v in W) + f" {D.nnz} {trip}"
    if rhs is not None:
        s += " " + " ".join(fmt(v) for v in rhs)
    return " ".join(s.split())


def show_sparse(A):
    A = A.tocsr()
    A.sum_duplicates()
    A.sort_indices()
    items = []
    for i in range(A.shape[0]):
        for p in range(A.indptr[i], A.indptr[i + 1]):
            if A.data[p] != 0:
                items.append(f"{i} {int(A.indices[p])} {fmt(A.data[p])}")
    return f"{A.shape[0]} {len(items)} " + " ".join(items)


def dyadic_weights(rng, n):
    """powers of two over three decades (2^-5 .. 2^5): every float operation of the elimination is exact"""
    return np.array([2.0 ** rng.randint(-5, 5) for _ in range(n)])


def random_weights(rng, n):
    return np.array([10.0 ** rng.uniform(-1.5, 1.5) for _ in range(n)])


def random_rhs(rng, nf, nc, dyadic=False):
    if dyadic:
        g = np.array([rng.randint(-8, 8) / 4.0 for _ in range(nf)])
        f = np.array([float(rng.randint(-8, 8)) for _ in range(nc)])
        f = f * nc - f.sum()  # exact zero mean, integers
    else:
        g = np.array([rng.gauss(0, 1) for _ in range(nf)])
        f = np.array([rng.gauss(0, 1) for _ in range(nc)])
        f = f - f.mean()
        if nc:
            f[-1] -= f.sum()  # push the float sum to (almost) exactly zero
    return np.concatenate([g, f, [0.0]])


# ---------------------------------------------------------------------------------------------
# correspondences


def surgery_correspondence(ctx, d, shapes):
    lines, impl, meta = [], [], []
    for shape in shapes:
        w = call(make_solver, d, shape, "pressure", "direct")
        if isinstance(w, Raised):
            ctx.fail(f"C08:constructor(pressure,direct,shape={'x'.join(map(str, shape))}):{w.cls}",
                     f"constructing the pressure formulation on grid {shape} raises {w!r}", {"kind": "construct", "shape": list(shape)})
            continue
        try:
            red = w.reduced_jacobian
            k = int(w.constrained_cell_flat_index)
            fr = w.fully_reduced_jacobian
            rm = np.asarray(w.rm_indices)
            red_indices, red_indptr = np.asarray(red.indices), np.asarray(red.indptr)
            fr_indices, fr_indptr = np.asarray(fr.indices), np.asarray(fr.indptr)
        except AttributeError:
            ctx.notes.append("CSC surgery internals no longer exist; sub-check retired (public tie remains)")
            return
        tags = np.arange(1, red.nnz + 1)
        lines.append(f"surgery {k} {red.nnz} " + " ".join(map(str, tags)) + f" {red.nnz} " + " ".join(map(str, red_indices))
                     + f" {len(red_indptr)} " + " ".join(map(str, red_indptr)))
        kept = np.delete(tags, rm)
        impl.append(f"1 1 | {len(kept)} " + " ".join(map(str, kept)) + f" | {len(fr_indices)} " + " ".join(map(str, fr_indices))
                    + f" | {len(fr_indptr)} " + " ".join(map(str, fr_indptr)))
        lines[-1] = " ".join(lines[-1].split())
        impl[-1] = " ".join(impl[-1].split())
        meta.append(shape)
        # implementation-side oracle (independent of Lean): represented matrix == dense matrix with rows/cols {k,last} dropped
        import scipy.sparse as sps

        tagged = sps.csc_matrix((tags.astype(float), red_indices, red_indptr), shape=red.shape).toarray()
        ref = np.delete(np.delete(tagged, [k, red.shape[0] - 1], axis=0), [k, red.shape[1] - 1], axis=1)
        got = sps.csc_matrix((kept.astype(float), fr_indices, fr_indptr), shape=fr.shape).toarray()
        if got.shape != ref.shape or not np.array_equal(got, ref):
            # private attributes (reduced_jacobian, rm_indices, fully_reduced_jacobian): the CSC model's tie; whether linear_solve
            # is right on this shape is judged by the residual oracle
            ctx.mark("TIE-BROKEN", {"correspondence": "fully_reduced_jacobian = reduced jacobian with row/column {k, last} dropped (csc surgery)",
                                    "shape": list(shape)})
    diffs = ctx.correspond("csc-surgery(position tags)", lines, impl)
    ctx.cov["csc_surgery_shapes"] = len(meta)
    return [meta[i] for i in diffs]


def assembly_correspondence(ctx, d, shapes):
    """model block assembly == the code's own sps.bmat (darcy_init), exactly; reduced matrices on dyadic weights."""
    lines, impl = [], []
    for shape in shapes:
        dim = len(shape)
        voxel = [2.0 ** ctx.rng.randint(-2, 1) for _ in range(dim)]
        w = call(make_solver, d, shape, "pressure", "direct", voxel)
        if isinstance(w, Raised):
            continue
        nf, nc = int(w.grid.num_faces), int(w.grid.num_cells)
        # (i) darcy_init: W = L_init * face_weights * lumped face mass (weights None -> 1)
        W0 = np.asarray(w.weighted_mass_matrix_faces_init.diagonal(), dtype=float) if nf else np.zeros(0)
        lines.append("assemble " + protocol_system(w, W0))
        impl.append(show_sparse(w.darcy_init))
        # (ii) elimination on dyadic weights: exact
        W = dyadic_weights(ctx.rng, nf)
        rhs = random_rhs(ctx.rng, nf, nc, dyadic=True)
        A = full_matrix(w, W)
        r = call(w.linear_solve, A.copy(), rhs.copy())
        if isinstance(r, Raised):
            continue  # reported by the oracle
        try:
            red, rr, fr, frr = w.reduced_matrix, w.reduced_rhs, w.fully_reduced_matrix, w.fully_reduced_rhs
        except AttributeError:
            continue
        lines.append("reduce " + protocol_system(w, W, rhs))
        impl.append(f"{show_sparse(red)} | {' '.join(fmt(v) for v in rr)} | {show_sparse(fr)} | {' '.join(fmt(v) for v in frr)}")
    lines = [" ".join(l.split()) for l in lines]
    impl = [" ".join(l.split()) for l in impl]
    ctx.correspond("block-assembly-and-elimination(dyadic, exact)", lines, impl)


def parse_rats(s):
    return [Fraction(t) for t in s.split()]


def solve_correspondence(ctx, d, usable, shapes, ntrials):
    """exact rational model solution vs every usable formulation x back-end, within the stated tolerance."""
    forms_model = {"full": "full", "flux_reduced": "flux_reduced", "flux-reduced": "flux_reduced", "pressure": "pressure"}
    cases, lines = [], []
    for shape in shapes:
        for t in range(ntrials):
            w0 = call(make_solver, d, shape, "pressure", "direct")
            if isinstance(w0, Raised):
                continue
            nf, nc = int(w0.grid.num_faces), int(w0.grid.num_cells)
            kind = ("exact", "foreign", "lastrhs", "prev", "ok")[t % 5]
            # trial 0: dyadic weights and an exactly zero-mean integer source, so that the side conditions of
            # pressure_equiv hold exactly and the three model formulations must agree as rationals
            W = dyadic_weights(ctx.rng, nf) if kind == "exact" else random_weights(ctx.rng, nf)
            rhs = random_rhs(ctx.rng, nf, nc, dyadic=(kind == "exact"))
            prev = None
            if kind == "lastrhs":
                rhs[-1] = 0.5
            if kind == "prev":
                prev = np.zeros_like(rhs)
                prev[nf + int(w0.constrained_cell_flat_index)] = 0.25
            # "foreign": the matrix handed to linear_solve has its divergence blocks doubled. The reduced formulations take D,
            # D^T and the constant sub-block from the setup-time cache and only the diagonal from the argument; the model does
            # the same, so model and implementation must still agree (that they then solve a different system than the one
            # handed in is outside C08, which quantifies over the systems the solver assembles itself)
            dscale = 2 if kind == "foreign" else 1
            for f in ("full", "flux_reduced", "pressure"):
                lines.append(" ".join((f"solve {f} {fmt(0.25) if prev is not None else 'none'} {dscale} " + protocol_system(w0, W, rhs)).split()))
                cases.append((shape, f, W, rhs, prev, kind))
    got = ctx.model(lines)
    n_bad = 0
    worst = 0.0
    for (shape, f, W, rhs, prev, kind), line, resp in zip(cases, lines, got):
        ctx.count(("solve", line), nontrivial=len(W) > 0)
        model = resp.strip()
        exact = None if model.startswith("!") else np.array([float(v) for v in parse_rats(model)])
        for (fi, si), ok in usable.items():
            if forms_model.get(fi) != f or not ok:
                continue
            w = call(make_solver, d, shape, fi, si)
            if isinstance(w, Raised):
                continue
            A = full_matrix(w, W, 2.0 if kind == "foreign" else 1.0)
            r = call(w.linear_solve, A.copy(), rhs.copy(), None if prev is None else prev.copy())
            if isinstance(r, Raised) or exact is None:
                same = isinstance(r, Raised) and exact is None and repr(r) == model
                # the full formulation has no side conditions: model solves, implementation solves
                if not same:
                    n_bad += 1
                    ctx.mark("CORR-BROKEN", {"correspondence": "linear_solve vs exact model", "request": line[:400],
                                             "model": model[:200], "impl": repr(r)[:200], "pair": [fi, si]})
                continue
            x = np.asarray(r[0], dtype=float)
            # error bound: residual tolerance amplified by the conditioning of the full matrix
            cond = float(np.linalg.cond(A.toarray())) if A.shape[0] <= 400 else 1e6
            tol = tolerances(w, A, W, rhs, exact, si) * cond / max(float(abs(A).max()), 1e-300) + 64 * EPS * cond * float(np.abs(exact).max() + 1e-300)
            err = float(np.abs(x - exact).max()) if x.shape == exact.shape else float("inf")
            worst = max(worst, err / tol if tol > 0 else 0.0)
            if not err <= tol:
                # first ask the property itself: does the returned vector solve the original full system?
                finite = x.shape == rhs.shape and bool(np.all(np.isfinite(x)))
                rtol_res = tolerances(w, A, W, rhs, exact, si)
                res_ok = finite and float(sum(v * v for v in exact_residual(A, x, rhs))) ** 0.5 <= rtol_res
                if not res_ok and kind != "foreign":
                    ctx.fail(f"C08:linear_solve:formulation={fi}:linear_solver={si}:residual-vs-full-system:{size_class(shape)}",
                             f"solution returned by linear_solve[{fi},{si}] does not satisfy the original full system (differs from the exact "
                             f"rational solution by {err:.3e} > {tol:.3e}) on grid {shape}",
                             {"kind": "system", "shape": list(shape), "pair": [fi, si], "seed": ctx.seed})
                    continue
                n_bad += 1
                ctx.mark("CORR-BROKEN", {"correspondence": "linear_solve vs exact model", "request": line[:400], "pair": [fi, si],
                                         "err": err, "tol": tol, "kind": kind})
    c = ctx.cov.setdefault("correspondence", {})
    c["linear_solve vs exact rational model"] = {"cases": len(lines), "disagreements": n_bad, "max err/tol": worst}
    # the three model formulations agree exactly with each other whenever the side conditions hold
    byreq = {}
    for (shape, f, W, rhs, prev, kind), line, resp in zip(cases, lines, got):
        byreq.setdefault(line.split(" ", 2)[2], {})[f] = (resp.strip(), kind)
    for req, dct in byreq.items():
        kinds = {k for _, k in dct.values()}
        vals = {v for v, _ in dct.values()}
        if kinds == {"exact"} and len(vals) != 1:
            ctx.mark("CORR-BROKEN", {"correspondence": "model formulations disagree exactly", "request": req[:300]})


# ---------------------------------------------------------------------------------------------
# oracle on the public entry


def sig_shape(shape):
    return "x".join(map(str, shape))


def size_class(shape):
    """grid-size class of a signature: AMG really coarsens from 100 unknowns on; a single cell has no face"""
    n = int(np.prod(shape))
    return "cells=1" if n == 1 else ("cells<100" if n < 100 else "cells>=100")


def one_system(ctx, d, usable, shape, seed_tag, tight=False, only=None, data=None):
    """Solve one random system through every usable pair; returns (list of failure dicts, data).

    ONE matrix object and ONE rhs array per system are handed to all formulation x back-end pairs in turn (no copies):
    they are snapshotted before and must be unchanged after every call; residuals are evaluated against the snapshot,
    i.e. against the system as the caller holds it."""
    w0 = call(make_solver, d, shape, "pressure", "direct")
    if isinstance(w0, Raised):
        return [dict(sig=f"C08:constructor(pressure,direct,shape={sig_shape(shape)}):{w0.cls}", what=f"constructor raises {w0!r}",
                     pair=["pressure", "direct"])], None
    nf, nc = int(w0.grid.num_faces), int(w0.grid.num_cells)
    if data is None:
        W = random_weights(ctx.rng, nf)
        systems = [random_rhs(ctx.rng, nf, nc) for _ in range(3)]
        # the system is homogeneous (full_system_homogeneous): the same kind of right-hand side at physically small and
        # large magnitudes (powers of two: exact scaling) must be solved to the same RELATIVE accuracy
        systems[1] = systems[1] * 2.0 ** -40
        systems[2] = systems[2] * 2.0 ** 20
        W2 = random_weights(ctx.rng, nf)
        data = (W, systems, W2)
    W, systems, W2 = data
    A1, A2 = full_matrix(w0, W), full_matrix(w0, W2)
    # three successive systems with the same matrix: the cached factorisation / preconditioner is reused;
    # then a new matrix without reuse (a stale cache would solve the old system)
    seq = [(A1, systems[0], False, W), (A1, systems[1], True, W), (A1, systems[2], True, W), (A2, systems[0], False, W2)]
    snap_rhs = [r.copy() for r in systems]
    snap_mat = {id(A1): (A1.data.copy(), A1.indices.copy(), A1.indptr.copy()), id(A2): (A2.data.copy(), A2.indices.copy(), A2.indptr.copy())}
    conds = {}
    out = []
    ref = {}
    for (f, s), ok in usable.items():
        if not ok or (only is not None and (f, s) not in only):
            continue
        handed_out = []  # (step, the returned array itself, its value right after the call)
        opts = {}
        rtol = 1e-6
        if tight and s in ("amg", "cg"):
            rtol = 1e-11
            opts["linear_solver_options"] = {"rtol": rtol, "atol": rtol if s == "amg" else 0.0, "maxiter": 400}
        w = call(make_solver, d, shape, f, s, **opts)
        if isinstance(w, Raised):
            out.append(dict(sig=f"C08:constructor({f},{s},shape={sig_shape(shape)}):{w.cls}", what=f"constructor raises {w!r}", pair=[f, s]))
            continue
        for step, (M, rhs, reuse, Wm) in enumerate(seq):
            isys = step if step < 3 else 0
            np.random.seed(4321 + step)  # pyamg draws from the process-global generator: seeded before each compared call
            r = call(w.linear_solve, M, rhs, None, reuse)
            tag = f"{f},{s}"
            b0 = snap_rhs[isys]
            # "caller's arrays untouched" is no clause of C08 by itself. What IS stated: the solution satisfies the original full
            # system - also when the caller hands the same arrays to linear_solve again (public API). A modified array is
            # therefore passed again, and the stated residual clause is evaluated against the system as it was assembled
            m0 = snap_mat[id(M)]
            rhs_changed = not np.array_equal(rhs, b0)
            mat_changed = not (np.array_equal(M.data, m0[0]) and np.array_equal(M.indices, m0[1]) and np.array_equal(M.indptr, m0[2]))
            if rhs_changed or mat_changed:
                import scipy.sparse as sps_

                what_ = "right-hand side" if rhs_changed else "matrix"
                M_orig = sps_.csc_matrix((m0[0].copy(), m0[1].copy(), m0[2].copy()), shape=M.shape)
                changed_by = float(np.abs(rhs - b0).max()) if rhs_changed else float("nan")
                again = call(w.linear_solve, M, rhs, None, False)
                bad = isinstance(again, Raised) or not isinstance(again[0], np.ndarray) or again[0].shape != b0.shape or not np.all(np.isfinite(again[0]))
                if not bad:
                    xa_ = np.asarray(again[0], dtype=float)
                    res_ = exact_residual(M_orig, xa_, b0)
                    ra_ = float(max(abs(v) for v in res_)) if s == "direct" else float(sum(v * v for v in res_)) ** 0.5
                    tol_ = tolerances(w, M_orig, Wm, b0, xa_, s, rtol, atol=(rtol if s == "amg" else 0.0))
                    bad = not ra_ <= tol_
                if bad:
                    out.append(dict(sig=f"C08:linear_solve:formulation={f}:linear_solver={s}:residual-vs-full-system:same-arrays-passed-again",
                                    what=f"linear_solve[{tag}] overwrote the caller's {what_} (by up to {changed_by:.3e}); handed the same arrays "
                                         f"again, it returns a vector that does not satisfy the full system the caller assembled (grid {shape}, step {step})",
                                    pair=[f, s], step=step))
                else:
                    ctx.cov["caller_arrays_modified_without_effect"] = ctx.cov.get("caller_arrays_modified_without_effect", 0) + 1
                rhs[:] = b0
                M.data, M.indices, M.indptr = m0[0].copy(), m0[1].copy(), m0[2].copy()
            if isinstance(r, Raised):
                out.append(dict(sig=f"C08:linear_solve({tag}):{r.cls}", what=f"linear_solve raises {r!r} (shape {shape}, step {step})",
                                pair=[f, s], step=step))
                break
            x = np.asarray(r[0], dtype=float)
            if isinstance(r[0], np.ndarray):
                handed_out.append((step, r[0], np.array(r[0], copy=True), M, b0, Wm))
            if x.shape != b0.shape or not np.all(np.isfinite(x)):
                out.append(dict(sig=f"C08:linear_solve:formulation={f}:linear_solver={s}:non-finite-or-misshaped:{size_class(shape)}",
                                what=f"solution returned by linear_solve[{tag}] has the wrong shape or non-finite entries on grid {shape}, step {step}",
                                pair=[f, s], step=step))
                break
            res = exact_residual(M, x, b0)
            rinf = float(max(abs(v) for v in res))
            r2 = float(sum(v * v for v in res)) ** 0.5
            tol = tolerances(w, M, Wm, b0, x, s, rtol, atol=(rtol if s == "amg" else 0.0))
            if (r2 if s != "direct" else rinf) <= tol:
                ctx.cov["max_residual_over_tol"][s] = max(ctx.cov["max_residual_over_tol"].get(s, 0.0), (r2 if s != "direct" else rinf) / tol)
            if not (r2 if s != "direct" else rinf) <= tol:
                out.append(dict(sig=f"C08:linear_solve:formulation={f}:linear_solver={s}:residual-vs-full-system:{size_class(shape)}",
                                what=f"solution returned by linear_solve[{tag}] does not satisfy the original full system: "
                                     f"|A x - b| = {rinf:.3e} (2-norm {r2:.3e}) > tol {tol:.3e} on grid {shape}, step {step}, reuse_solver={reuse}",
                                pair=[f, s], step=step, residual=rinf, tol=tol))
                continue
            key = step
            if key not in ref:
                ref[key] = (x, (f, s))
            else:
                x0, p0 = ref[key]
                if id(M) not in conds:
                    conds[id(M)] = float(np.linalg.cond(M.toarray())) if M.shape[0] <= 450 else 1e6
                cond = conds[id(M)]
                ptol = (tol + tolerances(w, M, Wm, b0, x0, p0[1], rtol)) * cond / max(float(abs(M).max()), 1e-300) * 4
                diff = float(np.abs(x - x0).max())
                ctx.cov["max_pair_diff_over_tol"] = max(ctx.cov["max_pair_diff_over_tol"], diff / ptol)
                if not diff <= ptol:
                    out.append(dict(sig=f"C08:linear_solve:formulation={f}:linear_solver={s}:differs-from:{p0[0]},{p0[1]}",
                                    what=f"solutions of the same system differ by {diff:.3e} > {ptol:.3e} between [{tag}] and {p0} on grid {shape}",
                                    pair=[f, s], step=step))
        # solutions handed out earlier in the sequence must still be what they were after the later solves (a solve that
        # recycles its result buffer silently replaces the solutions of earlier systems the caller still holds)
        # ownership of the result buffer is no clause of C08 (shared memory alone: observation). Stated: the returned solution
        # satisfies its system - evaluated on the array the caller still holds after the later solves of the sequence
        for i, (st_i, arr_i, val_i, M_i, b_i, W_i) in enumerate(handed_out):
            later = [h[1] for h in handed_out[i + 1:]]
            if any(np.shares_memory(arr_i, a) for a in later):
                ctx.cov["result_buffers_shared_between_calls"] = ctx.cov.get("result_buffers_shared_between_calls", 0) + 1
            if not np.array_equal(arr_i, val_i, equal_nan=True):
                xi_ = np.asarray(arr_i, dtype=float)
                ok_ = xi_.shape == b_i.shape and bool(np.all(np.isfinite(xi_)))
                if ok_:
                    res_ = exact_residual(M_i, xi_, b_i)
                    ri_ = float(max(abs(v) for v in res_)) if s == "direct" else float(sum(v * v for v in res_)) ** 0.5
                    ok_ = ri_ <= tolerances(w, M_i, W_i, b_i, xi_, s, rtol, atol=(rtol if s == "amg" else 0.0))
                if not ok_:
                    out.append(dict(sig=f"C08:linear_solve:formulation={f}:linear_solver={s}:returned-solution-overwritten-by-later-solve",
                                    what=f"the solution linear_solve[{f},{s}] returned for system {st_i} of a sequence on one object (reuse_solver after the "
                                         f"first call) no longer satisfies that system after the later solves: the array the caller holds changed by up to "
                                         f"{float(np.nanmax(np.abs(arr_i - val_i))):.3e}, grid {shape}",
                                    pair=[f, s], step=st_i))
                    break
    return out, data


def distance_oracle(ctx, d, usable, shape):
    """end-to-end: the computed distance does not depend on formulation / back-end (tight inner tolerances)."""
    dim = len(shape)
    m1 = np.zeros(shape)
    m2 = np.zeros(shape)
    idx = list(np.ndindex(*shape))
    a, b = idx[0], idx[-1]
    m1[a] = 1.0
    m2[b] = 1.0
    vals = {}
    for (f, s), ok in usable.items():
        if not ok:
            continue
        opts = dict(num_iter=ctx.pick(15, 30), L=1e-2, return_status=True, regularization=1e-10)
        if s in ("amg", "cg"):
            opts["linear_solver_options"] = {"rtol": 1e-12, "atol": 1e-12 if s == "amg" else 0.0, "maxiter": 2000}
        w = call(make_solver, d, shape, f, s, **opts)
        if isinstance(w, Raised):
            continue
        dims = [0.5 * n for n in shape]
        i1 = d.Image(m1, space_dim=dim, dimensions=dims, scalar=True)
        i2 = d.Image(m2, space_dim=dim, dimensions=dims, scalar=True)
        r = call(w, i1, i2)
        if isinstance(r, Raised):
            ctx.fail(f"C08:distance({f},{s}):{r.cls}", f"end-to-end distance with formulation={f}, linear_solver={s} raises {r!r} on grid {shape}",
                     {"kind": "distance", "shape": list(shape), "pair": [f, s]})
            continue
        vals[(f, s)] = float(r[0])
    if vals:
        ref = vals.get(("full", "direct"), next(iter(vals.values())))
        for p, v in vals.items():
            ctx.count(("distance", shape, p))
            # Newton with a fixed number of iterations is a continuous map of the inner solutions; inner solves are
            # accurate to 1e-11 relative, the iteration count is fixed: 1e-6 relative leaves five orders of margin
            if not abs(v - ref) <= 1e-6 * max(abs(ref), 1e-12):
                ctx.fail(f"C08:distance({p[0]},{p[1]})!=reference", f"distance {v!r} with {p} differs from {ref!r} on grid {shape}",
                         {"kind": "distance", "shape": list(shape), "pair": list(p), "value": v, "reference": ref})
        ctx.cov.setdefault("distance_spread", []).append(max(vals.values()) - min(vals.values()))


def schedule_oracle(ctx, d, usable, shape, L, every, num_iter, scale=1.0):
    """End-to-end Bregman runs whose `bregman_update` fires at iterations > 0 (the regularisation, hence the matrix, changes
    in the middle of the run; tolerances 0 so that the run gets there): every solution returned by the inner `linear_solve`
    must solve the (matrix, rhs) it was handed, and the distance must not depend on formulation / back-end."""
    dim = len(shape)
    rng_np = np.random.default_rng(ctx.rng.randint(0, 10 ** 6))
    m1 = rng_np.uniform(0.2, 1.0, size=shape)
    m2 = rng_np.uniform(0.2, 1.0, size=shape)
    m2 *= m1.sum() / m2.sum()
    m1, m2 = m1 * scale, m2 * scale  # physically small masses: the distance is homogeneous of degree one in the masses
    dims = [0.5 * n for n in shape]
    vals = {}
    rp0 = {"kind": "schedule", "shape": list(shape), "L": L, "every": every, "num_iter": num_iter, "scale": scale}
    for (f, s), ok in usable.items():
        if not ok:
            continue
        if s == "amg" and scale != 1.0:
            continue  # AMG's configured tolerance is absolute (`atol`): honouring it on scaled-down masses is within "solver tolerance"
        rtol = 1e-11
        # the penalty L and the regularisation are absolute flux scales: scaled with the masses the whole run is homogeneous
        opts = dict(num_iter=num_iter, L=L * scale, regularization=float(np.finfo(float).eps) * scale, return_info=True,
                    tol_residual=0.0, tol_increment=0.0, tol_distance=0.0,
                    bregman_update=(lambda it: it % every == every - 1))
        if s in ("amg", "cg"):
            opts["linear_solver_options"] = {"rtol": rtol, "atol": rtol if s == "amg" else 0.0, "maxiter": 1000}
        w = call(make_solver, d, shape, f, s, cls=d.measure.wasserstein.WassersteinDistanceBregman, **opts)
        if isinstance(w, Raised):
            continue
        nf = int(w.grid.num_faces)
        worst = {"ratio": 0.0, "what": None}
        inner = w.linear_solve

        def checked(matrix, rhs, *a, _inner=inner, _w=w, _s=s, _worst=worst, **k):
            A0 = matrix.copy()
            b0 = np.array(rhs, dtype=float, copy=True)
            sol, stats = _inner(matrix, rhs, *a, **k)
            x = np.asarray(sol, dtype=float)
            Wd = np.asarray(A0.diagonal()[:nf], dtype=float)
            res = float(np.linalg.norm(A0 @ x - b0)) if np.all(np.isfinite(x)) else float("inf")
            bred = b0[nf:-1] - (_w.div @ (b0[:nf] / Wd) if nf else 0.0)
            # iterative back-ends: configured rtol 1e-11; anything above 1e-6 ||b_red|| is not an accuracy matter
            tol = tolerances(_w, A0, Wd, b0, x, _s, rtol) + (1e-6 * float(np.linalg.norm(bred)) if _s != "direct" else 0.0)
            tol *= float(np.sqrt(A0.shape[0])) if _s == "direct" else 1.0
            ratio = res / tol if tol > 0 else 0.0
            if ratio > _worst["ratio"]:
                _worst["ratio"] = ratio
                _worst["what"] = (res, tol, float(np.linalg.norm(b0)), bool(k.get("reuse_solver", False)))
            return sol, stats

        w.linear_solve = checked
        i1 = d.Image(m1, space_dim=dim, dimensions=dims, scalar=True)
        i2 = d.Image(m2, space_dim=dim, dimensions=dims, scalar=True)
        np.random.seed(4321)
        r = call(w, i1, i2)
        ctx.count(("schedule", shape, L, every, f, s))
        rp = dict(rp0, pair=[f, s])
        if isinstance(r, Raised):
            ctx.fail(f"C08:bregman(update-schedule):formulation={f}:linear_solver={s}:{r.cls}",
                     f"Bregman run with a regularisation update at iterations > 0 raises {r!r} on grid {shape}", rp)
            continue
        ctx.cov["max_inner_residual_over_tol"] = max(ctx.cov.get("max_inner_residual_over_tol", 0.0), worst["ratio"])
        if worst["ratio"] > 1.0:
            res, tol, nb, reuse = worst["what"]
            ctx.fail(f"C08:linear_solve:formulation={f}:linear_solver={s}:residual-vs-handed-system:in-bregman-run",
                     f"inside a Bregman run (L={L}, bregman_update every {every} iterations) linear_solve[{f},{s}] returned a vector with "
                     f"|A x - b|_2 = {res:.3e} > {tol:.3e} (|b| = {nb:.3e}, reuse_solver={reuse}) for the matrix and rhs it was handed, grid {shape}", rp)
        info = r[1]
        if len(info.get("convergence_history", {}).get("distance", [])) < num_iter and not np.isnan(r[0]):
            ctx.notes.append(f"schedule run {f},{s} on {shape} stopped early")
        vals[(f, s)] = float(r[0])
    if vals:
        ref = vals.get(("full", "direct"), next(iter(vals.values())))
        for pr, v in vals.items():
            # direct pairs differ by rounding only; iterative pairs solve to 1e-11: 1e-6 / 1e-5 relative leave orders of margin
            lim = (1e-5 if pr[1] in ("amg", "cg") else 1e-6) * max(abs(ref), 1e-12)
            if not abs(v - ref) <= lim:
                # class of the discrepancy: penalty regime (L x mass scale) and relative magnitude
                relv = abs(v - ref) / max(abs(ref), 1e-300)
                cls = ("small-penalty" if L * scale < 1e-6 else "regular-penalty") + (":rel<=1e-3" if relv <= 1e-3 else ":rel>1e-3")
                ctx.fail(f"C08:distance(bregman,update-schedule):formulation={pr[0]}:linear_solver={pr[1]}:differs-from-full-direct:{cls}",
                         f"Bregman distance {v!r} with {pr} differs from {ref!r} (full/direct) on grid {shape} (L={L}, update every {every})",
                         dict(rp0, pair=list(pr), value=v, reference=ref))
        ctx.cov.setdefault("schedule_distance_spread", []).append(max(vals.values()) - min(vals.values()))


def sps_diags(v):
    import scipy.sparse as sps

    return sps.diags(v)


def cache_correspondence(ctx, d, usable):
    """instrumented call sequences on ONE live solver object per formulation x back-end: three different matrices, random
    reuse flags. Observed per call: whether a `setup_*_solver` ran (wrapped attribute) and WHICH of the three matrices the
    returned vector solves the system of (smallest exact... float residual against each candidate); compared with
    `DarsiaModel.SolverCache.run` (state machine of the cached solver)."""
    model_form = {"full": "full", "flux_reduced": "flux_reduced", "flux-reduced": "flux_reduced", "pressure": "pressure"}
    lines, impl = [], []
    shape = (3, 4)
    for (f, s_), ok in usable.items():
        if not ok:
            continue
        for trial in range(ctx.pick(2, 6)):
            opts = {}
            if s_ in ("amg", "cg"):
                opts["linear_solver_options"] = {"rtol": 1e-11, "atol": 1e-11 if s_ == "amg" else 0.0, "maxiter": 1000}
            w = call(make_solver, d, shape, f, s_, **opts)
            if isinstance(w, Raised):
                continue
            nf, nc = int(w.grid.num_faces), int(w.grid.num_cells)
            Ws = [random_weights(ctx.rng, nf) for _ in range(3)]
            mats = [full_matrix(w, W) for W in Ws]
            n_setup = [0]
            attr = {"direct": "setup_direct_solver", "amg": "setup_amg_solver", "cg": "setup_cg_solver"}[s_]
            inner = getattr(w, attr)

            def counted(*a, _inner=inner, **k):
                n_setup[0] += 1
                return _inner(*a, **k)

            setattr(w, attr, counted)
            seq = [(0, False)] + [(ctx.rng.randrange(3), ctx.rng.random() < 0.6) for _ in range(ctx.pick(4, 7))]
            obs = []
            for mi, reuse in seq:
                rhs = random_rhs(ctx.rng, nf, nc)
                before = n_setup[0]
                r = call(w.linear_solve, mats[mi], rhs, None, reuse)
                if isinstance(r, Raised):
                    obs.append(repr(r))
                    break
                x = np.asarray(r[0], dtype=float)
                # the INNER system of the formulation (what the cached solver is applied to): full matrix / Schur system in
                # (p, lam) / pinned Schur system; its right-hand side always belongs to the current call
                k = int(w.constrained_cell_flat_index)
                g, fsrc = rhs[:nf], rhs[nf:-1]
                Dm = w.div
                rr = fsrc - Dm @ (g / Ws[mi])
                res = []
                for Wj, M in zip(Ws, mats):
                    if not np.all(np.isfinite(x)):
                        res.append(float("inf"))
                    elif model_form[f] == "full":
                        res.append(float(np.linalg.norm(M @ x - rhs)))
                    else:
                        S = (Dm @ sps_diags(1.0 / Wj) @ Dm.T).toarray()
                        p_, lam = x[nf:-1], x[-1]
                        if model_form[f] == "flux_reduced":
                            r1 = S @ p_ - rr
                            r1[k] -= lam
                            res.append(float(np.linalg.norm(np.concatenate([r1, [p_[k] - rhs[-1]]]))))
                        else:
                            keep = [c for c in range(nc) if c != k]
                            res.append(float(np.linalg.norm(S[np.ix_(keep, keep)] @ p_[keep] - rr[keep])))
                best = int(np.argmin(res))
                good = res[best] <= 1e-6 * max(float(np.linalg.norm(rhs)), 1e-300)
                # equal candidates are told apart by construction (random weights): the runner-up must be far worse
                others = [v for i, v in enumerate(res) if i != best]
                if not good or min(others) <= 1e3 * max(res[best], 1e-300):
                    obs.append(f"? {int(n_setup[0] > before)}")
                else:
                    obs.append(f"{best + 1} {int(n_setup[0] > before)}")
            lines.append(f"cache {model_form[f]} {s_} {len(seq)} " + " ".join(f"{mi + 1} {int(reuse)}" for mi, reuse in seq))
            impl.append(" ; ".join(obs))
    got = ctx.model(lines)
    # the model also reports the matrix of the preconditioner (not observable from outside): compare used + setup only
    trimmed = [" ; ".join(" ".join(part.split()[:2]) for part in g.split(";")) if not g.startswith("!") else g for g in got]
    diffs = [i for i, (a, b) in enumerate(zip(trimmed, impl)) if a.strip() != b.strip()]
    for l in lines:
        ctx.count(("cache", l))
    ctx.cov.setdefault("correspondence", {})["cached solver: which system is solved / set-up events vs SolverCache.run"] = {
        "cases": len(lines), "disagreements": len(diffs)}
    if diffs:
        i = diffs[0]
        ctx.mark("CORR-BROKEN", {"correspondence": "cached solver state machine", "request": lines[i], "model": trimmed[i], "impl": impl[i],
                                 "n_diffs": len(diffs)})
        ctx.log(f"correspondence cached-solver: {len(diffs)} disagreements, e.g. {lines[i]} model={trimmed[i]} impl={impl[i]}")


def extract_amg_defaults(d):
    """G2: how `setup_amg_options` obtains its default dictionary: a literal / copy built afresh in every call ('fresh') or a
    module-level object bound by reference ('shared'); plus the default keys"""
    W = d.measure.wasserstein
    try:
        fn = ast.parse(textwrap.dedent(inspect.getsource(W.VariationalWassersteinDistance.setup_amg_options))).body[0]
    except (OSError, TypeError, SyntaxError, IndexError):
        return "shared", [], "source unavailable"
    binding, keys, why = "shared", [], "no assignment to self.amg_options found"
    for n in ast.walk(fn):
        if isinstance(n, ast.Assign) and any(isinstance(t, ast.Attribute) and t.attr == "amg_options" for t in n.targets):
            v = n.value
            if isinstance(v, ast.Dict):
                binding, why = "fresh", "dict literal"
                keys = [k.value for k in v.keys if isinstance(k, ast.Constant)]
            elif isinstance(v, ast.Call) and ((isinstance(v.func, ast.Name) and v.func.id == "dict") or
                                              (isinstance(v.func, ast.Attribute) and v.func.attr in ("copy", "deepcopy"))):
                binding, why = "fresh", "copy of " + ast.unparse(v)
                src = v.args[0] if v.args else (v.func.value if isinstance(v.func, ast.Attribute) else None)
                obj = getattr(W, src.id, None) if isinstance(src, ast.Name) else None
                keys = list(obj.keys()) if isinstance(obj, dict) else []
            else:
                binding, why = "shared", "bound to " + ast.unparse(v)
                obj = getattr(W, v.id, None) if isinstance(v, ast.Name) else None
                keys = list(obj.keys()) if isinstance(obj, dict) else []
            break
    return binding, keys, why


def emit_options(binding, keys) -> str:
    ks = [re.sub(r"\W", "_", str(k)) for k in keys] or ["none"]
    return "\n".join([
        "import DarsiaModel.Options", "namespace Darsia.Gen", "",
        "/-- keys of the default AMG options in `setup_amg_options` -/",
        "inductive AmgKey\n  | " + " | ".join(ks) + "\n  deriving DecidableEq, Repr", "",
        "def amgDefaultKeys : List AmgKey := [" + ", ".join("." + k for k in ks) + "]", "",
        "/-- how `setup_amg_options` obtains the defaults: built afresh in every call, or a module-level object bound by reference -/",
        f"def amgBinding : Options.Binding := .{binding}", "", "end Darsia.Gen", ""])


def _resolved(w):
    """the options a solver object resolved (documented attributes), without callables / history lists"""
    amg = getattr(w, "amg_options", None)
    so = {k: v for k, v in getattr(w, "solver_options", {}).items() if k not in ("M", "residuals")}
    return (None if amg is None else repr(sorted(amg.items(), key=lambda kv: str(kv[0]))), repr(sorted(so.items(), key=lambda kv: str(kv[0]))))


def options_isolation(ctx, d):
    """cross-object state in one process: [default object B solves] -> [object A with user options solves] -> [fresh default
    object B' solves the same system]. B' must resolve the same options as B, return the same solution and satisfy the full system;
    the caller's option dictionaries must not be mutated. All back-ends, both orders of (A, B)."""
    import copy

    shape = (5, 4)
    user_sets = {
        "amg": dict(amg_options={"max_levels": 1, "coarse_solver": "jacobi", "max_coarse": 3}, linear_solver_options={"atol": 1e-3, "maxiter": 3}),
        "cg": dict(amg_options={"max_levels": 1, "coarse_solver": "jacobi", "max_coarse": 3}, linear_solver_options={"rtol": 1e-2, "maxiter": 2}),
        "direct": dict(linear_solver_options={"rtol": 1e-2}),
    }
    w0 = call(make_solver, d, shape, "pressure", "direct")
    if isinstance(w0, Raised):
        return
    nf, nc = int(w0.grid.num_faces), int(w0.grid.num_cells)
    W = random_weights(ctx.rng, nf)
    rhs = random_rhs(ctx.rng, nf, nc)
    A = full_matrix(w0, W)

    def solve_default(sv):
        w = call(make_solver, d, shape, "pressure", sv)
        if isinstance(w, Raised):
            return w
        r = call(w.linear_solve, A.copy(), rhs.copy())
        return r if isinstance(r, Raised) else (np.asarray(r[0], dtype=float), _resolved(w), w)

    for a_solver in ("cg", "amg", "direct"):
        for b_solver in ("amg", "cg", "direct"):
            ctx.count(("options-isolation", a_solver, b_solver))
            before = solve_default(b_solver)
            user = copy.deepcopy(user_sets[a_solver])
            snapshot = copy.deepcopy(user)
            wa = call(make_solver, d, shape, "pressure", a_solver, **user)
            if not isinstance(wa, Raised):
                call(wa.linear_solve, A.copy(), rhs.copy())
            rp = {"kind": "options", "a_solver": a_solver, "b_solver": b_solver, "user": repr(snapshot)}
            if repr(user) != repr(snapshot):  # no clause of C08: observation
                ctx.cov["options_caller_dict_changed"] = ctx.cov.get("options_caller_dict_changed", 0) + 1
            after = solve_default(b_solver)
            if isinstance(before, Raised) or isinstance(after, Raised):
                if repr(before) != repr(after) if isinstance(before, Raised) and isinstance(after, Raised) else True:
                    ctx.fail(f"C08:options:leak:after={a_solver}:default={b_solver}:raises",
                             f"a default {b_solver} solver behaves differently after an object with user options was used: {before!r} vs {after!r}", rp)
                continue
            xb, ob, _ = before
            xa, oa, wb = after
            if oa != ob:
                # private attributes compared by repr: the model's tie (options_do_not_leak), a failing input only through the solution below
                ctx.mark("TIE-BROKEN", {"correspondence": "resolved options of a fresh default solver (options_do_not_leak)", "after": a_solver, "default": b_solver,
                                        "before": str(ob)[:200], "now": str(oa)[:200]})
            res = exact_residual(A, xa, rhs) if np.all(np.isfinite(xa)) else None
            r2 = float("inf") if res is None else float(sum(v * v for v in res)) ** 0.5
            tol = tolerances(wb, A, W, rhs, xb, b_solver)
            if not r2 <= tol * (float(np.sqrt(A.shape[0])) if b_solver == "direct" else 1.0) or not np.allclose(xa, xb, rtol=1e-5, atol=1e-8 * float(np.abs(xb).max())):
                ctx.fail(f"C08:options:leak:after={a_solver}:default={b_solver}:solution",
                         f"a fresh default {b_solver} solver returns a different / wrong solution after an object with user options ({snapshot!r}) was used: "
                         f"residual {r2:.3e} (tol {tol:.3e}), max difference to the same solve done before {float(np.abs(xa - xb).max()):.3e}", rp)


def lumping_probe(ctx, d):
    """option lumping=False (a non-diagonal face mass matrix would break the diagonal-only Schur complement of the reduced
    formulations): currently refused at construction; if it ever constructs, every formulation must still solve darcy_init"""
    for f in ("full", "flux_reduced", "pressure"):
        w = call(make_solver, d, (3, 4), f, "direct", lumping=False)
        ctx.count(("lumping", f))
        if isinstance(w, Raised):
            ctx.cov.setdefault("lumping_false", {})[f] = repr(w)
            continue
        nf, nc = int(w.grid.num_faces), int(w.grid.num_cells)
        rhs = random_rhs(ctx.rng, nf, nc)
        r = call(w.linear_solve, w.darcy_init.copy(), rhs.copy())
        res = float("inf") if isinstance(r, Raised) else float(np.abs(w.darcy_init @ np.asarray(r[0], dtype=float) - rhs).max())
        ctx.cov.setdefault("lumping_false", {})[f] = f"constructs; |darcy_init x - b| = {res:.3e}"
        if not res <= 1e-9 * max(float(np.abs(rhs).max()), 1.0):
            ctx.fail(f"C08:linear_solve:lumping=False:formulation={f}:residual-vs-full-system",
                     f"with lumping=False (non-diagonal face mass matrix) linear_solve[{f},direct] does not solve the solver's own darcy_init: "
                     f"residual {res:.3e}", {"kind": "lumping", "formulation": f})


def oracle(ctx, d, voc, construct, accept):
    # (1) dispatch: every documented formulation is usable; no accepted spelling falls through
    for f in voc["documented_f"]:
        ctx.count(("documented", f))
        v = accept.get((f, "direct"))
        if v != "ok":
            ctx.fail(f"C08:formulation({f},direct):{v.cls}",
                     f"documented formulation '{f}' is not usable: with linear_solver='direct' the "
                     f"{'constructor' if construct[(f, 'direct')] != 'ok' else 'first linear_solve'} raises {v!r}",
                     {"kind": "dispatch", "formulation": f, "solver": "direct"})
    for (f, s), v in accept.items():
        ctx.count(("accept", f, s))
        if construct[(f, s)] == "ok" and isinstance(v, Raised) and v.cls in ("unbound", "key", "other", "index"):
            ctx.fail(f"C08:linear_solve({f},{s}):{v.cls}",
                     f"formulation '{f}' with linear_solver='{s}' passes the constructor's checks but linear_solve fails with {v!r} (no branch handles it)",
                     {"kind": "dispatch", "formulation": f, "solver": s})
    usable = {p: (v == "ok") for p, v in accept.items()}
    ctx.cov["usable_pairs"] = [list(p) for p, ok in usable.items() if ok]
    # (2) public tie on random systems
    ctx.cov["max_residual_over_tol"] = {}
    ctx.cov["max_pair_diff_over_tol"] = 0.0
    allshapes = c07_shapes()
    big = [s for s in allshapes if int(np.prod(s)) >= 100]
    fixed = [(1,), (2,), (3,), (12,), (1, 1), (1, 4), (4, 1), (2, 2), (4, 5), (7, 7), (1, 1, 1), (1, 3, 1), (2, 3, 2), (5, 5, 4), (5, 5, 5)]
    pool = [s for s in allshapes if s not in fixed]
    shapes = fixed + [ctx.rng.choice(pool) for _ in range(ctx.pick(6, 60))] + (big if ctx.big else [ctx.rng.choice(big)])
    for shape in shapes:
        fails, data = one_system(ctx, d, usable, shape, None)
        ctx.count(("system", shape), nontrivial=int(np.prod(shape)) > 1)
        if fails:
            # a tolerance miss of an iterative back-end is re-run once (same system, failing pairs only) with tightened
            # solver options before it counts
            numeric = [x for x in fails if ":residual-vs-full-system:" in x["sig"] or ":differs-from:" in x["sig"] or ":non-finite-or-misshaped:" in x["sig"]]
            hard = [x for x in fails if x not in numeric]
            retry = {tuple(x["pair"]) for x in numeric if x["pair"][1] in ("amg", "cg")}
            if retry and data is not None:
                again, _ = one_system(ctx, d, usable, shape, None, tight=True, only=retry | {("full", "direct")}, data=data)
                keep = [x for x in numeric if tuple(x["pair"]) not in retry]
                numeric = keep + [x for x in again if ":residual-vs-full-system:" in x["sig"] or ":differs-from:" in x["sig"] or ":non-finite-or-misshaped:" in x["sig"]]
                ctx.cov["retried_with_tight_options"] = ctx.cov.get("retried_with_tight_options", 0) + 1
            for x in hard + numeric:
                ctx.fail(x["sig"], x["what"], {"kind": "system", "shape": list(shape), "pair": x.get("pair"), "seed": ctx.seed,
                                               "detail": {k: v for k, v in x.items() if k not in ("sig", "what")}})
    # (3) end-to-end: regularisation updates in the middle of a Bregman run (cached solver must be rebuilt)
    for shape, L, every, n, sc in [((5, 4), 1.0, 3, 7, 1.0), ((3, 4), 0.5, 2, 5, 2.0 ** -40)] + (
            [((6, 5), 1.0, 5, 11, 1.0), ((3, 3, 2), 2.0, 3, 7, 2.0 ** -30), ((7,), 0.1, 2, 6, 2.0 ** 20)] if ctx.big else []):
        schedule_oracle(ctx, d, usable, shape, L, every, n, sc)
    # (4) end-to-end distance (Newton)
    for shape in [(4, 5), (3,)] + ([(3, 2, 2), (6, 6)] if ctx.big else []):
        distance_oracle(ctx, d, usable, shape)
    return usable


def run(ctx):
    import darsia as d

    voc = vocabulary(d)
    construct, accept = tabulate(d, voc)
    ctx.write_gen("Dispatch", emit(voc, construct, accept))
    binding, okeys, owhy = extract_amg_defaults(d)
    ctx.write_gen("OptionsGen", emit_options(binding, okeys))
    ctx.cov["amg_defaults"] = {"binding": binding, "keys": okeys, "evidence": owhy}
    ctx.cov["generated_tables"] = {"vocabulary": voc["info"]["source"], "formulations": voc["forms"], "solvers": voc["solvers"],
                                   "documented": voc["documented_f"], "accept": {f"{f}|{s}": repr(v) for (f, s), v in accept.items()}}
    ctx.prove("C08")
    usable = oracle(ctx, d, voc, construct, accept)
    allshapes = c07_shapes()
    if ctx.big:
        shapes = allshapes
    else:
        must = [(n,) for n in range(1, 13)] + [(a, b) for a in range(1, 5) for b in range(1, 5)] + \
               [(a, b, c) for a in range(1, 4) for b in range(1, 3) for c in range(1, 3)] + [(7, 7), (5, 5, 5), (1, 7), (5, 1, 5)]
        shapes = must + [ctx.rng.choice(allshapes) for _ in range(10)]
    lumping_probe(ctx, d)
    options_isolation(ctx, d)
    cache_correspondence(ctx, d, usable)
    surgery_correspondence(ctx, d, shapes)
    small = [(1,), (2,), (5,), (1, 1), (2, 2), (1, 3), (3, 2), (2, 1, 2), (2, 2, 2)]
    assembly_correspondence(ctx, d, small + [ctx.rng.choice([s for s in allshapes if np.prod(s) <= 30]) for _ in range(ctx.pick(4, 30))])
    solve_correspondence(ctx, d, usable, [(2,), (1, 1), (2, 2), (3, 2), (2, 1, 2)] + ([(4, 3), (2, 2, 2), (5,)] if ctx.big else []),
                         ctx.pick(4, 5))
    ctx.cov["exhaustive"] = bool(ctx.big)
    ctx.cov["rule"] = ("dispatch: exhaustive over documented/accepted formulation spellings x back-ends (G1); CSC surgery: all 186 C07-range "
                       "shapes in the thorough tier (a fixed subset + random ones in quick); linear systems: fixed boundary shapes + random "
                       "C07-range shapes x all usable pairs x 4 successive systems; distinct = distinct request line / (clause, shape)")
    ctx.assumptions += [
        "the face/cell divergence matrix is taken from the implementation (w.div); its structure (1^T D = 0) is property C06/C07",
        "ksp back-end not installed (petsc4py missing): tabulated as unavailable",
        "AMG/CG accuracy is sampled, tolerance = 4 x configured rtol x ||reduced rhs||_2 (stopping rule of both solvers)",
    ]


def replay(data):
    import darsia as d

    from ..lib.core import Ctx

    rp = data.get("replay", {})
    print("signature:", data.get("signature"))
    print("recorded :", data.get("what"))
    kind = rp.get("kind")
    if kind == "dispatch":
        f, s = rp["formulation"], rp["solver"]
        w = call(make_solver, d, (2, 2), f, s)
        if isinstance(w, Raised):
            print(f"observed : constructor(formulation={f!r}, linear_solver={s!r}) raises {w!r}; required: usable")
            return 1
        nf, nc = int(w.grid.num_faces), int(w.grid.num_cells)
        rhs = np.zeros(nf + nc + 1)
        rhs[nf:-1] = [1.0, -1.0, 0.5, -0.5]
        r = call(w.linear_solve, full_matrix(w, np.array([1.0, 2.0, 0.5, 4.0])), rhs)
        print("observed : linear_solve ->", repr(r) if isinstance(r, Raised) else "ok", "; required: ok")
        return 1 if isinstance(r, Raised) else 0
    if kind == "system":
        ctx = Ctx("C08", "quick", int(rp.get("seed", 0)), LEVEL)
        voc = vocabulary(d)
        construct, accept = tabulate(d, voc)
        usable = {p: (v == "ok") for p, v in accept.items()}
        ctx.cov["max_residual_over_tol"] = {}
        ctx.cov["max_pair_diff_over_tol"] = 0.0
        bad = 0
        for trial in range(5):
            for x in one_system(ctx, d, usable, tuple(rp["shape"]), None)[0]:
                print("observed :", x["what"])
                bad += 1
        print("required : every usable formulation x back-end satisfies the original full system within tolerance")
        return 1 if bad else 0
    if kind == "schedule":
        ctx = Ctx("C08", "quick", 0, LEVEL)
        voc = vocabulary(d)
        construct, accept = tabulate(d, voc)
        usable = {p: (v == "ok") for p, v in accept.items()}
        schedule_oracle(ctx, d, usable, tuple(rp["shape"]), rp["L"], rp["every"], rp["num_iter"], rp.get("scale", 1.0))
        for f in ctx.failures:
            print("observed :", f["signature"], "--", f["what"])
        print("required : every inner linear_solve solves the system it is handed; the distance is the same for every formulation x back-end")
        return 1 if ctx.failures else 0
    print("replay   :", rp)
    return 0
