"""C04 - Wasserstein solvers return mass-conserving fluxes, self-consistent results and an honest status.

Tie:
  G2  shape of the two `_solve` loops (how `info["converged"]` is computed, what the exception handler
      restores, how the distance is initialised) extracted with stdlib `ast` -> DarsiaGen.SolveLoopGen.
  T   DarsiaProps.C04: loop-model theorems for every event sequence and every num_iter (converged_sound,
      distance_is_cost_of_returned_flux, fault_flags_nonconverged, fault_returns_last_valid_iterate) and the
      algebra of the mass balance (lambda_zero, mass_balance_of_solution, newton_preserves_balance,
      affine/anderson_preserves_balance, pressure pinned) over an abstract divergence with 1^T D = 0.
  C   fault-injection correspondence: the real solver is run with `linear_solve` (failure before the update) or
      the Anderson object (failure after the update) of the live solver object wrapped to raise at pass j;
      (converged, number_iterations, distance == cost of the returned flux, which iterate is returned) are
      compared with the loop model's prediction for the reconstructed event sequence.
  O   oracle on every run: ||D u - f||_inf <= tol, distance == l1_dissipation(returned flux), aux outputs
      recomputed from the captured flat solution, pinned pressure, converged => criteria met and no fault.
"""
from __future__ import annotations

import ast
import inspect
import textwrap
import warnings

import numpy as np

from ..lib.impl import Raised, call

LEVEL = "proof"
CLAIM = dict(
    category="proof",
    text="Status part: Lean theorems about a step-function model of the two _solve loops, for EVERY event sequence "
    "(ok criteriaMet | failBeforeUpdate | failAfterUpdate | nan at each pass) and EVERY num_iter: converged => the last executed "
    "pass completed with the stopping criteria met (iter > 1) and all earlier passes completed; reported distance = cost of exactly "
    "the returned iterate; a fault at any reached pass => converged = False, number_iterations = that pass, solution and distance "
    "= last valid iterate; status defined also for num_iter = 0. The shape of the loops the theorems talk about (explicit flag set "
    "only on the criteria break, handler restoring iterate and distance, distance initialised from the initial flux) is extracted "
    "from the AST of the running code on every check and discharged by decide; the negations for the code as found are proved with "
    "witnesses. Algebraic part (any field, any finite grid, abstract divergence D with 1^T D = 0, any weights): second block row "
    "=> multiplier 0 and D u = f; invariance under any number of Newton updates; Anderson mixing / affine combinations preserve the "
    "balance; pressure pinned. Tie: fault-injection correspondence of the real solvers (wrapping linear_solve / the Anderson object "
    "of a live solver, no source hook) against the model's prediction, and a per-run oracle (mass balance to linear-solver "
    "precision, distance == l1_dissipation(returned flux), aux outputs recomputed from the captured flat solution, honest status).",
    note="1^T D = 0 for the concrete FV divergence is property C06/C07 (here a hypothesis and, per run, a measured fact); linear-solver "
    "accuracy and the Euclidean norm in the cost are evaluated in float; exceptions are injected at two program points "
    "(inner linear solve, Anderson mixing) - other raise points are covered by the model, not by injection.",
    technique="Lean 4 proofs (invariant over the loop model; Finset algebra) + AST extraction (G2) + fault-injection correspondence + oracle",
)

EPS = float(np.finfo(float).eps)


# ---------------------------------------------------------------------------------------------
# G2: shape of the loops


def _names_assigned(stmts):
    out = []
    for st in stmts:
        for node in ast.walk(st):
            if isinstance(node, (ast.Assign, ast.AugAssign)):
                tgts = node.targets if isinstance(node, ast.Assign) else [node.target]
                for t in tgts:
                    if isinstance(t, ast.Name):
                        out.append((t.id, node))
    return out


def extract_shape(cls):
    """'asFound' | 'repaired' | 'unknown' plus a description, from the AST of cls._solve."""
    try:
        fn = ast.parse(textwrap.dedent(inspect.getsource(cls._solve))).body[0]
    except (OSError, TypeError, SyntaxError, IndexError) as e:
        return "unknown", f"source unavailable: {e}"
    loop = next((n for n in fn.body if isinstance(n, ast.For) and isinstance(n.target, ast.Name)), None)
    if loop is None:
        return "unknown", "no top-level for loop"
    it = loop.target.id
    pre = fn.body[: fn.body.index(loop)]
    post = fn.body[fn.body.index(loop) + 1:]
    conv = None
    for st in post:
        if isinstance(st, ast.Assign) and isinstance(st.value, ast.Dict):
            for k, v in zip(st.value.keys, st.value.values):
                if isinstance(k, ast.Constant) and k.value == "converged":
                    conv = v
    if conv is None:
        return "unknown", "no info['converged'] after the loop"
    tries = [n for n in loop.body if isinstance(n, ast.Try)]
    if len(tries) != 1 or len(tries[0].handlers) != 1:
        return "unknown", "loop body is not a single try/except"
    tr, handler = tries[0], tries[0].handlers[0]
    handler_breaks = any(isinstance(n, ast.Break) for n in handler.body)
    if not handler_breaks:
        return "unknown", "handler does not break"
    if isinstance(conv, ast.Compare):
        txt = ast.unparse(conv)
        if txt == f"{it} < num_iter - 1":
            return "asFound", f"converged = {txt}"
        return "unknown", f"converged = {txt}"
    if not isinstance(conv, ast.Name):
        return "unknown", f"converged = {ast.unparse(conv)}"
    flag = conv.id
    # (a) flag = False before the loop, (b) exactly one `flag = True`, in the try body, in an `if iter > 1 and ...: ...; break`
    pre_assign = [n for name, n in _names_assigned(pre) if name == flag]
    if not (pre_assign and all(isinstance(n, ast.Assign) and isinstance(n.value, ast.Constant) and n.value.value is False for n in pre_assign)):
        return "unknown", f"{flag} is not initialised to False before the loop"
    all_assign = [n for name, n in _names_assigned(fn.body) if name == flag]
    trues = [n for n in all_assign if isinstance(n, ast.Assign) and isinstance(n.value, ast.Constant) and n.value.value is True]
    if len(all_assign) != len(pre_assign) + 1 or len(trues) != 1:
        return "unknown", f"{flag} is assigned in unexpected places"
    ok_site = False
    for node in ast.walk(tr):
        if isinstance(node, ast.If) and trues[0] in node.body and isinstance(node.body[-1], ast.Break):
            t = node.test
            first = t.values[0] if isinstance(t, ast.BoolOp) and isinstance(t.op, ast.And) else None
            if first is not None and ast.unparse(first) == f"{it} > 1" and not node.orelse:
                ok_site = True
    in_try_body = any(trues[0] in list(ast.walk(st)) for st in tr.body)
    if not (ok_site and in_try_body):
        return "unknown", f"{flag} = True is not guarded by `if {it} > 1 and <criteria>: ...; break`"
    # (c) handler restores the iterate and the distance from names bound before the try
    h_assign = {name: n for name, n in _names_assigned(handler.body)}
    restored = [n for n in ("solution_i", "flux") if n in h_assign and isinstance(h_assign[n].value, ast.Name)]
    if "new_distance" not in h_assign or not isinstance(h_assign["new_distance"].value, ast.Name) or not restored:
        return "unknown", "handler does not restore iterate and distance"
    saved = {h_assign["new_distance"].value.id, h_assign[restored[0]].value.id}
    before_try = loop.body[: loop.body.index(tr)]
    # saved at the top of the pass, or initialised before the loop and carried from pass to pass (Bregman's old_distance)
    saved_before = {name for name, _ in _names_assigned(before_try)} | {name for name, _ in _names_assigned(pre)}
    if not saved <= saved_before:
        return "unknown", f"handler restores from {sorted(saved)} which are not saved before the try"
    # (d) distance initialised from the initial iterate, not the literal 0
    nd = [n for name, n in _names_assigned(pre) if name == "new_distance"]
    if not nd or any(isinstance(n.value, ast.Constant) for n in nd if isinstance(n, ast.Assign)):
        return "unknown", "new_distance is initialised with a constant"
    # (e) the loop variable is bound before the loop (num_iter = 0)
    if not any(name == it for name, _ in _names_assigned(pre)):
        return "unknown", f"{it} unbound for num_iter = 0"
    return "repaired", f"converged = {flag} (set on the criteria break only); handler restores {sorted(saved)}"


def emit(shapes) -> str:
    return "\n".join([
        "import DarsiaModel.SolveLoop", "namespace Darsia.Gen", "open Darsia.SolveLoop", "",
        "/-- shape of `WassersteinDistanceNewton._solve`, extracted from its AST -/",
        f"def newtonShape : Shape := .{shapes['newton'][0]}",
        "/-- shape of `WassersteinDistanceBregman._solve`, extracted from its AST -/",
        f"def bregmanShape : Shape := .{shapes['bregman'][0]}", "",
        "def shapeOf : Method → Shape", "  | .newton => newtonShape", "  | .bregman => bregmanShape", "",
        "end Darsia.Gen", ""])


# ---------------------------------------------------------------------------------------------
# running the real solver


class Injected(RuntimeError):
    pass


class Config(dict):
    __getattr__ = dict.get

    def key(self):
        return tuple(sorted((k, str(v)) for k, v in self.items()))


def masses(cfg, rng_np):
    shape = tuple(cfg.shape)
    if cfg.masses == "dense":
        m1 = rng_np.uniform(0.1, 1.0, size=shape)
        m2 = rng_np.uniform(0.1, 1.0, size=shape)
    elif cfg.masses == "compact":
        m1, m2 = np.zeros(shape), np.zeros(shape)
        lo = tuple(slice(0, max(1, s // 2)) for s in shape)
        hi = tuple(slice(s - max(1, s // 2), s) for s in shape)
        m1[lo] = rng_np.uniform(0.5, 1.0, size=m1[lo].shape)
        m2[hi] = rng_np.uniform(0.5, 1.0, size=m2[hi].shape)
    else:  # single cell
        m1, m2 = np.zeros(shape), np.zeros(shape)
        m1[tuple(0 for _ in shape)] = 1.0
        m2[tuple(s - 1 for s in shape)] = 1.0
    m2 *= m1.sum() / m2.sum()
    return m1, m2


def build(d, cfg, num_iter=None):
    W = d.measure.wasserstein
    shape = tuple(cfg.shape)
    dim = len(shape)
    voxel = list(cfg.voxel)
    grid = d.Grid(shape=shape, voxel_size=voxel)
    dims = [s * v for s, v in zip(shape, voxel)]
    rng_np = np.random.default_rng(cfg.mseed)
    m1, m2 = masses(cfg, rng_np)
    i1 = d.Image(m1, space_dim=dim, dimensions=dims, scalar=True)
    i2 = d.Image(m2, space_dim=dim, dimensions=dims, scalar=True)
    weight = None
    if cfg.weighted:
        weight = d.Image(rng_np.uniform(0.5, 2.0, size=shape), space_dim=dim, dimensions=dims, scalar=True)
    opts = dict(
        return_info=True, num_iter=cfg.num_iter if num_iter is None else num_iter, formulation=cfg.formulation, linear_solver=cfg.solver,
        l1_mode=getattr(W.L1Mode, cfg.l1), mobility_mode=getattr(W.MobilityMode, cfg.mobility), aa_depth=cfg.aa,
        tol_residual=cfg.tol, tol_increment=cfg.tol, tol_distance=cfg.tol,
        L=cfg.L,
    )
    if cfg.solver in ("amg", "cg"):
        opts["linear_solver_options"] = {"rtol": 1e-10, "atol": 1e-10 if cfg.solver == "amg" else 0.0, "maxiter": 500}
    if cfg.method == "bregman_adaptive":
        opts["bregman_update"] = lambda it: it % 2 == 1
    cls = W.WassersteinDistanceNewton if cfg.method == "newton" else W.WassersteinDistanceBregman
    return cls(grid, weight, opts), i1, i2, opts


class RaisingAnderson:
    def __init__(self, inner, at):
        self.inner, self.at, self.n = inner, at, 0

    def __call__(self, *a, **k):
        n = self.n
        self.n += 1
        if n == self.at:
            raise Injected("injected failure in Anderson acceleration")
        return self.inner(*a, **k)


def run_solver(d, cfg, fault=None, num_iter=None):
    """fault = None | ('fb', j) | ('fa', j). Returns dict or Raised."""
    def go():
        w, i1, i2, opts = build(d, cfg, num_iter)
        cap = {}
        orig_solve = w._solve

        def solve(x):
            r = orig_solve(x)
            cap["mass_diff"] = np.array(x, dtype=float, copy=True)
            cap["distance"], cap["solution"], cap["info"] = r[0], np.array(r[1], dtype=float, copy=True), r[2]
            return r

        w._solve = solve
        if fault is not None and fault[0] == "fb":
            orig_ls, cnt = w.linear_solve, [0]

            def ls(*a, **k):
                n = cnt[0]
                cnt[0] += 1
                if n == 1 + fault[1]:  # call 0 is the initial Darcy solve before the loop
                    raise Injected("injected failure of the inner linear solve")
                return orig_ls(*a, **k)

            w.linear_solve = ls
        if fault is not None and fault[0] == "fa":
            w.anderson = RaisingAnderson(w.anderson, fault[1])
        np.random.seed(12345)  # pyamg draws random vectors; make repeated runs comparable
        with warnings.catch_warnings(record=True) as rec:
            warnings.simplefilter("always")
            out = w(i1, i2)
        cap["warned"] = any("abruptly stopped" in str(x.message) for x in rec)
        cap["w"], cap["out"], cap["opts"] = w, out, opts
        # magnitude of the integrated masses: the source f = M (m2 - m1) carries a rounding error of eps times this
        cap["mass_scale"] = float(max(np.abs(w.mass_matrix_cells @ np.ravel(np.abs(i1.img), "F")).max(),
                                      np.abs(w.mass_matrix_cells @ np.ravel(np.abs(i2.img), "F")).max()))
        return cap

    import contextlib
    import io

    try:
        with contextlib.redirect_stdout(io.StringIO()):
            return go()
    except Exception as e:  # noqa: BLE001
        return Raised(e)


def criteria_met_at(cfg, hist, i):
    """documented stopping rule evaluated on entry i of the convergence history (pass i)."""
    tol = cfg.tol
    with np.errstate(all="ignore"):
        try:
            if cfg.method == "newton":
                return bool(hist["residual"][i] < tol * hist["residual"][0] and hist["flux_increment"][i] < tol * hist["flux_increment"][0]
                            and hist["distance_increment"][i] < tol)
            return bool(hist["aux_force_increment"][i] < tol * hist["aux_force_increment"][0]
                        and hist["distance_increment"][i] / hist["distance"][i] < tol and hist["mass_conservation_residual"][i] < tol)
        except (KeyError, IndexError):
            return False


def events_of(cfg, cap, fault, num_iter):
    """event sequence of a run reconstructed from public information"""
    hist = cap["info"].get("convergence_history", {})
    n_done = len(hist.get("distance", []))
    ev = ["ok1" if criteria_met_at(cfg, hist, i) else "ok0" for i in range(n_done)]
    broke = n_done > 0 and n_done - 1 > 1 and ev[-1] == "ok1"
    if not broke and n_done < num_iter:
        if fault is not None and fault[1] == n_done:
            ev.append(fault[0])
        elif cap["warned"]:
            ev.append("fb")  # a failure that was not injected (e.g. singular weights); kind unknown, repaired code treats both alike
        elif isinstance(cap["distance"], float) and np.isnan(cap["distance"]):
            ev.append("nan")
    return ev, n_done


def mass_balance(cap):
    w = cap["w"]
    nf = int(w.grid.num_faces)
    u = cap["solution"][:nf]
    f = np.asarray(w.mass_matrix_cells @ cap["mass_diff"], dtype=float)
    div = w.div
    err = float(np.abs(div @ u - f).max()) if f.size else 0.0
    scale = float((abs(div) @ np.abs(u)).max() + np.abs(f).max()) if f.size and nf else float(np.abs(f).max() if f.size else 0.0)
    return err, scale, u, f


# ---------------------------------------------------------------------------------------------


def check_run(ctx, d, cfg, cap, fault, num_iter, label):
    """per-run oracle; returns (converged, number_iterations, dist_is_cost, n_done, events)"""
    w, info = cap["w"], cap["info"]
    nf, nc = int(w.grid.num_faces), int(w.grid.num_cells)
    sig0 = f"C04:{cfg.method}._solve"
    rp = {"kind": "run", "cfg": dict(cfg), "fault": list(fault) if fault else None, "num_iter": num_iter}
    ev, n_done = events_of(cfg, cap, fault, num_iter)
    faulted = bool(ev) and ev[-1] in ("fb", "fa")
    converged = bool(info.get("converged"))
    dist = cap["distance"]
    # (1) mass balance of the returned flux
    err, scale, u, f = mass_balance(cap)
    iterative = cfg.solver in ("amg", "cg")
    # direct back-ends: backward-stable solve of a system whose unknowns and data have magnitude `scale`
    # (|D||u| + |f|, plus the masses the source is the difference of); iterative: configured rtol 1e-10 x ||f||, margin 100
    tol = 1e4 * EPS * max(scale + cap.get("mass_scale", 0.0), 1e-300) * max(nf + nc, 1) + (1e-8 * float(np.linalg.norm(f)) if iterative else 0.0)
    if err <= tol:
        ctx.cov["max_balance_err_over_tol"] = max(ctx.cov.get("max_balance_err_over_tol", 0.0), err / tol)
    else:
        ctx.cov["max_balance_err_of_failing_runs"] = max(ctx.cov.get("max_balance_err_of_failing_runs", 0.0), err)
    colsum = float(np.abs(np.asarray(w.div.sum(axis=0))).max()) if nf else 0.0
    ctx.cov["max_abs_colsum_D"] = max(ctx.cov.get("max_abs_colsum_D", 0.0), colsum)
    if not err <= tol:
        # input class in the signature: Anderson on/off and full vs. reduced formulation (see findings/C04.json)
        ctx.fail(f"{sig0}:mass-balance:anderson={'on' if cfg.aa else 'off'}:{'full' if cfg.formulation == 'full' else 'reduced'}-formulation",
                 f"returned flux violates the discrete mass balance: |D u - f|_inf = {err:.3e} > {tol:.3e} ({label})", rp)
    # (2) reported distance is the cost of exactly the returned flux
    cost = call(w.l1_dissipation, u)
    dist_is_cost = (not isinstance(cost, Raised)) and (
        (np.isnan(dist) and np.isnan(cost)) or abs(float(dist) - float(cost)) <= 8 * EPS * max(abs(float(cost)), 1e-300))
    if not dist_is_cost:
        ctx.fail(f"{sig0}:distance!=cost(returned flux)" + (":after-fault" if faulted else ""),
                 f"reported distance {dist!r} is not the transport cost {cost!r} of the returned flux ({label})", rp)
    # (3) auxiliary outputs derive from the same solution
    out = cap["out"]
    if not (isinstance(out, tuple) and len(out) == 2 and (out[0] == dist or (np.isnan(dist) and np.isnan(out[0])))):
        ctx.fail(f"{sig0}:__call__-distance", f"__call__ returns a distance different from _solve's ({label})", rp)
    p = cap["solution"][nf:nf + nc]
    aux = {
        "flux": call(d.face_to_cell, w.grid, u),
        "pressure": p.reshape(w.grid.shape, order="F"),
        "transport_density": call(w.transport_density, u, flatten=False),
    }
    aux["weighted_flux"] = call(w.cell_weighted_flux, aux["flux"]) if not isinstance(aux["flux"], Raised) else aux["flux"]
    for key, ref in aux.items():
        got = info.get(key)
        if isinstance(ref, Raised) or got is None or np.shape(got) != np.shape(ref) or not np.array_equal(np.asarray(got), np.asarray(ref), equal_nan=True):
            ctx.fail(f"{sig0}:aux({key})", f"info['{key}'] is not derived from the returned flat solution ({label})", rp)
    md = info.get("mass_diff")
    if md is None or not np.array_equal(np.ravel(md, "F"), cap["mass_diff"]):
        ctx.fail(f"{sig0}:aux(mass_diff)", f"info['mass_diff'] differs from what was solved for ({label})", rp)
    k = int(w.constrained_cell_flat_index)
    pk = float(abs(p[k])) if nc else 0.0
    finite_p = p[np.isfinite(p)]
    if finite_p.size != p.size:
        # non-finite pressures in other cells (CG breakdown on extreme mobility weights) are recorded, not judged: the
        # property speaks about the flux, the distance and the pinned value
        ctx.cov["runs_with_nonfinite_pressure"] = ctx.cov.get("runs_with_nonfinite_pressure", 0) + 1
    if not pk <= 1e-10 * max(float(np.abs(finite_p).max()) if finite_p.size else 0.0, 1e-300) + 1e-300:
        ctx.fail(f"{sig0}:pressure-not-pinned", f"pressure of the reference cell is {p[k]!r}, not 0 ({label})", rp)
    # (4) honest status
    met_last = n_done > 0 and ev[n_done - 1] == "ok1" and n_done - 1 > 1
    if converged and (faulted or cap["warned"] or not met_last):
        why = "an inner step failed" if (faulted or cap["warned"]) else "the stopping criteria were not met"
        ctx.fail(f"{sig0}:converged-but-" + ("fault" if (faulted or cap["warned"]) else "criteria-not-met"),
                 f"info['converged'] is True although {why} (pass {n_done}, num_iter {num_iter}; {label})", rp)
    return converged, info.get("number_iterations"), dist_is_cost, n_done, ev


def same_iterate(a, b, cfg):
    tol = 1e-5 if cfg.solver in ("amg", "cg") else 1e-9
    if a.shape != b.shape or not np.array_equal(np.isfinite(a), np.isfinite(b)):
        return False
    m = np.isfinite(b)  # non-finite entries (pressure after a CG breakdown) must sit at the same places
    if not m.any():
        return True
    return bool(np.all(np.abs(a[m] - b[m]) <= tol * max(float(np.abs(b[m]).max()), 1e-300) + 1e-300))


def explore(ctx, d, cfg, lines, impl):
    """clean run + fault injections for one configuration; appends loop-correspondence lines."""
    method = "newton" if cfg.method == "newton" else "bregman"
    N = cfg.num_iter
    trunc = {}

    def truncated(j):
        if j not in trunc:
            trunc[j] = run_solver(d, cfg, None, num_iter=j)
            ctx.cov["solver_runs"] += 1
        return trunc[j]

    faults = [None] + [("fb", j) for j in cfg.fault_at] + ([("fa", j) for j in cfg.fault_at] if cfg.aa else [])
    clean_passes = None
    for fault in faults:
        # inject only into passes the loop actually executes (Bregman solves once more after the loop; a failure there
        # propagates as an exception, which is honest and not what the property quantifies over)
        if fault is not None and (clean_passes is None or fault[1] >= clean_passes):
            continue
        label = f"{cfg.method} {tuple(cfg.shape)} {cfg.masses} {cfg.formulation}/{cfg.solver} {cfg.l1}/{cfg.mobility} aa={cfg.aa} fault={fault}"
        cap = run_solver(d, cfg, fault)
        ctx.cov["solver_runs"] += 1
        ctx.count(("run", cfg.key(), fault), nontrivial=int(np.prod(cfg.shape)) > 1)
        rp = {"kind": "run", "cfg": dict(cfg), "fault": list(fault) if fault else None, "num_iter": N}
        if fault is None and (isinstance(cap, Raised) or "info" not in cap):
            # every generated configuration lies inside the property's quantifier (grids with single-cell axes, all L1 /
            # mobility modes, ...): no result at all is a failure of the property, reported per (method, mobility, grid class)
            thin = "single-cell-axis" if 1 in cfg.shape else "regular"
            ctx.fail(f"C04:{cfg.method}.__call__:raises({getattr(cap, 'cls', 'no-result')}):{cfg.mobility}:{thin}",
                     f"solver raises {cap!r} on a supported configuration instead of returning a result ({label})", rp)
            break
        if isinstance(cap, Raised) or "info" not in cap:
            ctx.fail(f"C04:{cfg.method}.__call__:raises({getattr(cap, 'cls', 'no-result')})" + (":under-fault" if fault else ""),
                     f"solver raises {cap!r} instead of returning a flagged result ({label})", rp)
            continue
        conv, nit, dcost, n_done, ev = check_run(ctx, d, cfg, cap, fault, N, label)
        if fault is None:
            clean_passes = n_done
        ctx.cov["events_seen"][ev[-1] if ev else "none"] = ctx.cov["events_seen"].get(ev[-1] if ev else "none", 0) + 1
        # which iterate is returned: the clean run truncated to the number of completed passes
        sol_tag = None
        for j in dict.fromkeys([n_done, max(n_done - 1, 0), n_done + 1]):
            if j > N:
                continue
            t = truncated(j) if j != N or fault is not None else cap
            if not isinstance(t, Raised) and "solution" in t and same_iterate(cap["solution"], t["solution"], cfg):
                sol_tag = j
                break
        dist_tag = sol_tag if dcost else ("none" if cap["distance"] == 0 else "other")
        lines.append(f"loop {method} gen {N} {len(ev)} " + " ".join(ev))
        impl.append(f"{int(conv)} {nit if nit is not None else 'none'} {dist_tag if dist_tag is not None else 'other'} "
                    f"{sol_tag if sol_tag is not None else 'other'} {int(bool(ev) and (ev[-1] in ('fb', 'fa', 'nan') or (ev[-1] == 'ok1' and len(ev) - 1 > 1)))}")
        if (fault is not None or cap["warned"]) and sol_tag != n_done:
            ctx.fail(f"C04:{cfg.method}._solve:not-last-valid-iterate",
                     f"after a failure in pass {n_done} the returned solution is not the last valid iterate (matches iterate {sol_tag}; {label})", rp)


def configs(ctx):
    rng = ctx.rng
    shapes = [(4, 5), (6,), (1, 4), (3, 3, 2), (3, 1), (2, 2, 1), (5, 3), (1,), (2, 3), (1, 1, 3), (4, 4)]
    l1s = ["RAVIART_THOMAS", "CONSTANT_SUBCELL_PROJECTION", "CONSTANT_CELL_PROJECTION"]
    mobs = ["CELL_BASED", "CELL_BASED_ARITHMETIC", "CELL_BASED_HARMONIC", "SUBCELL_BASED", "FACE_BASED"]
    pairs = [("pressure", "direct"), ("full", "direct"), ("flux_reduced", "direct"), ("pressure", "amg"), ("pressure", "cg")]
    methods = ["newton", "bregman", "bregman_adaptive"]
    n = ctx.pick(16, 160)
    out = []
    for i in range(n):
        # covering design: cycle every option list with co-prime strides, randomise the rest
        shape = shapes[i % len(shapes)] if i < 2 * len(shapes) else tuple(rng.randint(1, 5) for _ in range(rng.randint(1, 3)))
        dim = len(shape)
        method = methods[i % 3]
        cfg = Config(
            shape=list(shape), voxel=[2.0 ** rng.randint(-2, 0) for _ in range(dim)], masses=["dense", "compact", "single"][(i // 3) % 3],
            method=method, l1=l1s[(i // 2) % 3], mobility=mobs[i % 5], formulation=pairs[(i * 2 + i // 5) % 5][0], solver=pairs[(i * 2 + i // 5) % 5][1],
            aa=[0, 2][(i // 2) % 2], weighted=bool((i // 4) % 2), mseed=rng.randint(0, 10 ** 6),
            num_iter=[5, 4, 6, 3][i % 4], tol=[1e-14, float(np.finfo(float).max), 1e-3][(i // 3) % 3],
            # Newton: L is a cut-off of the mobility; Bregman: fixed penalty parameter (the Bregman operator is scaled by 1/L,
            # the initial Darcy operator by L_init = 1, so L != 1 distinguishes the two)
            L=(1e-2 if method == "newton" else [1.0, 0.1, 2.0, 10.0, 0.5][(i // 3 + i) % 5]),
        )
        k = cfg.num_iter
        cfg["fault_at"] = sorted({0, 1, rng.randint(2, k - 1) if k > 2 else 1}) if not ctx.big else list(range(0, min(k, 6)))
        out.append(cfg)
    return out


def loop_model_selfcheck(ctx):
    """the model on exhaustive small event sequences: repaired shape obeys the theorem statements (cross-check of the driver)"""
    import itertools

    lines, expect = [], []
    alphabet = ["ok0", "ok1", "fb", "fa"]
    for n in range(0, 5):
        for L in range(0, n + 1):
            for ev in itertools.product(alphabet, repeat=L):
                lines.append(f"loop newton repaired {n} {L} " + " ".join(ev))
                # reference semantics written independently: scan
                cur, conv, it, stopped = 0, 0, 0, 0
                for i in range(n):
                    e = ev[i] if i < L else "ok0"
                    it = i
                    if e in ("fb", "fa"):
                        stopped = 1
                        break
                    cur = i + 1
                    if i > 1 and e == "ok1":
                        conv, stopped = 1, 1
                        break
                expect.append(f"{conv} {it} {cur} {cur} {stopped}")
    ctx.correspond("loop-model vs independent scan (exhaustive, num_iter<=4)", [" ".join(l.split()) for l in lines], expect)


def run(ctx):
    import darsia as d

    W = d.measure.wasserstein
    shapes = {"newton": extract_shape(W.WassersteinDistanceNewton), "bregman": extract_shape(W.WassersteinDistanceBregman)}
    ctx.write_gen("SolveLoopGen", emit(shapes))
    ctx.cov["generated_tables"] = {k: {"shape": v[0], "evidence": v[1]} for k, v in shapes.items()}
    ctx.prove("C04")
    ctx.cov["solver_runs"] = 0
    ctx.cov["events_seen"] = {}
    loop_model_selfcheck(ctx)
    lines, impl = [], []
    cfgs = configs(ctx)
    for cfg in cfgs:
        explore(ctx, d, cfg, lines, impl)
    diffs = ctx.correspond("fault-injection: real solver vs loop model", lines, impl)
    ctx.cov["configs"] = len(cfgs)
    ctx.cov["exhaustive"] = False
    ctx.cov["rule"] = ("covering design over method x L1 mode x mobility mode x formulation/back-end x Anderson x weight x mass kind x shape "
                       "(every value of every option occurs; pairs are sampled), fault index 0, 1 and one random later pass (all passes in "
                       "the thorough tier) for both injection points; distinct = (configuration, fault)")
    ctx.assumptions += [
        "1^T D = 0 for the FV divergence (C06/C07); measured per run as max |column sum| (recorded)",
        "exceptions are injected at the inner linear solve and at the Anderson mixing; the loop model covers any raise point",
        "the stopping rule used by the oracle is the documented one (relative residual / increment and distance increment below tol)",
    ]


def replay(data):
    import darsia as d

    from ..lib.core import Ctx

    rp = data.get("replay", {})
    print("signature:", data.get("signature"))
    print("recorded :", data.get("what"))
    if rp.get("kind") != "run":
        print("replay   :", rp)
        return 0
    cfg = Config(rp["cfg"])
    fault = tuple(rp["fault"]) if rp.get("fault") else None
    ctx = Ctx("C04", "quick", 0, LEVEL)
    ctx.cov["solver_runs"] = 0
    ctx.cov["events_seen"] = {}
    cap = run_solver(d, cfg, fault)
    if isinstance(cap, Raised) or "info" not in cap:
        print("observed : solver raises", cap)
        return 1
    conv, nit, dcost, n_done, ev = check_run(ctx, d, cfg, cap, fault, cfg.num_iter, "replay")
    w = cap["w"]
    print(f"observed : events={ev} converged={conv} number_iterations={nit} distance={cap['distance']!r} "
          f"cost(returned flux)={w.l1_dissipation(cap['solution'][:int(w.grid.num_faces)])!r} warned={cap['warned']}")
    for f in ctx.failures:
        print("violated :", f["signature"], "--", f["what"])
    print("required : converged only if the criteria were met and no inner step failed; distance == cost of the returned flux; "
          "D u = f; last valid iterate returned")
    return 1 if ctx.failures else 0
