"""C04 - Wasserstein solvers return mass-conserving fluxes, self-consistent results and an honest status.

Tie:
  G2  shape of the two `_solve` loops (how `info["converged"]` is computed, what the exception handler
      restores, how the distance is initialised) extracted with stdlib `ast` -> DarsiaGen.SolveLoopGen.
  T   DarsiaProps.C04: loop-model theorems for every event sequence and every num_iter (converged_sound,
      distance_is_cost_of_returned_flux, fault_flags_nonconverged, fault_returns_last_valid_iterate) and the
      algebra of the mass balance (lambda_zero, mass_balance_of_solution, newton_preserves_balance,
      affine/anderson_preserves_balance, pressure pinned) over an abstract divergence with 1^T D = 0.
  C   fault-injection correspondence: the real solver is run with one attribute of the live solver object (jacobian,
      _update_regularization, linear_solve, setup_*_solver, _shrink, anderson, l1_dissipation, _analyze_timings) or a
      tolerance object used by the stopping criteria wrapped to raise at pass j;
      (converged, number_iterations, distance == cost of the returned flux, which iterate is returned) are
      compared with the loop model's prediction for the reconstructed event sequence.
  O   oracle on every run: ||D u - f||_inf <= tol, distance == l1_dissipation(returned flux), aux outputs
      recomputed from the captured flat solution, pinned pressure, converged => criteria met and no fault.
"""
from __future__ import annotations

import ast
import inspect
import textwrap
import warnings

from fractions import Fraction

import numpy as np

from ..lib.core import fmt
from ..lib.impl import Raised, call

LEVEL = "proof"
CLAIM = dict(
    category="proof",
    text="PROVED (Lean). Status: a step-function model of the two _solve loops whose try bodies are statement lists in source order "
    "EXTRACTED FROM THE AST on every check (label and effect of each statement on the returned iterate / distance; what the handler "
    "restores and whether from a copy or an alias of an in-place-updated iterate; how converged, the distance and the loop variable are "
    "initialised). The tags of a completed pass are DERIVED from the body (iterate written; distance evaluated after the last write), so "
    "the generated obligation code_is_sound fails when the statement order or the copy changes (order_and_copy_matter). For every event "
    "sequence (ok | fail at any statement of any body | nan) and every num_iter: converged_sound, distance_is_cost_of_returned_flux, "
    "fault_flags_nonconverged, fault_returns_last_valid_iterate, fault_point_irrelevant, converged_total; witnesses for the code as found. "
    "Mass balance (any field, abstract D with 1^T D = 0): lambda_zero, mass_balance_of_solution, newton_preserves_balance, "
    "affine/anderson_preserves_balance, bregman_flux_balanced, pressure pinned; anderson_run_preserves_balance for the accelerator AS "
    "CODED (DarsiaModel.Anderson: reset, history columns, column index, restart, mixing; least squares = arbitrary parameter). Outputs: "
    "WAux.callOut on the FV model of C05/C06; aux_from_solution / aux_flux_outputs_from_flux_dofs (congruences: outputs depend on the "
    "returned dofs only), aux_pressure_reshape, aux_distance_is_integral_of_density (value statements); nan_not_converged and "
    "aux_weighted_flux are definitional unfoldings. TIED BY CORRESPONDENCE: fault injection at nine program points of the real solvers "
    "(converged, number_iterations, distance tag, returned iterate vs the model on the reconstructed event sequence); the real "
    "AndersonAcceleration on dyadic vectors with a stubbed lstsq vs the model (exact) and, with the real lstsq, every depth / restart, "
    "the affine-constraint oracle over runs longer than the restart; __call__ outputs with a stubbed _solve vs "
    "callOut (exact / 64 eps; the integration rule of CONSTANT_SUBCELL / CELL_PROJECTION is the model's own - corner mean / centre - "
    "not read back from the code); generated program points and as-found witnesses through the driver. ORACLE per run: mass balance to "
    "linear-solver precision, distance == l1_dissipation(returned flux), aux outputs, pinned pressure, converged => criteria met (distance "
    "increments recomputed from the reported distances; Newton residual || rhs - J(x) x || and flux increment, Bregman mass residual "
    "recomputed from the iterates captured by pass-through wrappers of jacobian / l1_dissipation; only Bregman's aux/force increment is "
    "read from the history the solver wrote) and no fault. STOPPING RULE made binding by construction (stopping_rule_oracle; candidates "
    "from a generator of its own): from a reference run with all tolerances 0, each of tol_residual / tol_increment / tol_distance is placed "
    "between the value of its quantity in a pass k >= 3 and its minimum over the eligible passes before; Newton and both Bregman variants, "
    "verbose off and on, must stop in exactly pass k with the reference history (converged-but-criteria-not-met / "
    "criteria-met-but-not-stopped:<criterion> / tolerance-changes-iterates); a clause that no candidate makes binding, or no decreasing "
    "cost before the stop, is reported as mark ORACLE-BLIND instead of passing.",
    note="The hypothesis hupd of newton_preserves_balance is discharged from the model (newton_update_satisfies_hupd, "
    "newton_model_preserves_balance, mass_row_same_in_every_iterate) and tied (iterate matrices = darcy_init outside the diagonal "
    "flux-flux block). The loop model also carries what the handler restores the DISTANCE from (re-bound at the top of every pass, or "
    "committed by the last statement of every body: commit_matters) and the block after the loop (Bregman's guarded pressure "
    "post-processing: post_loop_failure_only_marks_pressure; tied by injecting a failure into the post-loop solve). The accelerator "
    "model includes the column filter of its least-squares problem (anderson_filtered_run_preserves_balance; the stubbed-lstsq tie "
    "sees which columns are passed). The model accepts a nan event for Newton although Newton has no NaN branch (harmless). 1^T D = 0 "
    "is C06. same_iterate compares iterates to 1e-9 and cannot tell stationary iterates apart. After a fault in the bookkeeping of a "
    "pass the convergence_history keeps the entry of the failed pass (not judged). KNOWN FINDINGS (exact classes; everything else is a "
    "violation): degenerate mobility = a reconstructed cell-centre flux below 1e-10 of the flux scale (weights ~ 1/regularisation, "
    "Schur complement numerically singular): Newton's returned flux misses D u = f with direct (<= 1e-1 max|f|), amg and cg (<= max|f|, "
    "cg also NaN), cg/amg NaN pressures - signatures carry the back-end (iterative back-ends: no magnitude bucket, the size of such a miss is random; direct: gross-error bound rel<=2). Only a failure of the inner linear solve in a pass can end in a failing input; the other program points, the post-loop solve, the private iterate matrices, weighted_flux / mass_diff and the if-direction of the stopping rule end in TIE-BROKEN marks; aborted passes are never recognised by the wording of a warning. There is NO mask for Anderson-on runs any more "
    "(the degenerate least-squares blow-up is fixed upstream; reverting that fix makes the check exit 1) and none for the post-processing "
    "NaN marker (it does not occur uninjected on main in 480 configurations).",
    technique="Lean 4 proofs (invariant over the loop model; Finset / sumTo algebra) + AST extraction (G2) + fault-injection correspondence + oracle",
)

EPS = float(np.finfo(float).eps)


# ---------------------------------------------------------------------------------------------
# G2: shape of the loops


def _names_assigned(stmts):
    out = []
    for st in stmts:
        for node in ast.walk(st):
            if isinstance(node, (ast.Assign, ast.AugAssign)):
                tgts = node.targets if isinstance(node, ast.Assign) else [node.target]
                for t in tgts:
                    if isinstance(t, ast.Name):
                        out.append((t.id, node))
    return out


CALL_LABEL = [("_update_regularization", "regularisation"), ("residual", "assemble"), ("jacobian", "assemble"),
              ("linear_solve", "linearSolve"), ("_shrink", "shrink"), ("anderson", "anderson"), ("l1_dissipation", "distance"),
              ("_analyze_timings", "timings")]


def _self_calls(node):
    out = []
    for n in ast.walk(node):
        if isinstance(n, ast.Call) and isinstance(n.func, ast.Attribute) and isinstance(n.func.value, ast.Name) and n.func.value.id == "self":
            out.append(n.func.attr)
    return out


def _assigned_roots(node):
    """names that are (re)bound or written through a subscript anywhere in the statement"""
    out = []
    for n in ast.walk(node):
        if isinstance(n, (ast.Assign, ast.AugAssign)):
            for t in (n.targets if isinstance(n, ast.Assign) else [n.target]):
                for e in (t.elts if isinstance(t, ast.Tuple) else [t]):
                    while isinstance(e, ast.Subscript):
                        e = e.value
                    if isinstance(e, ast.Name):
                        out.append(e.id)
    return out


def _is_criteria(st, it):
    if not isinstance(st, ast.If) or not any(isinstance(n, ast.Break) for n in ast.walk(st)):
        return False
    t = st.test
    first = t.values[0] if isinstance(t, ast.BoolOp) and isinstance(t.op, ast.And) else None
    return first is not None and ast.unparse(first) == f"{it} > 1"


def _bodies(stmts, it, tracked, saved_dist=None):
    """alternative statement lists (label, effect) of a try body, in source order"""
    alts = [[]]
    for st in stmts:
        if isinstance(st, ast.With):
            sub = _bodies(st.body, it, tracked, saved_dist)
            alts = [a + b for a in alts for b in sub]
            continue
        if isinstance(st, ast.If) and st.orelse and "linear_solve" in _self_calls(ast.Module(body=st.body, type_ignores=[])) \
                and "linear_solve" in _self_calls(ast.Module(body=st.orelse, type_ignores=[])):
            sub = _bodies(st.body, it, tracked, saved_dist) + _bodies(st.orelse, it, tracked, saved_dist)
            alts = [a + b for a in alts for b in sub]
            continue
        calls = _self_calls(st)
        roots = _assigned_roots(st)
        label = next((lab for name, lab in CALL_LABEL if name in calls), None)
        effect = "none"
        if _is_criteria(st, it):
            label, effect = "criteria", "criteria"
        elif tracked in roots:
            effect = "writeSol"
            label = label or "setSolution"
        elif "new_distance" in roots:
            effect = "writeDist"
            label = label or "setDistance"
        elif saved_dist is not None and saved_dist in roots:
            # the statement that refreshes what the handler restores the distance from (`old_distance = new_distance`)
            label, effect = "commit", "commitDist"
        elif label is None:
            src = ast.unparse(st)
            if isinstance(st, ast.If) and "isnan" in src:
                label = "nanCheck"
            elif "convergence_history" in src and ".append(" in src and "history" not in [l for l, _ in alts[0][-1:]]:
                label = "history"
            elif any(r.startswith("old_") for r in roots) and "commit" not in [l for l, _ in alts[0][-1:]]:
                label = "commit"
        if label is not None:
            alts = [a + [(label, effect)] for a in alts]
    return alts


def extract_code(cls):
    """AST of cls._solve -> dict(bodies, restoreSol, restoreDist, flagOnBreak, distInit, iterInit, why)"""
    code = dict(bodies=[], restoreSol=False, restoreDist=False, flagOnBreak=False, distInit=False, iterInit=False, saveIsCopy=False,
                saveDistBeforeTry=False, post="none", why=[])
    try:
        fn = ast.parse(textwrap.dedent(inspect.getsource(cls._solve))).body[0]
    except (OSError, TypeError, SyntaxError, IndexError) as e:
        code["why"].append(f"source unavailable: {e}")
        return code
    loop = next((n for n in fn.body if isinstance(n, ast.For) and isinstance(n.target, ast.Name)), None)
    if loop is None:
        code["why"].append("no top-level for loop")
        return code
    it = loop.target.id
    pre = fn.body[: fn.body.index(loop)]
    post = fn.body[fn.body.index(loop) + 1:]
    tries = [n for n in loop.body if isinstance(n, ast.Try)]
    if len(tries) != 1 or len(tries[0].handlers) != 1:
        code["why"].append("loop body is not a single try/except")
        return code
    tr, handler = tries[0], tries[0].handlers[0]
    if not any(isinstance(n, ast.Break) for n in handler.body):
        code["why"].append("handler does not break")
        return code
    # which variable is the returned iterate: the flux if the solution is rebuilt from it after the loop
    post_src = "\n".join(ast.unparse(x) for x in post)
    tracked = "flux" if "flux.copy()" in post_src or "= flux" in post_src else "solution_i"
    code["tracked"] = tracked
    # the name the handler restores the distance from, and where it is refreshed: at the top of every pass (before the try) or
    # by a statement of the body (effect commitDist)
    h_pre = {name: n for name, n in _names_assigned(handler.body)}
    saved_dist = h_pre["new_distance"].value.id if "new_distance" in h_pre and isinstance(h_pre["new_distance"].value, ast.Name) else None
    before_try0 = loop.body[: loop.body.index(tr)]
    code["saveDistBeforeTry"] = saved_dist is not None and any(name == saved_dist for name, _ in _names_assigned(before_try0))
    code["saved_dist"] = saved_dist
    code["bodies"] = _bodies(tr.body, it, tracked, None if code["saveDistBeforeTry"] else saved_dist)
    # what follows the loop: a linear solve inside try/except (its failure only marks the pressure), a bare one, or none
    post_kind = "none"
    for st in post:
        if isinstance(st, ast.Try) and "linear_solve" in _self_calls(st):
            marks = any("nan" in ast.unparse(h).lower() for h in st.handlers)
            post_kind = "guarded" if marks and not any(isinstance(n, ast.Raise) for h in st.handlers for n in ast.walk(h)) else "unguarded"
        elif not isinstance(st, ast.Try) and "linear_solve" in _self_calls(st):
            post_kind = "unguarded"
    code["post"] = post_kind
    # converged
    conv = None
    for st in post:
        if isinstance(st, ast.Assign) and isinstance(st.value, ast.Dict):
            for k, v in zip(st.value.keys, st.value.values):
                if isinstance(k, ast.Constant) and k.value == "converged":
                    conv = v
    if isinstance(conv, ast.Name):
        flag = conv.id
        pre_assign = [n for name, n in _names_assigned(pre) if name == flag]
        all_assign = [n for name, n in _names_assigned(fn.body) if name == flag]
        trues = [n for n in all_assign if isinstance(n, ast.Assign) and isinstance(n.value, ast.Constant) and n.value.value is True]
        ok_pre = bool(pre_assign) and all(isinstance(n, ast.Assign) and isinstance(n.value, ast.Constant) and n.value.value is False for n in pre_assign)
        ok_site = False
        if len(all_assign) == len(pre_assign) + 1 and len(trues) == 1:
            for node in ast.walk(tr):
                if _is_criteria(node, it) and trues[0] in node.body and isinstance(node.body[-1], ast.Break) and not node.orelse:
                    ok_site = True
        code["flagOnBreak"] = ok_pre and ok_site
        if not code["flagOnBreak"]:
            code["why"].append(f"{flag} is not a flag set only next to the criteria break")
    else:
        code["why"].append("converged = " + (ast.unparse(conv) if conv is not None else "<missing>"))
    # handler restores from names saved before the try (or carried from before the loop)
    h_assign = {name: n for name, n in _names_assigned(handler.body)}
    before_try = loop.body[: loop.body.index(tr)]
    saved_before = {name for name, _ in _names_assigned(before_try)} | {name for name, _ in _names_assigned(pre)}

    def restored(name):
        n = h_assign.get(name)
        return n is not None and isinstance(n.value, ast.Name) and n.value.id in saved_before and n.value.id != name

    code["restoreSol"] = restored(tracked)
    code["restoreDist"] = restored("new_distance")
    # copy vs alias: if the body writes the iterate IN PLACE (augmented assignment or assignment through a subscript), what the
    # handler restores from must have been bound to a copy (`x.copy()`, `np.copy(x)`, `np.array(x)`); a mere re-binding of the
    # name in the body leaves an alias intact
    in_place = False
    for n in ast.walk(tr):
        if isinstance(n, ast.AugAssign):
            tgt = n.target
            while isinstance(tgt, ast.Subscript):
                tgt = tgt.value
            in_place |= isinstance(tgt, ast.Name) and tgt.id == tracked
        elif isinstance(n, ast.Assign):
            for t in n.targets:
                for e in (t.elts if isinstance(t, ast.Tuple) else [t]):
                    if isinstance(e, ast.Subscript):
                        while isinstance(e, ast.Subscript):
                            e = e.value
                        in_place |= isinstance(e, ast.Name) and e.id == tracked
    is_copy = False
    if code["restoreSol"]:
        src_name = h_assign[tracked].value.id
        saves = [n for name, n in _names_assigned(before_try) if name == src_name and isinstance(n, ast.Assign)] or \
                [n for name, n in _names_assigned(pre) if name == src_name and isinstance(n, ast.Assign)]
        if saves:
            v = saves[-1].value
            is_copy = isinstance(v, ast.Call) and isinstance(v.func, ast.Attribute) and v.func.attr in ("copy", "array", "deepcopy")
    code["saveIsCopy"] = bool(code["restoreSol"] and (is_copy or not in_place))
    code["in_place"], code["save_is_copy_call"] = in_place, is_copy
    if not code["saveIsCopy"]:
        code["why"].append(f"{tracked} is updated in place but the handler restores it from an alias, not a copy")
    if not code["restoreSol"]:
        code["why"].append(f"handler does not restore {tracked}")
    if not code["restoreDist"]:
        code["why"].append("handler does not restore new_distance")
    nd = [n for name, n in _names_assigned(pre) if name == "new_distance"]
    code["distInit"] = bool(nd) and not any(isinstance(n.value, ast.Constant) for n in nd if isinstance(n, ast.Assign))
    if not code["distInit"]:
        code["why"].append("new_distance is initialised with a constant")
    code["iterInit"] = any(name == it for name, _ in _names_assigned(pre))
    if not code["iterInit"]:
        code["why"].append(f"{it} unbound for num_iter = 0")
    return code


def _lean_code(code) -> str:
    bodies = ",\n     ".join("[" + ", ".join(f"⟨.{l}, .{e}⟩" for l, e in b) + "]" for b in code["bodies"])
    fl = lambda k: "true" if code[k] else "false"
    return ("{ bodies := [" + bodies + "],\n    restoreSol := " + fl("restoreSol") + ", restoreDist := " + fl("restoreDist") +
            ", flagOnBreak := " + fl("flagOnBreak") + ", distInit := " + fl("distInit") + ", iterInit := " + fl("iterInit") + ", saveIsCopy := " + fl("saveIsCopy") +
            ",\n    saveDistBeforeTry := " + fl("saveDistBeforeTry") + ", post := ." + code["post"] + " }")


def emit(codes) -> str:
    return "\n".join([
        "import DarsiaModel.SolveLoop", "namespace Darsia.Gen", "open Darsia.SolveLoop", "",
        "/-- `WassersteinDistanceNewton._solve`: try-body statements in source order and handler / flag / initialisation facts,",
        "extracted from its AST -/",
        "def newtonCode : LoopCode :=\n  " + _lean_code(codes["newton"]), "",
        "/-- `WassersteinDistanceBregman._solve` (body 0: regularisation update, body 1: relaxation step) -/",
        "def bregmanCode : LoopCode :=\n  " + _lean_code(codes["bregman"]), "",
        "def codeOf : Method → LoopCode", "  | .newton => newtonCode", "  | .bregman => bregmanCode", "",
        "end Darsia.Gen", ""])


class Injected(RuntimeError):
    pass


class Config(dict):
    __getattr__ = dict.get

    def key(self):
        return tuple(sorted((k, str(v)) for k, v in self.items()))


def masses(cfg, rng_np):
    shape = tuple(cfg.shape)
    if cfg.masses == "dense":
        m1 = rng_np.uniform(0.1, 1.0, size=shape)
        m2 = rng_np.uniform(0.1, 1.0, size=shape)
    elif cfg.masses == "compact":
        m1, m2 = np.zeros(shape), np.zeros(shape)
        lo = tuple(slice(0, max(1, s // 2)) for s in shape)
        hi = tuple(slice(s - max(1, s // 2), s) for s in shape)
        m1[lo] = rng_np.uniform(0.5, 1.0, size=m1[lo].shape)
        m2[hi] = rng_np.uniform(0.5, 1.0, size=m2[hi].shape)
    elif cfg.masses == "centre-zero" and sum(1 for n in shape if n > 1) == 1 and max(shape) >= 4:
        # quasi-1-D grid: the mass-conserving flux is unique (prefix sums). Masses are derived from a random dyadic face flux with
        # two opposite neighbouring entries, so that the flux reconstructed at one cell CENTRE vanishes while no face flux does
        n = max(shape)
        uf = np.array([rng_np.integers(1, 9) / 8.0 * rng_np.choice([-1.0, 1.0]) for _ in range(n - 1)])
        j = int(rng_np.integers(0, n - 2))
        uf[j + 1] = -uf[j]
        fdiff = np.diff(np.concatenate([[0.0], uf, [0.0]]))  # net outflow per cell
        m1 = (np.maximum(-fdiff, 0) + 0.25).reshape(shape)
        m2 = (np.maximum(fdiff, 0) + 0.25).reshape(shape)
        return m1, m2
    elif cfg.masses in ("dipole", "centre-zero"):
        # mass difference (-1, +2, -1) along the first axis with more than two cells: the two face fluxes around the middle cell
        # are opposite, so the flux reconstructed at that cell's centre vanishes although no face flux does
        m1 = np.full(shape, 0.5)
        m2 = np.full(shape, 0.5)
        ax = next((a for a, n in enumerate(shape) if n >= 3), None)
        if ax is not None:
            sl = [slice(None)] * len(shape)
            for pos, (a1, a2) in enumerate(((1.0, 0.0), (0.0, 2.0), (1.0, 0.0))):
                sl[ax] = pos
                m1[tuple(sl)] += a1
                m2[tuple(sl)] += a2
    else:  # single cell
        m1, m2 = np.zeros(shape), np.zeros(shape)
        m1[tuple(0 for _ in shape)] = 1.0
        m2[tuple(s - 1 for s in shape)] = 1.0
    m2 *= m1.sum() / m2.sum()
    return m1, m2


def tols(cfg):
    """(tol_residual, tol_increment, tol_distance): `tol_mode` makes one criterion the binding one (the others are left at
    their non-restrictive default) so that each clause of the stopping rule is exercised on its own"""
    big = float(np.finfo(float).max)
    mode = cfg.tol_mode or "all"
    return (cfg.tol if mode in ("all", "residual") else big, cfg.tol if mode in ("all", "increment") else big,
            cfg.tol if mode in ("all", "distance") else big)


def build(d, cfg, num_iter=None):
    W = d.measure.wasserstein
    shape = tuple(cfg.shape)
    dim = len(shape)
    voxel = list(cfg.voxel)
    grid = d.Grid(shape=shape, voxel_size=voxel)
    dims = [s * v for s, v in zip(shape, voxel)]
    rng_np = np.random.default_rng(cfg.mseed)
    m1, m2 = masses(cfg, rng_np)
    i1 = d.Image(m1, space_dim=dim, dimensions=dims, scalar=True)
    i2 = d.Image(m2, space_dim=dim, dimensions=dims, scalar=True)
    weight = None
    if cfg.weighted:
        weight = d.Image(rng_np.uniform(0.5, 2.0, size=shape), space_dim=dim, dimensions=dims, scalar=True)
    opts = dict(
        return_info=True, num_iter=cfg.num_iter if num_iter is None else num_iter, formulation=cfg.formulation, linear_solver=cfg.solver,
        l1_mode=getattr(W.L1Mode, cfg.l1), mobility_mode=getattr(W.MobilityMode, cfg.mobility), aa_depth=cfg.aa, aa_restart=cfg.aa_restart,
        tol_residual=tols(cfg)[0], tol_increment=tols(cfg)[1], tol_distance=tols(cfg)[2],
        L=cfg.L,
    )
    if cfg.verbose:
        opts["verbose"] = True
    if cfg.solver in ("amg", "cg"):
        opts["linear_solver_options"] = {"rtol": 1e-10, "atol": 1e-10 if cfg.solver == "amg" else 0.0, "maxiter": 500}
    if cfg.method == "bregman_adaptive":
        opts["bregman_update"] = lambda it: it % 2 == 1
    cls = W.WassersteinDistanceNewton if cfg.method == "newton" else W.WassersteinDistanceBregman
    return cls(grid, weight, opts), i1, i2, opts


class RaisingCallable:
    """wraps a bound method / callable object of the live solver; raises at its `at`-th call"""

    def __init__(self, inner, at, what):
        self.inner, self.at, self.n, self.what, self.fired = inner, at, 0, what, False

    def __call__(self, *a, **k):
        n = self.n
        self.n += 1
        if n == self.at:
            self.fired = True
            raise Injected(f"injected failure in {self.what}")
        return self.inner(*a, **k)


class RecordingAnderson:
    """pass-through wrapper of the live Anderson object: notes whether the least-squares problem it solves is numerically
    rank-deficient, i.e. a column `fk - fkm1` of its history is rounding noise relative to the iterate (stagnating fixed-point
    iteration) - the situation of the recorded Anderson finding"""

    def __init__(self, inner):
        self.inner, self.prev_f, self.degenerate = inner, None, False

    def __call__(self, gk, fk, iteration):
        g, f = np.asarray(gk, dtype=float), np.asarray(fk, dtype=float)
        if self.prev_f is not None and iteration > 0 and self.prev_f.shape == f.shape:
            scale = max(float(np.abs(g).max()) if g.size else 0.0, 1e-300)
            if float(np.abs(f - self.prev_f).max() if f.size else 0.0) <= 1e-9 * scale:
                self.degenerate = True
        self.prev_f = f.copy()
        return self.inner(gk, fk, iteration)


class FaultyTol(float):
    """a tolerance whose use in the stopping criteria (`tol * history[0]`) raises at the `at`-th evaluation"""

    def __new__(cls, value, at):
        o = super().__new__(cls, value)
        o.at, o.n, o.fired = at, 0, False
        return o

    def __mul__(self, other):
        n = self.n
        self.n += 1
        if n == self.at:
            self.fired = True
            raise Injected("injected failure in the evaluation of the stopping criteria")
        return float(self) * other


# program points that can be made to raise from the harness (no source hook): label of the statement in the generated
# loop body, attribute of the live solver object that is wrapped, and the call index that corresponds to pass j
POINTS = ("assemble", "regularisation", "linearSolve", "setup", "shrink", "anderson", "distance", "timings", "criteria")
POINT_LABEL = {"setup": "linearSolve"}


def is_update_pass(cfg, j):
    return cfg.method == "bregman_adaptive" and j % 2 == 1


def injection(cfg, point, j):
    """(attribute, call index) to make `point` raise in pass j, or None when that point is not executed in pass j"""
    newton = cfg.method == "newton"
    if point == "assemble":
        return ("jacobian", j) if newton else None
    if point == "regularisation":
        return ("_update_regularization", (j - 1) // 2) if is_update_pass(cfg, j) else None
    if point == "linearSolve":
        # calls before the loop (the initial Darcy solve): counted in the clean run by `explore` (ls_pre); 1 for a bare replay
        return ("linear_solve", (cfg.get("ls_pre") if cfg.get("ls_pre") is not None else 1) + j)
    if point == "setup":
        attr = {"direct": "setup_direct_solver", "amg": "setup_amg_solver", "cg": "setup_cg_solver"}[cfg.solver]
        if newton:
            return (attr, 1 + j)  # Newton sets the solver up in every call
        return (attr, 1) if j == 0 else None  # Bregman: first use inside the loop is pass 0, later passes reuse it
    if point == "shrink":
        return None if newton else ("_shrink", 1 + j)  # call 0 initialises the Bregman variables
    if point == "anderson":
        return ("anderson", j) if cfg.aa else None
    if point == "distance":
        return ("l1_dissipation", 1 + j)  # call 0 is the distance of the initial iterate
    if point == "timings":
        return ("_analyze_timings", j)
    if point == "criteria":
        return ("tol", j - 2) if j >= 2 else None  # the criteria are evaluated for iter > 1 only
    return None


def run_solver(d, cfg, fault=None, num_iter=None):
    """fault = None | (point, j). Returns dict or Raised."""
    def go():
        w, i1, i2, opts = build(d, cfg, num_iter)
        cap = {}
        orig_solve = w._solve

        def solve(*a_, **k_):
            r = orig_solve(*a_, **k_)
            x = a_[0] if a_ else next(iter(k_.values()))
            cap["mass_diff"] = np.array(x, dtype=float, copy=True)
            cap["distance"], cap["solution"], cap["info"] = r[0], np.array(r[1], dtype=float, copy=True), r[2]
            return r

        w._solve = solve
        cap["cost"] = w.l1_dissipation  # the unwrapped method, for the oracle
        # pass-through recorders (installed before any fault wrapper): the iterate at the start of every Newton pass (argument
        # of `jacobian`) and the flux whose distance is evaluated (argument of `l1_dissipation`: initial iterate, then one per pass)
        recd = {"start": [], "flux": []}
        cap["rec"] = recd
        if cfg.method == "newton":
            jac0 = w.jacobian
            cap["jacobian"] = jac0

            def jac_rec(*a_, _j=jac0, **k_):
                recd["start"].append(np.array(a_[0] if a_ else next(iter(k_.values())), dtype=float, copy=True))
                return _j(*a_, **k_)

            w.jacobian = jac_rec
        l10 = w.l1_dissipation

        def l1_rec(*a_, _l=l10, **k_):
            recd["flux"].append(np.array(a_[0] if a_ else next(iter(k_.values())), dtype=float, copy=True))
            return _l(*a_, **k_)

        w.l1_dissipation = l1_rec
        rec_aa = None
        if w.anderson is not None:
            rec_aa = RecordingAnderson(w.anderson)
            w.anderson = rec_aa
        n_ls = [0]
        ls0 = w.linear_solve

        def ls_count(*a, _l=ls0, **k):
            n_ls[0] += 1
            return _l(*a, **k)

        w.linear_solve = ls_count
        cap["n_linear_solves"] = n_ls
        injected = None
        if fault is not None and fault[0] == "post":
            # the solve AFTER the loop (Bregman's pressure post-processing): the `fault[1]`-th linear solve of the run
            injected = w.linear_solve = RaisingCallable(w.linear_solve, fault[1], "linear_solve (post-loop)")
        elif fault is not None:
            inj = injection(cfg, fault[0], fault[1])
            if inj is None:
                return None
            attr, at = inj
            if attr == "tol":
                key = "tol_residual" if cfg.method == "newton" else "tol_increment"
                injected = w.options[key] = FaultyTol(w.options[key], at)
            else:
                injected = RaisingCallable(getattr(w, attr), at, attr)
                setattr(w, attr, injected)
        np.random.seed(12345)  # pyamg draws random vectors; make repeated runs comparable
        with warnings.catch_warnings(record=True) as rec:
            warnings.simplefilter("always")
            out = w(i1, i2)
        # whether the loop was left early / the post-processing failed is NEVER read from the wording of a warning: the harness
        # knows whether its own injected fault fired; otherwise public data decide (a warning of the library was raised at all,
        # not converged, fewer history entries than num_iter; NaN pressure marker with a finite flux)
        any_warning = any("darsia" in str(getattr(x, "filename", "")) and issubclass(x.category, UserWarning) for x in rec)
        fired = bool(injected is not None and getattr(injected, "fired", False))
        cap["fired"] = fired
        info_ = cap.get("info") or {}
        n_hist = len((info_.get("convergence_history") or {}).get("distance", []))
        n_max = cfg.num_iter if num_iter is None else num_iter
        cap["warned"] = (fired and fault[0] != "post") or (fault is None and any_warning and not bool(info_.get("converged")) and n_hist < n_max)
        sol_ = cap.get("solution")
        nf_ = int(w.grid.num_faces)
        cap["pp_failed"] = bool(any_warning and sol_ is not None and sol_.size > nf_ and np.all(np.isfinite(sol_[:nf_]))
                                and not np.any(np.isfinite(sol_[nf_:nf_ + int(w.grid.num_cells)])))
        cap["w"], cap["out"], cap["opts"] = w, out, opts
        cap["aa_degenerate"] = bool(rec_aa is not None and rec_aa.degenerate)
        # magnitude of the integrated masses: the source f = M (m2 - m1) carries a rounding error of eps times this
        cap["mass_scale"] = float(max(np.abs(w.mass_matrix_cells @ np.ravel(np.abs(i1.img), "F")).max(),
                                      np.abs(w.mass_matrix_cells @ np.ravel(np.abs(i2.img), "F")).max()))
        return cap

    import contextlib
    import io

    try:
        with contextlib.redirect_stdout(io.StringIO()):
            return go()
    except Exception as e:  # noqa: BLE001
        return Raised(e)


def recomputed(cfg, cap):
    """residual / flux increment (Newton) and mass-conservation residual (Bregman) recomputed from the captured iterates:
    residual_j = || rhs - J(x_j) x_j ||_2 with x_j the iterate at the start of pass j, flux increment_j = || u_{j+1} - u_j ||_2,
    mass residual_j = || D u_{j+1} - f ||_2 / || f ||_2"""
    w, rec = cap["w"], cap.get("rec", {})
    nf = int(w.grid.num_faces)
    fm = np.asarray(w.mass_matrix_cells @ cap["mass_diff"], dtype=float)
    out = {"residual": [], "flux_increment": [], "mass_conservation_residual": []}
    fluxes = rec.get("flux", [])
    if cfg.method == "newton":
        rhs = np.concatenate([np.zeros(nf), fm, [0.0]])
        for j, x in enumerate(rec.get("start", [])):
            J = call(cap["jacobian"], x)
            if isinstance(J, Raised):
                break
            dg = np.abs(np.asarray(J.diagonal()[:nf], dtype=float))
            mf = np.abs(np.asarray(w.mass_matrix_faces.diagonal(), dtype=float)) if nf else np.ones(0)
            umax = float(np.abs(x[:nf]).max()) if nf else 0.0
            # a weight w_e = (cell weight)^2 / |cell flux| that is 1e10 times larger than 1 / max|u|: some reconstructed cell flux
            # is below 1e-10 of the flux scale (relative criterion; also when ALL cell-centre fluxes vanish)
            if nf and float((dg / mf).max()) * max(umax, 1e-300) > 1e10:
                out["degenerate"] = True  # weights up to 1/regularisation: J x is dominated by rounding, recomputation meaningless
            out["residual"].append(float(np.linalg.norm(rhs - J @ x)))
            if j + 1 < len(fluxes):
                out["flux_increment"].append(float(np.linalg.norm(fluxes[j + 1] - x[:nf])))
    else:
        nrm = float(np.linalg.norm(fm))
        for u in fluxes[1:]:
            with np.errstate(all="ignore"):
                out["mass_conservation_residual"].append(float(np.linalg.norm(w.div @ u - fm)) / nrm if nrm else float("nan"))
    return out


def criteria_met_at(cfg, hist, i, rc=None, lenient=False):
    """documented stopping rule evaluated on entry i of the convergence history (pass i)."""
    tr, ti, td = tols(cfg)
    with np.errstate(all="ignore"):
        try:
            # the distance increment is recomputed from the reported distances (not read back from the stored increments);
            # pass 0 compares with the initial iterate, whose distance is not part of the history: stored value used there
            dinc = abs(hist["distance"][i] - hist["distance"][i - 1]) if i >= 1 else hist["distance_increment"][i]
            stored_only = dict(hist)
            if i >= 1 and not abs(dinc - hist["distance_increment"][i]) <= 1e-12 * max(abs(hist["distance"][i]), 1e-300):
                # the stored increment does not belong to the reported distances (another normalisation of the stored history is
                # allowed): the criterion counts as met if the stored OR the recomputed value meets it
                dinc = min(dinc, abs(hist["distance_increment"][i]))
            # residual / flux increment / mass residual: the values recomputed from the captured iterates replace the stored
            # ones (a stored value that does not belong to the iterates makes the criteria count as not met)
            h2 = dict(hist)
            for key in ("residual", "flux_increment", "mass_conservation_residual"):
                if rc and rc.get("degenerate"):
                    continue  # degenerate mobility: J x and the captured iterates are dominated by rounding; stored values are used
                if rc and len(rc.get(key, [])) > i and key in hist and len(hist[key]) > i:
                    mine, theirs = np.array(rc[key][: i + 1]), np.array(hist[key][: i + 1], dtype=float)
                    ok_ = np.all(np.abs(mine[[0, i]] - theirs[[0, i]]) <= 1e-7 * np.maximum(np.abs(mine[[0, i]]), 1e-300) + 1e-13)
                    if not ok_:
                        continue  # stored and recomputed disagree: both are tried below (lenient), no verdict from the mismatch itself
                    h2[key] = list(mine)

            def met(hh):
                # strict `<` is the rule as coded (loop-model tie: events); whether the rule is strict is not part of the property
                # (lenient: `<=`, used by the honest-status clause)
                lt = (lambda a_, b_: a_ <= b_) if lenient else (lambda a_, b_: a_ < b_)
                if cfg.method == "newton":
                    return bool(lt(hh["residual"][i], tr * hh["residual"][0]) and lt(hh["flux_increment"][i], ti * hh["flux_increment"][0])
                                and lt(dinc, td))
                return bool(lt(hh["aux_force_increment"][i], ti * hh["aux_force_increment"][0])
                            and lt(dinc / hh["distance"][i], td) and lt(hh["mass_conservation_residual"][i], tr))
            return met(h2) or met(stored_only)
        except (KeyError, IndexError):
            return False


def fault_token(cfg, point, j):
    branch = 0 if cfg.method == "newton" else (0 if is_update_pass(cfg, j) else 1)
    return f"f:{branch}:{POINT_LABEL.get(point, point)}"


def events_of(cfg, cap, fault, num_iter):
    """event sequence of a run reconstructed from public information"""
    hist = cap["info"].get("convergence_history", {})
    n_done = len(hist.get("distance", []))
    if fault is not None and fault[0] in ("timings", "criteria") and fault[1] < n_done:
        # the history entry of the failing pass was appended before the exception: that pass did not complete
        n_done = fault[1] if cap.get("fired") else n_done
    br = lambda i: 0 if cfg.method == "newton" else (0 if is_update_pass(cfg, i) else 1)
    rc = recomputed(cfg, cap) if "w" in cap else None
    cap["rc"] = rc
    cap["recomputed_lengths"] = {k: len(v) for k, v in (rc or {}).items() if isinstance(v, list)}
    cap["degenerate_iterates"] = bool(rc and rc.get("degenerate"))
    ev = [("ok1" if criteria_met_at(cfg, hist, i, rc) else "ok0") + f":{br(i)}" for i in range(n_done)]
    broke = n_done > 0 and n_done - 1 > 1 and ev[-1].startswith("ok1")
    if not broke and n_done < num_iter:
        if fault is not None and fault[0] != "post" and cap.get("fired"):
            ev.append(fault_token(cfg, fault[0], n_done))
        elif cap["warned"]:
            # a failure that was not injected (e.g. singular weights); program point unknown, sound code treats all alike
            ev.append(fault_token(cfg, "linearSolve", n_done))
        elif isinstance(cap["distance"], float) and np.isnan(cap["distance"]):
            ev.append("nan")
    if fault is not None and fault[0] == "post":
        ev.append("post")
    return ev, n_done


def mass_balance(cap):
    w = cap["w"]
    nf = int(w.grid.num_faces)
    u = cap["solution"][:nf]
    f = np.asarray(w.mass_matrix_cells @ cap["mass_diff"], dtype=float)
    div = w.div
    err = float(np.abs(div @ u - f).max()) if f.size else 0.0
    scale = float((abs(div) @ np.abs(u)).max() + np.abs(f).max()) if f.size and nf else float(np.abs(f).max() if f.size else 0.0)
    return err, scale, u, f


# ---------------------------------------------------------------------------------------------


def check_run(ctx, d, cfg, cap, fault, num_iter, label):
    """per-run oracle; returns (converged, number_iterations, dist_is_cost, n_done, events)"""
    w, info = cap["w"], cap["info"]
    nf, nc = int(w.grid.num_faces), int(w.grid.num_cells)
    sig0 = f"C04:{cfg.method}._solve"
    rp = {"kind": "run", "cfg": dict(cfg), "fault": list(fault) if fault else None, "num_iter": num_iter}
    ev, n_done = events_of(cfg, cap, fault, num_iter)
    faulted = bool(ev) and ev[-1].startswith("f:")
    post_injected = fault is not None and fault[0] == "post"
    converged = bool(info.get("converged"))
    dist = cap["distance"]
    # (1) mass balance of the returned flux
    err, scale, u, f = mass_balance(cap)
    iterative = cfg.solver in ("amg", "cg")
    # direct back-ends: backward-stable solve of a system whose unknowns and data have magnitude `scale`
    # (|D||u| + |f|, plus the masses the source is the difference of); iterative: configured rtol 1e-10 x ||f||, margin 100
    # mobility weights of the returned flux (what the next / last linear system is weighted with): when a cell-centre flux
    # vanishes they reach 1/regularisation and the Schur complement D W^-1 D^T is numerically singular ("degenerate mobility").
    # The LU solve is then still backward stable, but relative to |D| W^-1 |D^T| |p| with a huge pressure in the decoupled
    # cells: that term is part of the linear-solver precision of the direct back-end.
    fw = call(lambda: w._compute_face_weight(u)[0]) if nf else np.ones(0)
    degenerate, sp_term = False, 0.0
    if not isinstance(fw, Raised) and nf and np.all(np.isfinite(fw)) and float(np.min(np.abs(fw))) > 0:
        Wd = np.abs(np.asarray(fw, dtype=float)) * np.abs(np.asarray(w.mass_matrix_faces.diagonal(), dtype=float))
        degenerate = float(np.abs(np.asarray(fw, dtype=float)).max()) * max(float(np.abs(u).max()), 1e-300) > 1e10
        pabs = np.abs(cap["solution"][nf:nf + nc])
        pabs = np.where(np.isfinite(pabs), pabs, 0.0)
        aD = abs(w.div)
        sp_term = float((aD @ ((aD.T @ pabs) / Wd)).max())
    # the tolerance does NOT grow with the conditioning: on degenerate-mobility inputs a miss is reported under a signature
    # that carries the back-end and the measured magnitude class (relative to max|f|), so only misses of the recorded size are
    # known findings and a gross violation is still a violation
    tol = 1e4 * EPS * max(scale + cap.get("mass_scale", 0.0), 1e-300) * max(nf + nc, 1) \
        + (1e-8 * float(np.linalg.norm(f)) if iterative else 0.0)
    ctx.cov["max_sp_term_degenerate"] = max(ctx.cov.get("max_sp_term_degenerate", 0.0), sp_term if degenerate else 0.0)
    if err <= tol:
        ctx.cov["max_balance_err_over_tol"] = max(ctx.cov.get("max_balance_err_over_tol", 0.0), err / tol)
    else:
        ctx.cov["max_balance_err_of_failing_runs"] = max(ctx.cov.get("max_balance_err_of_failing_runs", 0.0), err)
    colsum = float(np.abs(np.asarray(w.div.sum(axis=0))).max()) if nf else 0.0
    ctx.cov["max_abs_colsum_D"] = max(ctx.cov.get("max_abs_colsum_D", 0.0), colsum)
    if not err <= tol:
        # input class in the signature: Anderson on/off and full vs. reduced formulation (see findings/C04.json)
        # input class in the signature: Anderson off / on / on with a numerically rank-deficient least-squares problem (the
        # recorded finding is only the last one), and full vs. reduced formulation
        # no mask for Anderson-on runs: the degenerate least-squares blow-up is repaired upstream (column filter); whether the
        # run stagnated is recorded as a diagnostic only
        aa_cls = "off" if not cfg.aa else "on"
        if cap.get("aa_degenerate"):
            ctx.cov["mass_balance_failures_in_stagnating_anderson_runs"] = ctx.cov.get("mass_balance_failures_in_stagnating_anderson_runs", 0) + 1
        rel = err / max(float(np.abs(f).max()) if f.size else 0.0, 1e-300)
        # iterative back-ends: the size of a CG / AMG miss on a numerically singular system is essentially random (a bucket edge
        # cannot separate "recorded" from "new"): class = back-end + degenerate mobility. Direct back-end: the LU solve stays
        # within a conditioning-limited precision (max 0.31 max|f| over 360 clean runs): a gross-error bound of 2 max|f| is kept
        ctx.cov["max_rel_miss_degenerate_direct"] = max(ctx.cov.get("max_rel_miss_degenerate_direct", 0.0), rel if (not iterative and np.isfinite(rel) and (degenerate or cap.get("degenerate_iterates"))) else 0.0)
        bucket = "" if iterative else (":rel<=2" if (np.isfinite(rel) and rel <= 2.0) else ":gross")
        deg = f":degenerate-mobility:{cfg.solver}{bucket}" if (degenerate or cap.get("degenerate_iterates")) else ""
        ctx.fail(f"{sig0}:mass-balance:anderson={aa_cls}:{'full' if cfg.formulation == 'full' else 'reduced'}-formulation{deg}",
                 f"returned flux violates the discrete mass balance: |D u - f|_inf = {err:.3e} > {tol:.3e} ({label})", rp)
    # (2) reported distance is the cost of exactly the returned flux
    cost = call(cap.get("cost", w.l1_dissipation), u)
    dist_is_cost = (not isinstance(cost, Raised)) and (
        (np.isnan(dist) and np.isnan(cost)) or abs(float(dist) - float(cost)) <= 64 * EPS * max(abs(float(cost)), 1e-300))
    if not dist_is_cost:
        ctx.fail(f"{sig0}:distance!=cost(returned flux)" + (":after-fault" if faulted else ""),
                 f"reported distance {dist!r} is not the transport cost {cost!r} of the returned flux ({label})", rp)
    # (3) auxiliary outputs derive from the same solution
    out = cap["out"]
    if not (isinstance(out, tuple) and len(out) == 2 and (out[0] == dist or (np.isnan(dist) and np.isnan(out[0])))):
        ctx.fail(f"{sig0}:__call__-distance", f"__call__ returns a distance different from _solve's ({label})", rp)
    p = cap["solution"][nf:nf + nc]
    aux = {
        "flux": call(d.face_to_cell, w.grid, u),
        "pressure": p.reshape(w.grid.shape, order="F"),
        "transport_density": call(w.transport_density, u, flatten=False),
    }
    # the statement names cell flux, transport density and pressure; "derive from the same solution" allows another evaluation
    # order: 64 eps x scale. A re-evaluation the harness itself cannot perform is a broken tie, not a failing input
    for key, ref in aux.items():
        got = info.get(key)
        if isinstance(ref, Raised):
            ctx.mark("TIE-BROKEN", {"correspondence": f"aux output {key}: harness re-evaluation raises", "detail": repr(ref)[:200]})
            continue
        ref_ = np.asarray(ref, dtype=float)
        sc = float(np.nanmax(np.abs(ref_))) if ref_.size and np.any(np.isfinite(ref_)) else 0.0
        if got is None or np.shape(got) != np.shape(ref_) or not np.allclose(np.asarray(got, dtype=float), ref_, rtol=0.0, atol=64 * EPS * max(sc, 1e-300), equal_nan=True):
            ctx.fail(f"{sig0}:aux({key})", f"info['{key}'] is not derived from the returned flat solution ({label})", rp)
    # keys the statement does not name (tied to the model's callOut in aux_correspondence): broken tie only
    wf = call(w.cell_weighted_flux, aux["flux"]) if not isinstance(aux["flux"], Raised) else aux["flux"]
    gotw = info.get("weighted_flux")
    if not isinstance(wf, Raised) and not (gotw is not None and np.shape(gotw) == np.shape(wf) and np.allclose(np.asarray(gotw, dtype=float), np.asarray(wf, dtype=float), rtol=0.0, atol=64 * EPS * max(float(np.nanmax(np.abs(wf))) if np.size(wf) else 0.0, 1e-300), equal_nan=True)):
        ctx.mark("TIE-BROKEN", {"correspondence": "aux output weighted_flux (not named by the statement)", "run": label[:200]})
    md = info.get("mass_diff")
    if md is None or np.size(md) != np.size(cap["mass_diff"]) or not np.array_equal(np.ravel(md, "F"), cap["mass_diff"]):
        ctx.mark("TIE-BROKEN", {"correspondence": "aux output mass_diff (not named by the statement)", "run": label[:200]})
    k = int(w.constrained_cell_flat_index)
    finite_p = p[np.isfinite(p)]
    if finite_p.size != p.size:
        ctx.cov["runs_with_nonfinite_pressure"] = ctx.cov.get("runs_with_nonfinite_pressure", 0) + 1
        umax = float(np.abs(u).max()) if nf else 0.0
        vanishing_face = nf > 0 and bool(np.any(np.abs(u) <= 1e-12 * max(umax, 1e-300)))
        if post_injected and cap.get("pp_failed") and finite_p.size == 0:
            pass  # specified behaviour (post_loop_failure_only_marks_pressure): NaN marker after an injected post-loop failure
        elif cfg.method != "newton" and cap.get("pp_failed") and finite_p.size == 0 and vanishing_face:
            # the documented marker of a failed pressure post-processing (singular mobility-weighted system on a face with
            # vanishing flux): "pressure pinned at the reference cell" cannot hold -> reported, exact input class in the signature
            ctx.fail(f"C04:{cfg.method}.__call__:pressure-unavailable(nan):singular-postprocessing:{cfg.mobility}",
                     f"the pressure returned by Bregman is NaN: the post-processing pressure solve failed on a returned flux with a vanishing "
                     f"face flux ({label})", rp)
        elif cap.get("degenerate_iterates") and cfg.solver in ("amg", "cg"):
            ctx.fail(f"C04:{cfg.method}._solve:pressure-non-finite:degenerate-mobility:{cfg.solver}",
                     f"the returned pressure has non-finite entries ({int(p.size - finite_p.size)} of {p.size}) after an iterative solve of a "
                     f"numerically singular (degenerate mobility) system ({label})", rp)
        else:
            ctx.fail(f"C04:{cfg.method}._solve:pressure-non-finite",
                     f"the returned pressure has non-finite entries ({int(p.size - finite_p.size)} of {p.size}) outside the documented "
                     f"post-processing failure ({label})", rp)
    elif nc:
        pk = float(abs(p[k]))
        if not pk <= 1e-10 * max(float(np.abs(p).max()), 1e-300) + 1e-300:
            ctx.fail(f"{sig0}:pressure-not-pinned", f"pressure of the reference cell is {p[k]!r}, not 0 ({label})", rp)
    # (3b) the matrices assembled in the iterates (`jacobian(x)` / `_update_regularization(u)`) differ from `darcy_init` in the
    # flux-flux block only: the mass-balance row (and every other off-diagonal block) is the same matrix row in every iterate
    # (mass_row_same_in_every_iterate; darcy_init itself is tied to the model's assembleFull in C08)
    recd = cap.get("rec", {})
    pts = recd.get("start", []) if cfg.method == "newton" else recd.get("flux", [])
    picks = [pts[i] for i in sorted({0, len(pts) // 2, len(pts) - 1})] if pts else []
    for xi in picks:
        J = call(cap["jacobian"], xi) if cfg.method == "newton" else call(lambda u_: w._update_regularization(u_)[0], xi)
        if isinstance(J, Raised):
            continue
        J, A0 = J.tocsr(), w.darcy_init.tocsr()
        same_rows = J.shape == A0.shape and (J[nf:, :] != A0[nf:, :]).nnz == 0 and (J[:nf, nf:] != A0[:nf, nf:]).nnz == 0
        blk = J[:nf, :nf].tocoo()
        diag_only = bool(np.all(blk.row == blk.col))
        ctx.cov["iterate_matrices_checked"] = ctx.cov.get("iterate_matrices_checked", 0) + 1
        if not (same_rows and diag_only):
            # hypothesis of a Lean theorem about private matrices, not a clause of the property: broken tie
            ctx.mark("TIE-BROKEN", {"correspondence": "iterate matrices = darcy_init outside the diagonal flux-flux block (mass_row_same_in_every_iterate)",
                                    "run": label[:200]})
            break
    # (4) honest status
    # (neither the `iter > 1` guard nor the strictness of the current rule is demanded)
    met_last = n_done > 0 and (ev[n_done - 1].startswith("ok1") or criteria_met_at(cfg, info.get("convergence_history", {}), n_done - 1, cap.get("rc"), lenient=True))
    if converged and (faulted or cap["warned"] or not met_last):
        why = "an inner step failed" if (faulted or cap["warned"]) else "the stopping criteria were not met"
        ctx.fail(f"{sig0}:converged-but-" + ("fault" if (faulted or cap["warned"]) else "criteria-not-met"),
                 f"info['converged'] is True although {why} (pass {n_done}, num_iter {num_iter}; {label})", rp)
    return converged, info.get("number_iterations"), dist_is_cost, n_done, ev


def same_iterate(a, b, cfg):
    tol = 1e-5 if cfg.solver in ("amg", "cg") else 1e-9
    if a.shape != b.shape or not np.array_equal(np.isfinite(a), np.isfinite(b)):
        return False
    m = np.isfinite(b)  # non-finite entries (pressure after a CG breakdown) must sit at the same places
    if not m.any():
        return True
    return bool(np.all(np.abs(a[m] - b[m]) <= tol * max(float(np.abs(b[m]).max()), 1e-300) + 1e-300))


def demote_new_failures(ctx, n_fail, n_known, why):
    """failures recorded since (n_fail, n_known) become marks: what was observed lies outside the property's quantifier (a fault
    injected at a program point other than the inner linear solve, or into the block after the loop) - a broken tie between
    loop model and code, never a claimed failing input"""
    for f in ctx.failures[n_fail:]:
        ctx.mark("TIE-BROKEN", {"correspondence": why, "signature": f["signature"], "what": f["what"][:300]})
    del ctx.failures[n_fail:]
    del ctx.known_hits[n_known:]


def explore(ctx, d, cfg, lines, impl, has_post=True):
    """clean run + fault injections for one configuration; appends loop-correspondence lines. Only a failure of the INNER LINEAR
    SOLVE in a pass of the loop is inside the property's quantifier: the other eight program points and the solve after the loop
    exercise the loop model's tie and end in marks."""
    method = "newton" if cfg.method == "newton" else "bregman"
    N = cfg.num_iter
    trunc = {}

    def truncated(j):
        if j not in trunc:
            trunc[j] = run_solver(d, cfg, None, num_iter=j)
            ctx.cov["solver_runs"] += 1
        return trunc[j]

    post = cfg.method != "newton" and has_post  # the generated code (AST) says whether there is a block after the loop at all
    faults = [None] + [(pt, j) for j in cfg.fault_at for pt in cfg.points] + ([("post", None)] if post else [])
    clean_passes = None
    clean_cap = None
    pending = None
    for fault in faults + ["end"]:
        if pending is not None:
            demote_new_failures(ctx, *pending)
            pending = None
        if fault == "end":
            break
        if fault is not None and fault[0] != "linearSolve":
            pending = (len(ctx.failures), len(ctx.known_hits),
                       f"fault injected at program point '{fault[0]}' (outside the quantifier's inner linear solve) vs loop model")
        if fault is not None and fault[0] == "linearSolve" and clean_cap is not None and "ls_pre" not in cfg:
            # which call of linear_solve belongs to pass j is derived from the clean run: calls before the loop = all calls -
            # one per completed pass - the solve after the loop
            pre = clean_cap["n_linear_solves"][0] - clean_passes - (1 if post else 0)
            if pre < 0 or clean_passes == 0:
                ctx.mark("TIE-BROKEN", {"correspondence": "one linear solve per pass (call index of the injected fault)", "calls": clean_cap["n_linear_solves"][0],
                                        "passes": clean_passes})
                pre = None
            cfg["ls_pre"] = pre
        if fault is not None and fault[0] == "linearSolve" and cfg.get("ls_pre", 1) is None:
            continue
        if fault is not None and fault[0] == "post":
            if clean_cap is None:
                continue
            fault = ("post", clean_cap["n_linear_solves"][0] - 1)  # the last linear solve of the clean run is the one after the loop
        # in-loop faults: only into passes the loop actually executes; the solve after the loop (Bregman) has its own fault ("post")
        if fault is not None and fault[0] != "post" and (clean_passes is None or fault[1] >= clean_passes or injection(cfg, *fault) is None):
            continue
        label = f"{cfg.method} {tuple(cfg.shape)} {cfg.masses} {cfg.formulation}/{cfg.solver} {cfg.l1}/{cfg.mobility} aa={cfg.aa}{'/r' + str(cfg.aa_restart) if cfg.aa_restart else ''} fault={fault}"
        cap = run_solver(d, cfg, fault)
        ctx.cov["solver_runs"] += 1
        ctx.count(("run", cfg.key(), fault), nontrivial=int(np.prod(cfg.shape)) > 1)
        rp = {"kind": "run", "cfg": dict(cfg), "fault": list(fault) if fault else None, "num_iter": N}
        if fault is None and (isinstance(cap, Raised) or "info" not in cap):
            # every generated configuration lies inside the property's quantifier (grids with single-cell axes, all L1 /
            # mobility modes, ...): no result at all is a failure of the property, reported per (method, mobility, grid class)
            thin = "single-cell-axis" if 1 in cfg.shape else "regular"
            ctx.fail(f"C04:{cfg.method}.__call__:raises({getattr(cap, 'cls', 'no-result')}):{cfg.mobility}:{thin}",
                     f"solver raises {cap!r} on a supported configuration instead of returning a result ({label})", rp)
            break
        if isinstance(cap, Raised) or "info" not in cap:
            ctx.fail(f"C04:{cfg.method}.__call__:raises({getattr(cap, 'cls', 'no-result')})" + (":under-fault" if fault else ""),
                     f"solver raises {cap!r} instead of returning a flagged result ({label})", rp)
            continue
        conv, nit, dcost, n_done, ev = check_run(ctx, d, cfg, cap, fault, N, label)
        if fault is None:
            clean_passes = n_done
            clean_cap = cap
        seen = (fault[0] if fault else (ev[-1] if ev else "none"))
        ctx.cov["events_seen"][seen] = ctx.cov["events_seen"].get(seen, 0) + 1
        # which iterate is returned: the clean run truncated to the number of completed passes
        sol_tag = None
        for j in dict.fromkeys([n_done, max(n_done - 1, 0), n_done + 1]):
            if j > N:
                continue
            t = truncated(j) if j != N or fault is not None else cap
            nfc = int(cap["w"].grid.num_faces)
            cut = nfc if (fault is not None and fault[0] == "post") else None  # the pressure is the NaN marker then: compare fluxes
            if not isinstance(t, Raised) and "solution" in t and same_iterate(cap["solution"][:cut], t["solution"][:cut], cfg):
                sol_tag = j
                break
        dist_tag = sol_tag if dcost else ("none" if cap["distance"] == 0 else "other")
        lines.append(f"loop {method} gen {N} {len(ev)} " + " ".join(ev))
        evl = [e for e in ev if e != "post"]
        wv, nfv = cap["w"], int(cap["w"].grid.num_faces)
        pv = cap["solution"][nfv:nfv + int(wv.grid.num_cells)]
        # the NaN marker of the post-processing; any other non-finite pressure is judged by the per-run oracle, not here
        marker = cap.get("pp_failed") and not np.any(np.isfinite(pv))
        # a NaN marker WITHOUT an injected post-loop fault is the genuine singular post-processing (known finding, judged and
        # reported by the per-run oracle): the loop model has no event for it, so it is kept out of this correspondence
        ptag = "nan" if (marker and "post" in ev) else (sol_tag if sol_tag is not None else "other")
        impl.append(f"{int(conv)} {nit if nit is not None else 'none'} {dist_tag if dist_tag is not None else 'other'} "
                    f"{sol_tag if sol_tag is not None else 'other'} {int(bool(evl) and (evl[-1].startswith('f:') or evl[-1] == 'nan' or (evl[-1].startswith('ok1') and len(evl) - 1 > 1)))} {ptag}")
        if fault is not None and fault[0] == "post" and clean_cap is not None:
            # a failure after the loop must leave distance, flux and status exactly as in the clean run
            same = (cap["distance"] == clean_cap["distance"] and conv == bool(clean_cap["info"].get("converged"))
                    and np.array_equal(cap["solution"][:nfv], clean_cap["solution"][:nfv]))
            if not same:
                ctx.fail(f"C04:{cfg.method}._solve:post-loop-failure-changes-result",
                         f"a failure of the pressure post-processing after the loop changed distance / flux / status ({label})", rp)
        if ((fault is not None and fault[0] != "post") or cap["warned"]) and sol_tag != n_done:
            ctx.fail(f"C04:{cfg.method}._solve:not-last-valid-iterate",
                     f"after a failure in pass {n_done} the returned solution is not the last valid iterate (matches iterate {sol_tag}; {label})", rp)


def configs(ctx):
    rng = ctx.rng
    shapes = [(4, 5), (6,), (1, 4), (3, 3, 2), (3, 1), (2, 2, 1), (5, 3), (1,), (2, 3), (1, 1, 3), (4, 4)]
    l1s = ["RAVIART_THOMAS", "CONSTANT_SUBCELL_PROJECTION", "CONSTANT_CELL_PROJECTION"]
    mobs = ["CELL_BASED", "CELL_BASED_ARITHMETIC", "CELL_BASED_HARMONIC", "SUBCELL_BASED", "FACE_BASED"]
    pairs = [("pressure", "direct"), ("full", "direct"), ("flux_reduced", "direct"), ("pressure", "amg"), ("pressure", "cg")]
    methods = ["newton", "bregman", "bregman_adaptive"]
    n = ctx.pick(16, 160)
    out = []
    for i in range(n):
        # covering design: cycle every option list with co-prime strides, randomise the rest
        shape = shapes[i % len(shapes)] if i < 2 * len(shapes) else tuple(rng.randint(1, 5) for _ in range(rng.randint(1, 3)))
        dim = len(shape)
        method = methods[i % 3]
        cfg = Config(
            shape=list(shape), voxel=[2.0 ** rng.randint(-2, 0) for _ in range(dim)], masses=["dense", "compact", "single", "dipole", "centre-zero"][(i // 3) % 5],
            method=method, l1=l1s[(i // 2) % 3], mobility=mobs[i % 5], formulation=pairs[(i * 2 + i // 5) % 5][0], solver=pairs[(i * 2 + i // 5) % 5][1],
            aa=[0, 2][(i // 2) % 2], aa_restart=([None, 2, 3][(i // 4) % 3] if (i // 2) % 2 else None),
            weighted=bool((i // 4) % 2), mseed=rng.randint(0, 10 ** 6),
            num_iter=[5, 4, 6, 3][i % 4], tol=[1e-14, float(np.finfo(float).max), 1e-3, 1e-6][(i // 3) % 4],
            tol_mode=["all", "distance", "residual", "increment"][(i // 2) % 4],
            # Newton: L is a cut-off of the mobility; Bregman: fixed penalty parameter (the Bregman operator is scaled by 1/L,
            # the initial Darcy operator by L_init = 1, so L != 1 distinguishes the two)
            L=(1e-2 if method == "newton" else [1.0, 0.1, 2.0, 10.0, 0.5][(i // 3 + i) % 5]),
        )
        # every clause of the stopping rule is the binding one for every method in the first configurations
        must = [("newton", "distance", 1e-6), ("bregman", "increment", 1e-3), ("bregman_adaptive", "residual", 1e-6),
                ("newton", "residual", 1e-3), ("bregman", "distance", 1e-6), ("newton", "increment", 1e-3)]
        if i < len(must) and must[i][0] == method:
            cfg["tol_mode"], cfg["tol"], cfg["num_iter"] = must[i][1], must[i][2], 6
        k = cfg.num_iter
        cfg["fault_at"] = sorted({0, 1, rng.randint(2, k - 1) if k > 2 else 1}) if not ctx.big else list(range(0, min(k, 6)))
        # program points: all of them in the thorough tier; in quick the inner solve always plus a rotating pair
        cfg["points"] = list(POINTS) if ctx.big else ["linearSolve"] + [POINTS[(2 * i) % len(POINTS)], POINTS[(2 * i + 1) % len(POINTS)]]
        out.append(cfg)
    # degenerate mobility (builder b's lead): quasi-1-D grid, cell-centre flux vanishing in one cell, cell-centre L1 mode,
    # every back-end of the default formulation
    for sv in ("direct", "amg", "cg"):
        shape = [(8,), (1, 6, 1), (5, 1)][len(out) % 3]
        cfg = Config(shape=list(shape), voxel=[0.75] * len(shape), masses="centre-zero", method="newton", l1="CONSTANT_CELL_PROJECTION",
                     mobility="CELL_BASED", formulation="pressure", solver=sv, aa=0, aa_restart=None, weighted=False,
                     mseed=rng.randint(0, 10 ** 6), num_iter=6, tol=1e-10, tol_mode="all", L=1e-2)
        cfg["fault_at"] = [0, 2]
        cfg["points"] = ["linearSolve"]
        out.append(cfg)
    return out


def loop_model_selfcheck(ctx, codes):
    """the model on exhaustive small event sequences, with a fault at EVERY statement of the generated bodies, against an
    independent scan of the property statement (cross-check of driver + generated code)"""
    import itertools

    lines, expect = [], []
    for method in ("newton", "bregman"):
        labels = []
        for b, body in enumerate(codes[method]["bodies"]):
            labels += [f"f:{b}:{l}" for l in dict.fromkeys(l for l, _ in body)]
        oks = ["ok0", "ok1"] if method == "newton" else ["ok0:0", "ok1:1", "ok0:1", "ok1:0"]
        alphabet = oks + labels
        for n in range(0, 4):
            for L in range(0, n + 1):
                for ev in itertools.product(alphabet, repeat=L):
                    if sum(1 for e in ev if e.startswith("f:")) > 1 or (len(ev) > 1 and any(e.startswith("f:") for e in ev[:-1])):
                        continue
                    lines.append(f"loop {method} gen {n} {L} " + " ".join(ev))
                    cur, conv, it, stopped = 0, 0, 0, 0
                    for i in range(n):
                        e = ev[i] if i < L else "ok0"
                        it = i
                        if e.startswith("f:"):
                            stopped = 1
                            break
                        cur = i + 1
                        if i > 1 and e.startswith("ok1"):
                            conv, stopped = 1, 1
                            break
                    expect.append(f"{conv} {it} {cur} {cur} {stopped} {cur}")
    ctx.correspond("loop-model (generated bodies, fault at every statement) vs independent scan", [" ".join(l.split()) for l in lines], expect)


def aux_correspondence(ctx, d):
    """`__call__` output assembly vs the model `WAux.callOut`: `_solve` of a live solver is replaced by a stub returning a
    chosen dyadic flat solution; cell flux, weighted flux and pressure must equal the model exactly, the transport density the
    model's per-quadrature-point squared norms (sqrt and sum in float), the distance the volume-weighted sum of the density."""
    W = d.measure.wasserstein
    shapes = [(3,), (1,), (2, 3), (3, 1), (1, 4), (2, 2, 2), (1, 3, 2), (4, 3)] + ([(5,), (3, 3), (2, 1, 3), (3, 2, 2), (1, 1, 2)] if ctx.big else [])
    l1s = ["RAVIART_THOMAS", "CONSTANT_SUBCELL_PROJECTION", "CONSTANT_CELL_PROJECTION"]
    lines, cases = [], []
    for n, shape in enumerate(shapes):
        for t in range(ctx.pick(2, 4)):
            dim = len(shape)
            l1 = l1s[(n + t) % 3]
            weighted = (n + t) % 2 == 1
            cfg = Config(shape=list(shape), voxel=[2.0 ** ctx.rng.randint(-2, 1) for _ in range(dim)], masses="dense", method=["newton", "bregman"][t % 2],
                         l1=l1, mobility="CELL_BASED", formulation="pressure", solver="direct", aa=0, weighted=False, mseed=ctx.rng.randint(0, 10 ** 6),
                         num_iter=1, tol=1.0, L=1.0)
            built = call(build, d, cfg)
            if isinstance(built, Raised):
                continue
            w, i1, i2, opts = built
            if weighted:
                wimg = np.array([2.0 ** ctx.rng.randint(-1, 1) for _ in range(int(np.prod(shape)))]).reshape(shape)
                w.weight = d.Image(wimg, space_dim=dim, dimensions=[s_ * v for s_, v in zip(shape, cfg.voxel)], scalar=True)
                w.cell_weights = w.weight.img
            nf, nc = int(w.grid.num_faces), int(w.grid.num_cells)
            x = np.array([ctx.rng.randint(-12, 12) / 4.0 for _ in range(nf + nc + 1)])
            stub_dist = call(w.l1_dissipation, x[:nf])
            if isinstance(stub_dist, Raised):
                continue
            w._solve = lambda md, _x=x, _dd=stub_dist: (_dd, _x.copy(), {"converged": False, "number_iterations": 0, "convergence_history": {}})
            out = call(w, i1, i2)
            # The integration rule of each L1 mode is part of the SPECIFICATION of the cost, not read back from the code where
            # the mode itself fixes it: CONSTANT_SUBCELL_PROJECTION = mean over the 2^dim cell corners, CONSTANT_CELL_PROJECTION
            # = value at the cell centre. RAVIART_THOMAS uses the Gauss rule of C15 (taken from the implementation; required
            # to be a rule on the unit cell: nodes in [0,1]^dim, weights summing to 1).
            if l1 == "RAVIART_THOMAS":
                pts, wq = d.quadrature.gauss_reference_cell(dim, "max")
                pts = np.asarray(pts, dtype=float).reshape(len(wq), dim)
                if abs(float(np.sum(wq)) - 1.0) > 8 * EPS * len(wq) or pts.min() < 0 or pts.max() > 1:
                    ctx.fail(f"C04:transport_density:quadrature-rule-not-on-unit-cell:{l1}:dim={dim}",
                             f"the quadrature rule behind L1Mode.{l1} in {dim}-D is not a rule on the unit cell (sum of weights "
                             f"{float(np.sum(wq))!r})", {"kind": "aux", "cfg": dict(cfg), "x": []})
            elif l1 == "CONSTANT_SUBCELL_PROJECTION":
                pts = np.array(list(np.ndindex(*([2] * dim))), dtype=float)
                wq = np.full(2 ** dim, 0.5 ** dim)
            else:
                pts, wq = np.full((1, dim), 0.5), np.array([1.0])
            pts = np.asarray(pts, dtype=float).reshape(len(wq), dim)
            cw = np.ravel(w.cell_weights, "F")
            line = (f"aux {dim} " + " ".join(map(str, shape)) + f" {dim} " + " ".join(fmt(v) for v in cfg.voxel) + f" {nc} " + " ".join(fmt(v) for v in cw)
                    + f" {len(wq)} " + " ".join(fmt(v) for v in wq) + f" {pts.size} " + " ".join(fmt(v) for v in pts.ravel())
                    + f" {len(x)} " + " ".join(fmt(v) for v in x))
            lines.append(" ".join(line.split()))
            cases.append((cfg, w, x, out, np.asarray(wq, dtype=float), stub_dist))
    got = ctx.model(lines)
    bad = 0
    for (cfg, w, x, out, wq, stub_dist), line, resp in zip(cases, lines, got):
        ctx.count(("aux", line[:200]), nontrivial=int(np.prod(cfg.shape)) > 1)
        shape, dim = tuple(cfg.shape), len(cfg.shape)
        rp = {"kind": "aux", "cfg": dict(cfg), "x": x.tolist()}
        tagc = f"{cfg.method} {shape} {cfg.l1}"
        if isinstance(out, Raised) or not (isinstance(out, tuple) and len(out) == 2):
            ctx.fail(f"C04:{cfg.method}.__call__:aux-raises", f"__call__ raises {out!r} while assembling its outputs ({tagc})", rp)
            continue
        parts = [p.split() for p in resp.split("|")]
        if len(parts) != 4:
            bad += 1
            ctx.mark("TIE-BROKEN", {"correspondence": "aux outputs", "request": line[:300], "model": resp[:200]})
            continue
        info = out[1]
        cells = [np.unravel_index(c, shape, order="F") for c in range(int(np.prod(shape)))]
        impl_flux = [fmt(info["flux"][idx][a]) for idx in cells for a in range(dim)]
        impl_wflux = [fmt(info["weighted_flux"][idx][a]) for idx in cells for a in range(dim)]
        impl_press = [fmt(v) for v in np.ravel(info["pressure"], "F")]
        for name, mine, theirs in (("flux", parts[0], impl_flux), ("weighted_flux", parts[1], impl_wflux), ("pressure", parts[2], impl_press)):
            if mine != theirs:
                bad += 1
                ctx.fail(f"C04:{cfg.method}.__call__:aux({name})!=model",
                         f"info['{name}'] is not the model's function of the flat solution returned by _solve ({tagc})", rp)
        sq = np.array([float(Fraction(v)) for v in parts[3]]).reshape(len(cells), len(wq)) if parts[3] else np.zeros((len(cells), len(wq)))
        td_model = (np.sqrt(sq) * wq[None, :]).sum(axis=1)
        td_impl = np.array([float(info["transport_density"][idx]) for idx in cells])
        scale = max(float(np.abs(td_model).max()) if td_model.size else 0.0, 1e-300)
        if td_impl.shape != td_model.shape or not np.all(np.abs(td_impl - td_model) <= 64 * EPS * len(wq) * scale):
            bad += 1
            ctx.fail(f"C04:{cfg.method}.__call__:aux(transport_density)!=model",
                     f"info['transport_density'] differs from sum_q w_q |weighted cell flux at q| of the returned flux by "
                     f"{float(np.abs(td_impl - td_model).max()) if td_impl.shape == td_model.shape else 'shape'} ({tagc})", rp)
        vol = float(np.prod(cfg.voxel))
        dist_model = float(vol * td_model.sum())
        if not (out[0] == stub_dist and abs(float(out[0]) - dist_model) <= 64 * EPS * len(cells) * len(wq) * max(abs(dist_model), 1e-300)):
            bad += 1
            ctx.fail(f"C04:{cfg.method}.__call__:aux(distance)!=model",
                     f"returned distance {out[0]!r} is not vol * sum(transport density) = {dist_model!r} of the returned flux ({tagc})", rp)
    ctx.cov.setdefault("correspondence", {})["__call__ outputs vs WAux.callOut (stubbed _solve, dyadic flat solution)"] = {"cases": len(lines), "disagreements": bad}


def anderson_correspondence(ctx, d):
    """real `darsia.AndersonAcceleration` on dyadic vectors with the least-squares routine stubbed (prescribed dyadic weights)
    against `DarsiaModel.Anderson.call`: every returned iterate must equal the model exactly (history columns, column index,
    restart, column filter of the least-squares problem, mixing formula); plus the property-level check that an affine constraint shared by all images is kept."""
    import scipy.linalg as sla

    lines, impl = [], []
    rng = ctx.rng
    for trial in range(ctx.pick(8, 40)):
        depth = [1, 2, 3][trial % 3]
        restart = [None, 2, 3, 4][(trial // 3) % 4]
        dim = rng.randint(2, 5)
        ncalls = rng.randint(3, 7)
        # images g_k with a common linear constraint: sum(g_k) = 3 (so that the returned iterates must keep it)
        calls = []
        for k in range(ncalls):
            g = np.array([rng.randint(-8, 8) / 2.0 for _ in range(dim)])
            g[-1] += 3.0 - g.sum()
            f = np.array([rng.randint(-8, 8) / 4.0 for _ in range(dim)])
            if calls and rng.random() < 0.35:
                f = calls[-1][1].copy()  # repeated increment: the new difference column of F vanishes and must be left out
            inner = k % restart if restart is not None else k
            mk = min(inner, depth)
            gamma = [rng.randint(-4, 4) / 2.0 for _ in range(mk)]
            calls.append((g, f, gamma))
        aa = call(d.AndersonAcceleration, dimension=None, depth=depth, restart=restart)
        outs, seen_shapes = [], []
        orig = sla.lstsq
        try:
            it = iter(calls)
            state = {"gamma": None}

            def stub(A, b, *a, **kw):
                # returns as many of the prescribed weights as it is handed columns (the column filter decides how many)
                seen_shapes.append(tuple(np.shape(A)))
                return (np.array(state["gamma"][: np.shape(A)[1]], dtype=float), None, None, None)

            sla.lstsq = stub
            for k, (g, f, gamma) in enumerate(calls):
                state["gamma"] = gamma
                r = call(aa, g.copy(), f.copy(), k) if not isinstance(aa, Raised) else aa
                outs.append(r)
        finally:
            sla.lstsq = orig
        line = f"anderson {depth} {restart if restart is not None else 'none'} {dim} {ncalls} " + " ".join(
            " ".join(fmt(v) for v in g) + " " + " ".join(fmt(v) for v in f) + f" {len(gm)} " + " ".join(fmt(v) for v in gm) for g, f, gm in calls)
        lines.append(" ".join(line.split()))
        if any(isinstance(o, Raised) for o in outs):
            impl.append(repr(next(o for o in outs if isinstance(o, Raised))))
            continue
        impl.append(" | ".join(" ".join(fmt(v) for v in np.asarray(o, dtype=float)) for o in outs))
        for k, o in enumerate(outs):
            if abs(float(np.sum(o)) - 3.0) > 1e-12:
                ctx.fail("C04:AndersonAcceleration.__call__:not-affine",
                         f"Anderson mixing does not keep a linear constraint shared by all images (sum = 3): call {k} returns sum {float(np.sum(o))!r} "
                         f"(depth {depth}, restart {restart})", {"kind": "anderson", "depth": depth, "restart": restart,
                                                                "calls": [[g.tolist(), f.tolist(), gm] for g, f, gm in calls]})
                break
    ctx.correspond("AndersonAcceleration.__call__ (stubbed lstsq, dyadic) vs DarsiaModel.Anderson.call", lines, impl)
    # property-level oracle with the REAL least-squares routine (anderson_run_preserves_balance): a linear constraint shared
    # by all images must be kept by every returned iterate, for every depth / restart, over runs longer than the restart
    for trial in range(ctx.pick(12, 60)):
        depth = [1, 2, 3][trial % 3]
        restart = [None, 2, 3, 4][(trial // 3) % 4]
        dim = rng.randint(3, 8)
        aa = call(d.AndersonAcceleration, dimension=None, depth=depth, restart=restart)
        if isinstance(aa, Raised):
            continue
        a = np.array([rng.randint(1, 4) for _ in range(dim)], dtype=float)
        hist = []
        for k in range(rng.randint(5, 10)):
            g = np.array([rng.gauss(0, 1) for _ in range(dim)])
            g[-1] += (3.0 - float(a @ g)) / a[-1]
            f = np.array([rng.gauss(0, 1) for _ in range(dim)])
            hist.append((g.tolist(), f.tolist()))
            o = call(aa, g.copy(), f.copy(), k)
            ctx.count(("anderson-real", trial, k))
            bad = isinstance(o, Raised) or not np.all(np.isfinite(o)) or abs(float(a @ np.asarray(o)) - 3.0) > 1e-7 * max(1.0, float(np.abs(o).max()))
            if bad:
                ctx.fail("C04:AndersonAcceleration.__call__:not-affine",
                         f"Anderson mixing (depth {depth}, restart {restart}) does not keep a linear constraint a.x = 3 shared by all images: "
                         f"call {k} returns {o!r}"[:400], {"kind": "anderson", "depth": depth, "restart": restart, "a": a.tolist(), "calls": hist})
                break


def model_selfchecks(ctx, codes):
    """driver ops that describe the generated code / the as-found code: tied here so that they are not dead model"""
    lines, expect = [], []
    for m in ("newton", "bregman"):
        c = codes[m]
        sound = all(c[k] for k in ("restoreSol", "restoreDist", "flagOnBreak", "distInit", "iterInit", "saveIsCopy")) and bool(c["bodies"])
        eff = {"none": "-", "writeSol": "sol", "writeDist": "dist", "criteria": "crit", "commitDist": "commit"}
        if sound:  # the body-order / commit part of `sound` mirrored here
            def ok(b):
                effs = [e for _, e in b]
                if "writeSol" not in effs or "writeDist" not in effs:
                    return False
                last_d = max(i for i, e in enumerate(effs) if e == "writeDist")
                return all(e != "writeSol" for e in effs[last_d + 1:])

            def cm(b):
                effs = [e for _, e in b]
                return ("commitDist" not in effs) if c["saveDistBeforeTry"] else (bool(effs) and effs[-1] == "commitDist" and "commitDist" not in effs[:-1])
            sound = all(ok(b) and cm(b) for b in c["bodies"])
        lines.append(f"points {m}")
        expect.append(f"sound={int(sound)} | " + " | ".join(" ".join(f"{l}/{eff[e]}" for l, e in b) for b in c["bodies"]))
    # the witnesses of the as-found code, through the driver (same statements as the theorems asFound_*)
    for line, exp in (("loop newton asFound 5 1 f:0:linearSolve", "1 0 none 0 1 0"), ("loop bregman asFound 5 1 f:1:linearSolve", "1 0 none 0 1 0"),
                      ("loop newton asFound 5 2 ok0 f:0:distance", "1 1 1 2 1 2"), ("loop newton asFound 0 0", "!UnboundLocalError none none 0 0 0"),
                      ("loop bregman asFound 0 0", "0 0 none 0 0 0"), ("loop bregman asFound 3 1 post", "0 2 3 3 0 raise"),
                      ("loop bregman gen 3 1 post", "0 2 3 3 0 nan")):
        lines.append(line)
        expect.append(exp)
    ctx.correspond("driver: generated program points / as-found witnesses", lines, expect)


def stopping_rule_oracle(ctx, d):
    """every clause of the stopping rule is made THE binding one, by construction instead of by luck of the sampled masses:
    a reference run with all tolerances 0 (no criterion can be met: `x < 0`) yields the history of the three monitored
    quantities; for each of them a tolerance is placed strictly between its value in a pass k >= 3 and its smallest value in
    the eligible passes 2..k-1 (the two other tolerances are non-restrictive). The run with that tolerance must stop in exactly
    pass k with converged = True and the history of the reference run up to there, with `verbose` off and on; it is judged by
    the per-run oracle as well (converged => criteria met by the returned history). Candidates are drawn from a generator of
    its own (never from the shared one: the masses decide whether the cost decreases or increases in the passes before the
    stop, i.e. whether a signed comparison can be told from the documented absolute one). An oracle that could not make a clause
    binding, or saw no decreasing cost before the stop, says so (mark) instead of passing silently."""
    import random

    rng = random.Random(f"C04-stopping-rule-{ctx.seed}-{ctx.tier}")
    K = 9
    big = float(np.finfo(float).max)
    quantities = {
        "newton": {"residual": lambda h, i: h["residual"][i] / h["residual"][0], "increment": lambda h, i: h["flux_increment"][i] / h["flux_increment"][0],
                   "distance": lambda h, i: abs(h["distance"][i] - h["distance"][i - 1])},
        "bregman": {"residual": lambda h, i: h["mass_conservation_residual"][i],
                    "increment": lambda h, i: h["aux_force_increment"][i] / h["aux_force_increment"][0],
                    "distance": lambda h, i: abs(h["distance"][i] - h["distance"][i - 1]) / h["distance"][i]},
    }
    layouts = [("dense", (4, 5)), ("compact", (3, 3, 2)), ("dense", (3, 4)), ("compact", (5, 3))]
    seen = {}  # (class, criterion) -> runs in which it was binding; (class, "decreasing") -> ... with a decreasing cost before the stop
    per = ctx.pick(2, 4)
    for method in ("newton", "bregman_adaptive", "bregman"):
        klass = "newton" if method == "newton" else "bregman"
        needed = ("residual", "increment", "distance", "decreasing")
        for c in range(per + 8):
            # beyond the regular candidates: only while a clause of this class has not been made binding yet (last method of the class)
            if c >= per and (method == "bregman_adaptive" or all(seen.get((klass, cr)) for cr in needed)):
                break
            mk, shape = layouts[c % len(layouts)]
            base = dict(shape=list(shape), voxel=[2.0 ** rng.randint(-2, 0) for _ in shape], masses=mk, method=method, l1="RAVIART_THOMAS",
                        mobility="CELL_BASED", formulation=["pressure", "full"][c % 2], solver="direct", aa=0, aa_restart=None, weighted=bool(c % 2),
                        mseed=([1, 2][c] if c < 2 else rng.randint(0, 10 ** 6)), num_iter=K, L=(1e-2 if method == "newton" else [1.0, 0.5][c % 2]),
                        fault_at=[], points=[])
            ref_cfg = Config(dict(base, tol=0.0, tol_mode="all"))
            ref = run_solver(d, ref_cfg, None)
            ctx.cov["solver_runs"] += 1
            label = f"stopping rule: reference run, all tolerances 0, {method} {shape} {mk} seed {base['mseed']}"
            if isinstance(ref, Raised) or "info" not in ref:
                ctx.fail(f"C04:{method}.__call__:raises({getattr(ref, 'cls', 'no-result')}):CELL_BASED:regular", f"solver raises {ref!r} ({label})",
                         {"kind": "run", "cfg": dict(ref_cfg), "fault": None, "num_iter": K})
                continue
            check_run(ctx, d, ref_cfg, ref, None, K, label)  # nothing is < 0: converged here is a violation of the clause
            h = ref["info"]["convergence_history"]
            n = len(h.get("distance", []))
            for crit, q in quantities[klass].items():
                with np.errstate(all="ignore"):
                    v = [float(q(h, i)) if i >= 1 or crit != "distance" else float("inf") for i in range(n)]
                k = next((i for i in range(3, n) if np.isfinite(v[i]) and 0 < v[i] * 1.02 < min(v[2:i]) and np.isfinite(min(v[2:i]))), None)
                if k is None:
                    continue
                tol = float(np.sqrt(v[k] * min(v[2:k])))
                if not v[k] < tol < min(v[2:k]):
                    continue
                sd = [h["distance"][i] - h["distance"][i - 1] for i in range(2, k)]
                for verbose in (False, True):
                    cfg = Config(dict(base, tol=tol, tol_mode=crit, verbose=verbose))
                    cap = run_solver(d, cfg, None)
                    ctx.cov["solver_runs"] += 1
                    rp = {"kind": "run", "cfg": dict(cfg), "fault": None, "num_iter": K}
                    lab = f"stopping rule: tol_{crit} = {tol!r} binding in pass {k}, verbose={verbose}, {method} {shape} {mk} seed {base['mseed']}"
                    ctx.count(("stop", method, crit, verbose, c), nontrivial=True)
                    if isinstance(cap, Raised) or "info" not in cap:
                        ctx.fail(f"C04:{method}.__call__:raises({getattr(cap, 'cls', 'no-result')}):stopping-rule", f"solver raises {cap!r} ({lab})", rp)
                        continue
                    conv, nit, _, n_done, ev = check_run(ctx, d, cfg, cap, None, K, lab)
                    hh = cap["info"]["convergence_history"]
                    m = min(n_done, k + 1)
                    same = all(np.allclose(np.asarray(hh[key][:m], dtype=float), np.asarray(h[key][:m], dtype=float), rtol=1e-9, atol=0.0, equal_nan=True)
                               for key in ("distance", "distance_increment") if key in hh and key in h)
                    if not same:
                        ctx.mark("TIE-BROKEN", {"correspondence": "stopping rule: the passes before the stop do not depend on the tolerances", "run": lab[:300]})
                        continue
                    seen[(klass, crit)] = seen.get((klass, crit), 0) + 1
                    if crit == "distance" and any(x < 0 and abs(x) > tol * (1 if klass == "newton" else abs(h["distance"][2 + j])) for j, x in enumerate(sd)):
                        seen[(klass, "decreasing")] = seen.get((klass, "decreasing"), 0) + 1
                    if crit == "distance" and any(x > 0 for x in sd):
                        seen[(klass, "increasing")] = seen.get((klass, "increasing"), 0) + 1
                    if conv and n_done < k + 1:
                        ctx.fail(f"C04:{method}._solve:converged-but-criteria-not-met",
                                 f"info['converged'] is True after pass {n_done - 1} although tol_{crit} is first met in pass {k} "
                                 f"(value {v[n_done - 1]!r} >= tolerance {tol!r}; {lab})", rp)
                    elif not conv or n_done != k + 1:
                        # the statement is "converged ONLY IF the criteria are met"; stopping later than the rule allows is the
                        # loop model's tie (the rule as coded), not a failing input
                        ctx.mark("TIE-BROKEN", {"correspondence": f"stopping rule: stops in the first pass in which tol_{crit} is met",
                                                "what": f"tol_{crit} met in pass {k} (value {v[k]!r} < {tol!r}) but converged={conv} after {n_done} passes ({lab})"[:400]})
    ctx.cov["stopping_rule"] = {f"{a}/{b}": n for (a, b), n in sorted(seen.items())}
    need = [(kl, cr) for kl in ("newton", "bregman") for cr in ("residual", "increment", "distance")] + [("newton", "decreasing"), ("bregman", "decreasing")]
    blind = [f"{a}/{b}" for a, b in need if not seen.get((a, b))]
    if blind and not ctx.failures:
        ctx.mark("ORACLE-BLIND", {"oracle": "stopping rule", "not_exercised": blind,
                                  "meaning": "no candidate made this clause of the stopping rule the binding one (or none had a decreasing cost before the stop)"})


def run(ctx):
    import darsia as d

    W = d.measure.wasserstein
    codes = {"newton": extract_code(W.WassersteinDistanceNewton), "bregman": extract_code(W.WassersteinDistanceBregman)}
    ctx.write_gen("SolveLoopGen", emit(codes))
    ctx.cov["generated_tables"] = {k: {"bodies": [[f"{l}/{e}" for l, e in b] for b in v["bodies"]], "tracked": v.get("tracked"),
                                       "flags": {f: v[f] for f in ("restoreSol", "restoreDist", "flagOnBreak", "distInit", "iterInit", "saveIsCopy", "saveDistBeforeTry", "post")},
                                       "why_not_sound": v["why"]} for k, v in codes.items()}
    ctx.prove("C04")
    ctx.cov["solver_runs"] = 0
    ctx.cov["events_seen"] = {}
    loop_model_selfcheck(ctx, codes)
    aux_correspondence(ctx, d)
    anderson_correspondence(ctx, d)
    model_selfchecks(ctx, codes)
    lines, impl = [], []
    cfgs = configs(ctx)
    for cfg in cfgs:
        explore(ctx, d, cfg, lines, impl, has_post=codes["bregman"].get("post", "none") not in (None, "none", ""))
    diffs = ctx.correspond("fault-injection: real solver vs loop model", lines, impl)
    stopping_rule_oracle(ctx, d)
    ctx.cov["configs"] = len(cfgs)
    ctx.cov["exhaustive"] = False
    ctx.cov["rule"] = ("covering design over method x L1 mode x mobility mode x formulation/back-end x Anderson x weight x mass kind x shape "
                       "(every value of every option occurs; pairs are sampled), fault index 0, 1 and one random later pass (all passes in "
                       "the thorough tier) for both injection points; distinct = (configuration, fault)")
    ctx.assumptions += [
        "1^T D = 0 for the FV divergence (C06/C07); measured per run as max |column sum| (recorded)",
        "exceptions are injected at nine program points (jacobian, regularisation update, linear solve, solver setup, shrink, Anderson, "
        "l1_dissipation, timings, stopping criteria); the loop model covers a raise at any statement",
        "scipy.linalg.lstsq is replaced by a stub only inside the Anderson correspondence (restored afterwards)",
        "the stopping rule used by the oracle is the documented one (relative residual / increment and distance increment below tol)",
    ]


def replay(data):
    import darsia as d

    from ..lib.core import Ctx

    rp = data.get("replay", {})
    print("signature:", data.get("signature"))
    print("recorded :", data.get("what"))
    if rp.get("kind") == "aux":
        print("replay   : re-run `./check C04 quick` (the aux correspondence needs the model driver); configuration:", rp.get("cfg"))
        return 0
    if rp.get("kind") != "run":
        print("replay   :", rp)
        return 0
    cfg = Config(rp["cfg"])
    fault = tuple(rp["fault"]) if rp.get("fault") else None
    ctx = Ctx("C04", "quick", 0, LEVEL)
    ctx.cov["solver_runs"] = 0
    ctx.cov["events_seen"] = {}
    cap = run_solver(d, cfg, fault)
    if isinstance(cap, Raised) or "info" not in cap:
        print("observed : solver raises", cap)
        return 1
    conv, nit, dcost, n_done, ev = check_run(ctx, d, cfg, cap, fault, cfg.num_iter, "replay")
    w = cap["w"]
    print(f"observed : events={ev} converged={conv} number_iterations={nit} distance={cap['distance']!r} "
          f"cost(returned flux)={w.l1_dissipation(cap['solution'][:int(w.grid.num_faces)])!r} warned={cap['warned']}")
    for f in ctx.failures:
        print("violated :", f["signature"], "--", f["what"])
    print("required : converged only if the criteria were met and no inner step failed; distance == cost of the returned flux; "
          "D u = f; last valid iterate returned")
    return 1 if ctx.failures else 0
