"""C03 - geometric integration is the weighted voxel sum at any resolution and history.

Tie: the Lean model `DarsiaModel.Integrate` (state machine with the cached voxel volume) is run on the
same histories of integrate() calls as the real `darsia.Geometry` classes; every call's return value is
compared (exact on the dyadic stream, relative 1e-6 where OpenCV's float32 area weights enter).
Oracle: the property statement evaluated on the implementation - every call of every history equals the
same call on a fresh object, equals the exact weighted voxel sum (Fractions), the same piecewise-constant
field gives the same value at every resolution, linearity, normalize => equal integrals.
"""
from __future__ import annotations

import itertools
from fractions import Fraction

import numpy as np

from ..lib.core import flist, fmts, frac
from ..lib.impl import Raised, call

LEVEL = "proof"
CLAIM = dict(
    category="proof",
    text="Theorems in DarsiaProps.C03 about the executable model DarsiaModel.Integrate (state machine with the cached voxel "
    "volume, both branches of Geometry.integrate, area resampling of array volumes): integrate on a fresh object = "
    "sum of data x effective voxel volume per trailing index; the effective volumes at any resolution add up to the "
    "geometry's total volume; linearity; the same piecewise-constant field integrates to the same value at integer-factor "
    "coarser and finer resolutions (scalar AND array volumes in any dimension: spec_array_coarsen_nd / spec_array_refine_nd); the weighted, "
    "extruded, porous and extruded-porous kinds have effective volume = voxel volume x weight (x porosity x depth) and their constructors "
    "yield well-formed fresh objects; normalize => equal integrals "
    "(guard: integral != 0); and history independence for ALL histories by an invariant on reachable states "
    "(with the negation for the pre-fix scalar branch, witness [native, coarse, native]). The model is tied to the real "
    "classes by per-call return values over all histories up to length 3 (quick) / 4-5 (thorough) on all geometry, weight and data kinds.",
    note="OpenCV's INTER_AREA kernel is a contract (box mean when shrinking, replication for integer enlargement), tied by "
    "exact comparison for power-of-two factors and 1e-6 relative otherwise (OpenCV computes area weights in float32); "
    "numpy float64 arithmetic is exact on the dyadic stream.",
    limits="KNOWN DEFECT inside the quantifier: geometries with ARRAY weights in 1-D and 3-D raise ValueError for data at any non-native resolution "
    "(Geometry.integrate supports the conservative resize in 2-D only; reported as KNOWN-FINDING on every run). The resolution theorems "
    "spec_array_*_nd hold in any dimension for the SPECIFICATION specAt; `step` returns these values only where the code does not raise "
    "(scalar volumes any dimension, array volumes 2-D; integrate_resolution_indep). integrate_fresh_eq_spec is a definitional unfolding for scalar "
    "volumes (content: array volumes, cache invariant). The refresh=false model and stale_cache_history_dependent describe the code BEFORE the "
    "first fix (historical, untied). normalize (Geometry.normalize + darsia.weight float / ndarray-ratio branches) is tied by the `norm` request (values within 1e-12); "
    "resolution independence of ARRAY volumes: spec_array_mixed_nd covers every per-axis combination of integer coarsening / refinement in any "
    "dimension; non-integer factors (effVol_total, "
    "integrate_fresh_eq_spec hold for them in the model) are not tied; data with another number of axes than the geometry are outside the model "
    "(Err.other): the code broadcasts there.",
    technique="Lean 4 proof (induction over histories with a cache invariant, telescoping/box-sum algebra) + differential correspondence + property oracle",
)

RTOL = 1e-6  # OpenCV float32 area weights (non power-of-two shrink factors)

# ---------------------------------------------------------------------------
# case descriptions (plain JSON-able dicts, so that a replay file is self-contained)


def dy(rng, lo=-8, hi=8, den=4):
    """small dyadic number k/den, never 0"""
    k = 0
    while k == 0:
        k = rng.randint(lo, hi)
    return k / den


def make_weight(rng, kind, shape):
    """kind: 'f' float, 'a' array, 'i' Image (array wrapped in darsia.Image)"""
    if kind == "f":
        return {"kind": "f", "value": dy(rng, 1, 8, 4)}
    vals = [dy(rng, 1, 12, 4) for _ in range(int(np.prod(shape)))]
    return {"kind": kind, "shape": list(shape), "values": vals}


_WOBJ = {}  # id(weight spec) -> (spec, object): the caller's weight array / Image is built ONCE and handed to every constructor


def weight_obj(d, w, dims):
    """The caller-owned weight object of a specification. All geometries of one specification (the object with a history and
    every 'fresh' object) are built from the SAME array / Image, as a caller would do."""
    if w["kind"] == "f":
        return float(w["value"])
    hit = _WOBJ.get(id(w))
    if hit is not None and hit[0] is w:
        return hit[1]
    arr = np.array(w["values"], dtype=float).reshape(w["shape"])
    obj = d.Image(arr, space_dim=len(w["shape"]), dimensions=list(dims)) if w["kind"] == "i" else arr
    _WOBJ[id(w)] = (w, obj)
    return obj


def weights_intact(ctx, g, where):
    """the caller's weight arrays must still hold the values they were created with"""
    for w in g.get("w", []):
        hit = _WOBJ.get(id(w))
        if w["kind"] == "f" or hit is None or hit[0] is not w:
            continue
        arr = hit[1].img if w["kind"] == "i" else hit[1]
        want = np.array(w["values"], dtype=float).reshape(w["shape"])
        if not isinstance(arr, np.ndarray) or arr.shape != want.shape or not np.array_equal(arr, want):
            # immutability of constructor arguments is not a clause of C03: observation only (a mutation that matters shows as a wrong value
            # of the next geometry built from the same array, which IS a stated clause)
            ctx.cov["weight_argument_changed_observed"] = ctx.cov.get("weight_argument_changed_observed", 0) + 1
            del _WOBJ[id(w)]  # continue with a pristine array



def build_geo(d, g):
    dim, nv = g["dim"], tuple(g["nv"])
    kw = {"voxel_size": list(g["voxel_size"])} if "voxel_size" in g else {"dimensions": list(g["dims"])}
    dims = g.get("dims") or [n * v for n, v in zip(nv, g["voxel_size"])]
    k = g["kind"]
    if k == "plain":
        return call(d.Geometry, dim, nv, **kw)
    if k in ("weighted", "extruded", "porous"):
        cls = {"weighted": d.WeightedGeometry, "extruded": d.ExtrudedGeometry, "porous": d.PorousGeometry}[k]
        return call(cls, weight_obj(d, g["w"][0], dims), dim, nv, **kw)
    if k == "ep":
        return call(d.ExtrudedPorousGeometry, weight_obj(d, g["w"][0], dims), weight_obj(d, g["w"][1], dims), dim, nv, **kw)
    raise ValueError(k)


LAYOUTS = ["C", "F", "T", "S"]  # C-contiguous, Fortran-ordered, transposed view of a reversed-axes array, strided view
DTYPES = ["float64", "float64", "float32", "uint8", "uint16", "int64", "bool"]


def make_data(rng, dim, shape, trailing, as_image, field=None, factors=None, series=None, layout="C", dtype="float64"):
    """field: values on a coarse grid `shape // factors` replicated to `shape` (piecewise constant)."""
    full = tuple(shape) + tuple(trailing)
    n = int(np.prod(full))
    if field is None:
        if dtype in ("uint8", "uint16"):
            arr = np.array([rng.randint(0, 12) for _ in range(n)], dtype=float).reshape(full)
        elif dtype == "int64":
            arr = np.array([rng.randint(-8, 8) for _ in range(n)], dtype=float).reshape(full)
        elif dtype == "bool":
            arr = np.array([rng.randint(0, 1) for _ in range(n)], dtype=float).reshape(full)
        else:
            arr = np.array([dy(rng) for _ in range(n)], dtype=float).reshape(full)
    else:
        dtype = "float64"
        arr = np.array(field["values"], dtype=float).reshape(tuple(field["shape"]) + tuple(trailing))
        for ax, k in enumerate(factors):
            arr = np.repeat(arr, k, axis=ax)
    if isinstance(as_image, tuple):
        as_image, series = as_image
    return {"shape": list(shape), "trailing": list(trailing), "values": arr.ravel().tolist(), "image": bool(as_image),
            "series": bool(series) if series is not None else len(trailing) == 2, "layout": layout, "dtype": dtype}


def data_array(dat):
    """the data array in the dtype and memory layout of the description (same values in every layout)"""
    arr = np.array(dat["values"], dtype=float).reshape(tuple(dat["shape"]) + tuple(dat["trailing"])).astype(dat.get("dtype", "float64"))
    layout = dat.get("layout", "C")
    if layout == "F":
        arr = np.asfortranarray(arr)
    elif layout == "T":
        arr = np.ascontiguousarray(arr.transpose()).transpose()
    elif layout == "S":
        big = np.zeros((2 * arr.shape[0] + 1,) + arr.shape[1:], dtype=arr.dtype)
        big[1::2] = arr
        arr = big[1::2]
    return arr


def data_obj(d, dat, dim, dims):
    arr = data_array(dat)
    if not dat["image"]:
        return arr
    tr = dat["trailing"]
    series = bool(dat.get("series", len(tr) == 2)) and len(tr) >= 1
    scalar = not (len(tr) == 2 or (len(tr) == 1 and not series))
    kw = dict(space_dim=dim, dimensions=list(dims), scalar=scalar, series=series)
    if series:
        kw["time"] = list(range(tr[0]))
    return d.Image(arr, **kw)


def show_result(r):
    if isinstance(r, Raised):
        return repr(r)
    try:
        a = np.asarray(r, dtype=float).ravel()
    except Exception:  # noqa: BLE001 - a non-numeric return value is data
        return "!Other"
    if not np.all(np.isfinite(a)):
        return "!Other"
    return fmts(a.tolist())


# ---------------------------------------------------------------------------
# protocol lines for the Lean model


def geo_line(g):
    nv = list(g["nv"])[: g["dim"]]
    dims = g.get("dims") or [n * v for n, v in zip(nv, g["voxel_size"])]
    head = f"{g['dim']} {flist(nv)} {flist(dims[: g['dim']])}"

    def w(x):
        return f"s {frac(x['value'])}" if x["kind"] == "f" else f"a {flist(x['shape'])} {flist(x['values'])}"

    if g["kind"] == "plain":
        return "plain " + head
    if g["kind"] == "ep":
        return f"ep {head} {w(g['w'][0])} {w(g['w'][1])}"
    return f"weighted {head} {w(g['w'][0])}"


def data_line(dat):
    nc = int(np.prod(dat["trailing"])) if dat["trailing"] else 1
    return f"{flist(dat['shape'])} {nc} {flist(dat['values'])}"


def hist_line(g, hist, refresh=1):
    return f"hist {refresh} {geo_line(g)} {len(hist)} " + " ".join(data_line(x) for x in hist)


# ---------------------------------------------------------------------------
# exact reference: the property statement in Fractions (integer factors per axis)


def eff_volume_exact(g, shape):
    """Effective voxel volume (Fractions) of every data cell for data of spatial shape `shape`:
    sum over native voxels of volume x fraction of the voxel lying in the data cell."""
    dim = g["dim"]
    nv = list(g["nv"])[:dim]
    dims = g.get("dims") or [n * v for n, v in zip(nv, g["voxel_size"])]
    vv = Fraction(1)
    for n, D in zip(nv, dims):
        vv *= frac(D) / n
    wts = []
    if g["kind"] != "plain":
        wts = g["w"]
    native = np.empty(nv, dtype=object)
    for idx in np.ndindex(*nv):
        v = vv
        for x in wts:
            v *= frac(x["value"]) if x["kind"] == "f" else frac(np.array(x["values"], dtype=float).reshape(x["shape"])[idx])
        native[idx] = v
    out = np.empty(shape, dtype=object)
    for idx in np.ndindex(*shape):
        tot = Fraction(0)
        rngs = []
        for a in range(dim):
            lo, hi = Fraction(idx[a] * nv[a], shape[a]), Fraction((idx[a] + 1) * nv[a], shape[a])
            cells = [(i, min(hi, i + 1) - max(lo, i)) for i in range(nv[a]) if min(hi, i + 1) > max(lo, i)]
            rngs.append(cells)
        for combo in itertools.product(*rngs):
            frac_in = Fraction(1)
            for _, f in combo:
                frac_in *= f
            tot += native[tuple(i for i, _ in combo)] * frac_in
        out[idx] = tot
    return out


def integral_exact(g, dat):
    shape = tuple(dat["shape"])
    ev = eff_volume_exact(g, shape)
    nc = int(np.prod(dat["trailing"])) if dat["trailing"] else 1
    vals = np.array([frac(v) for v in dat["values"]], dtype=object).reshape(shape + (nc,))
    return [sum((ev[idx] * vals[idx + (c,)] for idx in np.ndindex(*shape)), Fraction(0)) for c in range(nc)]


def weights_have_shape(g):
    return all(x["kind"] == "f" or list(x["shape"]) == list(g["nv"])[: g["dim"]] for x in g.get("w", []))


def has_array(g):
    return any(x["kind"] != "f" for x in g.get("w", []))


def expected_error(g, dat):
    """the documented raising path: array volumes at a foreign resolution outside 2-D -> ValueError"""
    if has_array(g) and g["dim"] != 2 and list(dat["shape"]) != list(g["nv"])[: g["dim"]]:
        return "!ValueError"
    return None


def close_rel(a, b, tol):
    if a == b:
        return True
    if a.startswith("!") or b.startswith("!"):
        return False
    xa, xb = a.split(), b.split()
    return len(xa) == len(xb) and all(abs(Fraction(p) - Fraction(q)) <= tol * max(abs(Fraction(p)), abs(Fraction(q)), Fraction(1, 1000)) for p, q in zip(xa, xb))


def close(a, b, exact):
    """compare two result strings (rationals) - exactly, or relatively"""
    if a == b:
        return True
    if exact or a.startswith("!") or b.startswith("!"):
        return False
    xa, xb = a.split(), b.split()
    if len(xa) != len(xb):
        return False
    for p, q in zip(xa, xb):
        p, q = Fraction(p), Fraction(q)
        if abs(p - q) > RTOL * max(abs(p), abs(q), Fraction(1, 1000)):
            return False
    return True


# ---------------------------------------------------------------------------
# generators


def resolutions(nv, dyadic=True):
    """alphabet of data resolutions for a native shape: native, coarser, finer, other-coarser, mixed"""
    k = 2 if dyadic else 3
    nv = list(nv)
    res = {"n": nv, "c": [max(1, n // k) for n in nv], "f": [n * 2 for n in nv]}
    o = list(nv)
    o[0] = max(1, nv[0] // (4 if dyadic and nv[0] % 4 == 0 else k))
    res["o"] = o
    if len(nv) >= 2:
        m = [n * 2 for n in nv]
        m[0] = max(1, nv[0] // (4 if dyadic and nv[0] % 4 == 0 else k))
        res["m"] = m
    return res


def geometries(ctx, dim, nv, dyadic=True):
    """all geometry kinds x weight kinds for one native shape"""
    rng = ctx.rng
    dims = [dy(rng, 1, 6, 2) * n if dyadic else dy(rng, 1, 9, 1) * 0.1 * n for n in nv]
    out = [{"kind": "plain", "dim": dim, "nv": list(nv), "dims": dims},
           {"kind": "plain", "dim": dim, "nv": list(nv), "voxel_size": [dy(rng, 1, 6, 4) for _ in nv]}]
    for k in ("weighted", "extruded", "porous"):
        for wk in ("f", "a"):
            out.append({"kind": k, "dim": dim, "nv": list(nv), "dims": dims, "w": [make_weight(rng, wk, nv)]})
    for pk, dk in (("f", "f"), ("a", "f"), ("f", "i"), ("i", "a"), ("i", "i")):
        out.append({"kind": "ep", "dim": dim, "nv": list(nv), "dims": dims, "w": [make_weight(rng, pk, nv), make_weight(rng, dk, nv)]})
    return out


# (trailing axes, (as Image?, series?)): scalar / vector / series / series of vectors, as arrays and as Images
TRAILINGS = [((), (False, False)), ((), (True, False)), ((3,), (False, False)), ((2,), (True, True)), ((2,), (True, False)),
             ((2, 2), (False, True)), ((3, 2), (True, True))]


_OBS = {}


def run_history(d, g, hist):
    """return values (strings) of the successive calls on ONE object, and of each call on a FRESH object"""
    dims = g.get("dims") or [n * v for n, v in zip(g["nv"], g["voxel_size"])]
    obj = build_geo(d, g)
    if isinstance(obj, Raised):
        return [repr(obj)] * len(hist), [repr(obj)] * len(hist)
    seq, fresh = [], []
    for dat in hist:
        x = data_obj(d, dat, g["dim"], dims)  # the same caller-owned object goes to both calls
        seq.append(show_result(call(obj.integrate, x)))
        f = build_geo(d, g)
        fresh.append(show_result(call(f.integrate, x)))
        xa = x if isinstance(x, np.ndarray) else x.img
        if isinstance(f, Raised):
            fresh[-1] = repr(f)
        if not (isinstance(xa, np.ndarray) and np.array_equal(np.asarray(xa, dtype=float), np.asarray(data_array(dat), dtype=float))):
            _OBS["data_argument_changed"] = _OBS.get("data_argument_changed", 0) + 1  # not a clause of C03: observation only
    return seq, fresh


def check_history(ctx, d, g, hist, labels, exact, where):
    """property oracle for one history; returns the per-call strings of the implementation"""
    seq, fresh = run_history(d, g, hist)
    weights_intact(ctx, g, f"history {labels}")
    for n, (a, b, dat) in enumerate(zip(seq, fresh, hist)):
        exp_err = expected_error(g, dat)
        if a != b and (exact or not close_rel(a, b, 1e-12)):
            ctx.fail(f"C03:integrate:history-dependent({'array' if has_array(g) else 'scalar'}-volume)",
                     f"call {n} of history {labels} on one {g['kind']} geometry returned {a}, a fresh object returns {b}",
                     {"check": "history", "geo": g, "history": hist, "labels": labels, "call": n, "on_object": a, "fresh": b})
            break
        if exp_err is not None:
            # INSIDE the quantifier (array weights in 1-D / 3-D, integer factors) but the code raises: a genuine, known defect
            want = fmts(integral_exact(g, dat))
            if b == exp_err:
                ctx.fail(f"C03:integrate:array-volume:foreign-resolution:dim={g['dim']}:raises-ValueError",
                         f"integrate on a fresh {g['kind']} geometry with an array weight raises ValueError for data of shape {dat['shape']} (native {g['nv']}); "
                         f"the weighted voxel sum is {want}", {"check": "spec", "geo": g, "history": [dat], "labels": labels[n], "fresh": b, "exact": want})
            elif not close(b, want, exact):
                ctx.fail(f"C03:integrate:array-volume:foreign-resolution:dim={g['dim']}:wrong-value", f"got {b}, weighted voxel sum {want}",
                         {"check": "spec", "geo": g, "history": [dat], "labels": labels[n], "fresh": b, "exact": want})
            continue
        want = fmts(integral_exact(g, dat))
        if not close(b, want, exact):
            kind = "vector-or-series-data" if dat["trailing"] else "scalar-data"
            if dat.get("dtype", "float64") not in ("float64", "float32"):
                kind += "," + ("integer" if dat["dtype"] != "bool" else "bool") + ("-Image" if dat["image"] else "-array")
            mixed = labels[n] == "m"
            ctx.fail(f"C03:integrate!=weighted-voxel-sum({'array' if has_array(g) else 'scalar'}-volume,{kind},{'coarsened+refined' if mixed else 'native' if labels[n] == 'n' else 'foreign'}-resolution)",
                     f"integrate on a fresh {g['kind']} geometry returned {b}; sum of data x effective voxel volume is {want} ({where})",
                     {"check": "spec", "geo": g, "history": [dat], "labels": labels[n], "fresh": b, "exact": want})
    return seq


def histories(alphabet, maxlen):
    for k in range(1, maxlen + 1):
        yield from itertools.product(alphabet, repeat=k)


def run(ctx):
    import darsia as d

    ctx.prove("C03")
    rng = ctx.rng
    lines, impl, exactness, meta = [], [], [], []

    # ---------------- histories: exhaustive over the resolution alphabet ----------------
    maxlen = ctx.pick(3, 4)
    bases = {1: [(4,), (8,)], 2: [(4, 4), (4, 2), (8, 4)], 3: [(4, 2, 2)]}
    if ctx.big:
        bases[2].append((2, 6))
        bases[3].append((2, 4, 2))
    n_hist = 0
    for dim, shapes in bases.items():
        for bi, nv in enumerate(shapes):
            res = resolutions(nv)
            alphabet = sorted(res)
            geos = geometries(ctx, dim, nv)
            for gi, g in enumerate(geos):
                # every history; the data kind rotates so that all kinds meet all histories over the run
                ml = maxlen if (dim == 2 or not has_array(g)) else min(maxlen, 2)
                if ctx.big and dim == 2 and bi == 0 and gi in (0, 3):
                    ml = 5
                for hi, labels in enumerate(histories(alphabet, ml)):
                    trailing, as_image = TRAILINGS[(hi + gi) % len(TRAILINGS)]
                    if len(labels) >= 4 and int(np.prod(trailing or (1,))) > 2:
                        trailing = ()
                    hist = [make_data(rng, dim, res[l], trailing, as_image, layout=LAYOUTS[(hi + gi + k) % 4], dtype=DTYPES[(hi // 3 + gi + k) % len(DTYPES)])
                            for k, l in enumerate(labels)]
                    seq = check_history(ctx, d, g, hist, "".join(labels), True, "dyadic stream")
                    n_hist += 1
                    ctx.count(("hist", dim, nv, g["kind"], gi, labels), nontrivial=len(labels) > 1)
                    # correspondence with the model: sample (all histories up to length 2, every 3rd longer one)
                    if len(labels) <= 2 or (hi + gi) % ctx.pick(5, 3) == 0:
                        lines.append(hist_line(g, hist))
                        impl.append(" ; ".join(seq))
                        exactness.append(True)
                        meta.append({"geo": g, "history": hist, "labels": "".join(labels)})
    ctx.cov["histories"] = n_hist

    # ---------------- general stream: factor 3, non-dyadic voxel sizes (tolerance) ----------------
    for nv in [(6, 3), (3, 9)]:
        res = resolutions(nv, dyadic=False)
        for gi, g in enumerate(geometries(ctx, 2, nv, dyadic=False)):
            for hi, labels in enumerate(histories(sorted(res), 2)):
                trailing, as_image = TRAILINGS[(hi + gi) % len(TRAILINGS)]
                hist = [make_data(rng, 2, res[l], trailing, as_image, layout=LAYOUTS[(hi + gi + k) % 4]) for k, l in enumerate(labels)]
                seq = check_history(ctx, d, g, hist, "".join(labels), False, "general stream, rel 1e-6")
                ctx.count(("hist3", nv, gi, labels))
                if hi % 4 == 0:
                    lines.append(hist_line(g, hist))
                    impl.append(" ; ".join(seq))
                    exactness.append(False)
                    meta.append({"geo": g, "history": hist, "labels": "".join(labels)})

    # ---------------- correspondence ----------------
    got = ctx.model(lines)
    diffs = [i for i, (a, b) in enumerate(zip(got, impl))
             if not all(close(x, y, exactness[i]) for x, y in itertools.zip_longest(a.split(" ; "), b.split(" ; "), fillvalue="!missing"))]
    ctx.cov.setdefault("correspondence", {})["integrate-histories"] = {"cases": len(lines), "disagreements": len(diffs),
                                                                        "exact": sum(exactness), "tolerance_1e-6": len(lines) - sum(exactness)}
    if lines:
        ctx.sample({"corr": "integrate-histories", "request": lines[0][:300], "model": got[0][:200], "impl": impl[0][:200]})
    if diffs:
        i = min(diffs, key=lambda k: len(lines[k]))
        ctx.mark("CORR-BROKEN", {"correspondence": "integrate-histories", "request": lines[i][:2000], "model": got[i], "impl": impl[i],
                                 "n_diffs": len(diffs), "labels": meta[i]["labels"]})
        ctx.log(f"correspondence integrate-histories: {len(diffs)} disagreements, e.g. {meta[i]['labels']} {meta[i]['geo']['kind']} model={got[i][:120]} impl={impl[i][:120]}")

    # ---------------- resolution independence, linearity, normalize ----------------
    oracle_fields(ctx, d)
    ctx.cov["rule"] = ("histories: exhaustive over the resolution alphabet {native, coarser, finer, other-coarser, mixed} up to the tier's length, "
                       "for every geometry kind x weight kind on the base shapes; data kinds rotate over histories; "
                       "distinct = (dimension, native shape, geometry, history)")
    ctx.assumptions += ["OpenCV INTER_AREA contract: mean over the destination cell for pure shrinking / pure enlargement (tied, not proved)",
                        "numpy float64 arithmetic is exact on dyadic inputs of this size"]


def oracle_fields(ctx, d):
    rng = ctx.rng
    nlin = nres = nnorm = 0
    norm_lines, norm_impl = [], []
    for dim, nv, dyadic in [(1, (4,), True), (2, (4, 4), True), (2, (4, 2), True), (3, (2, 2, 2), True), (2, (6, 3), False)]:
        res = resolutions(nv, dyadic)
        for g in geometries(ctx, dim, nv, dyadic):
            dims = g["dims"] if "dims" in g else [n * v for n, v in zip(nv, g["voxel_size"])]
            if has_array(g) and dim != 2:
                labels = ["n"]
            else:
                labels = sorted(res)
            for rep in range(ctx.pick(2, 6)):
                weights_intact(ctx, g, "constructing geometries and integrating")
                trailing, as_image = TRAILINGS[rng.randrange(len(TRAILINGS))]
                # --- the same piecewise-constant field at every resolution of the alphabet
                coarse = [min(res[l][a] for l in labels) for a in range(dim)]
                nc = int(np.prod(trailing or (1,)))
                field = {"shape": coarse, "values": [dy(rng) for _ in range(int(np.prod(coarse)) * nc)]}
                vals = {}
                for l in labels:
                    if any(res[l][a] % coarse[a] for a in range(dim)):
                        continue
                    dat = make_data(rng, dim, res[l], trailing, as_image, field, [res[l][a] // coarse[a] for a in range(dim)], layout=rng.choice(LAYOUTS))
                    obj = build_geo(d, g)
                    vals[l] = (show_result(call(obj.integrate, data_obj(d, dat, dim, dims))), dat)
                    nres += 1
                    ctx.count(("res", dim, nv, g["kind"], l, rep))
                ref = vals.get("n")
                for l, (v, dat) in vals.items():
                    if ref is not None and not close(v, ref[0], dyadic):
                        ctx.fail(f"C03:integrate:resolution-dependent({'array' if has_array(g) else 'scalar'}-volume,{'mixed' if l == 'm' else 'coarser' if l in 'co' else 'finer'},dim={dim})",
                                 f"the same piecewise-constant field integrates to {ref[0]} at native resolution and to {v} at {res[l]}",
                                 {"check": "resolution", "geo": g, "history": [ref[1], dat], "labels": "n" + l, "native": ref[0], "other": v})
                # --- linearity (native resolution and one foreign resolution)
                for l in labels[:2]:
                    d1 = make_data(rng, dim, res[l], trailing, as_image)
                    d2 = make_data(rng, dim, res[l], trailing, False)
                    a, b = dy(rng, -4, 4, 2), dy(rng, -4, 4, 2)
                    comb = dict(d1, values=(a * np.array(d1["values"]) + b * np.array(d2["values"])).tolist())
                    rs = []
                    for dat in (d1, d2, comb):
                        rs.append(call(build_geo(d, g).integrate, data_obj(d, dat, dim, dims)))
                    nlin += 1
                    ctx.count(("lin", dim, nv, g["kind"], l, rep))
                    if any(isinstance(r, Raised) for r in rs):
                        continue  # raising paths are judged in check_history
                    lhs = np.asarray(rs[2], dtype=float).ravel()
                    rhs = a * np.asarray(rs[0], dtype=float).ravel() + b * np.asarray(rs[1], dtype=float).ravel()
                    ok = np.array_equal(lhs, rhs) if dyadic else np.allclose(lhs, rhs, rtol=1e-9, atol=1e-12)
                    if not ok:
                        ctx.fail(f"C03:integrate:not-linear({'array' if has_array(g) else 'scalar'}-volume)", f"integrate(a*d1+b*d2)={lhs.tolist()} but a*I(d1)+b*I(d2)={rhs.tolist()}",
                                 {"check": "linear", "geo": g, "history": [d1, d2], "a": a, "b": b, "labels": l})
                # --- normalize => equal integrals (Images only; after a foreign-resolution call on the same object)
                if dim in (2, 3):
                    img = make_data(rng, dim, res["n"], trailing, True, layout=LAYOUTS[(rep + nnorm) % 4])
                    # signed data: the integrals may be negative (per time step / component), only zero is excluded (the code divides)
                    for _try in range(20):
                        if all(x != 0 for x in integral_exact(g, img)):
                            break
                        img = make_data(rng, dim, res["n"], trailing, True, layout=img["layout"])
                    else:
                        img["values"] = [abs(v) + 0.25 for v in img["values"]]
                    refd = make_data(rng, dim, res["n"], trailing, True, layout=rng.choice(LAYOUTS))
                    refd["values"] = [abs(v) + 0.5 for v in refd["values"]]
                    obj = build_geo(d, g)
                    if not (has_array(g) and dim != 2):
                        call(obj.integrate, data_obj(d, make_data(rng, dim, res["c"], (), False), dim, dims))
                    out = call(obj.normalize, data_obj(d, img, dim, dims), data_obj(d, refd, dim, dims))
                    nnorm += 1
                    ctx.count(("norm", dim, nv, g["kind"], rep))
                    if isinstance(out, Raised):
                        ctx.fail(f"C03:normalize:raises({'array' if has_array(g) else 'scalar'}-volume)", repr(out), {"check": "normalize", "geo": g, "history": [img, refd]})
                        continue
                    if len(norm_lines) < ctx.pick(60, 400):
                        # tie of the `normalize` model (Geometry.normalize + darsia.weight, float and ndarray-ratio branches)
                        norm_lines.append(f"norm 1 {geo_line(g)} {data_line(img)} {data_line(refd)}")
                        norm_impl.append(np.asarray(out.img, dtype=float).ravel().tolist())
                    i1 = call(build_geo(d, g).integrate, out)
                    i2 = call(build_geo(d, g).integrate, data_obj(d, refd, dim, dims))
                    if isinstance(i1, Raised) or isinstance(i2, Raised) or not np.allclose(np.asarray(i1, dtype=float), np.asarray(i2, dtype=float), rtol=1e-10, atol=0):  # signed data: cancellation bound ~5e-13 measured, 200x margin
                        ctx.fail(f"C03:normalize:integrals-differ({'array' if has_array(g) else 'scalar'}-volume)", f"integral of normalised image {show_result(i1)} != integral of reference {show_result(i2)}",
                                 {"check": "normalize", "geo": g, "history": [img, refd]})
    # correspondence: normalised image (model: exact rationals) against the implementation's floats, relative 1e-12 (one float division)
    got = ctx.model(norm_lines)
    bad = []
    for k, (g_, v) in enumerate(zip(got, norm_impl)):
        parts = g_.split(" ; ")
        toks = parts[0].split()
        ok = len(parts) == 3 and len(toks) == len(v) and parts[1] == parts[2]  # the model's integrals of out and ref agree (theorem instance)
        if ok:
            scale = max(1.0, max(abs(x) for x in v))
            ok = all(abs(float(Fraction(t)) - x) <= 1e-12 * scale for t, x in zip(toks, v))
        if not ok:
            bad.append(k)
    ctx.cov.setdefault("correspondence", {})["normalize"] = {"cases": len(norm_lines), "disagreements": len(bad), "tolerance": 1e-12}
    if bad:
        k = bad[0]
        ctx.mark("CORR-BROKEN", {"correspondence": "normalize", "request": norm_lines[k][:1500], "model": got[k][:800], "impl": fmts(norm_impl[k])[:800], "n_diffs": len(bad)})
        ctx.log(f"correspondence normalize: {len(bad)} disagreements, e.g. model={got[k][:150]} impl={fmts(norm_impl[k])[:150]}")
    ctx.cov["observations"] = dict(_OBS)
    ctx.cov["oracle"] = {"resolution_cases": nres, "linearity_cases": nlin, "normalize_cases": nnorm}


def replay(data):
    """re-run one stored case on the implementation and print observed vs required values"""
    import darsia as d

    r = data.get("replay", data)
    g, hist = r["geo"], r["history"]
    print(f"property C03 check={r.get('check')} geometry={g['kind']} dim={g['dim']} nv={g['nv']} labels={r.get('labels')}")
    if r.get("check") == "normalize":
        dims = g.get("dims") or [n * v for n, v in zip(g["nv"], g["voxel_size"])]
        obj = build_geo(d, g)
        out = call(obj.normalize, data_obj(d, hist[0], g["dim"], dims), data_obj(d, hist[1], g["dim"], dims))
        i1 = show_result(call(build_geo(d, g).integrate, out)) if not isinstance(out, Raised) else repr(out)
        i2 = show_result(call(build_geo(d, g).integrate, data_obj(d, hist[1], g["dim"], dims)))
        print(f"integral(normalised)={i1} integral(reference)={i2}")
        return 0 if i1 == i2 else 1
    seq, fresh = run_history(d, g, hist)
    bad = 0
    for n, (a, b, dat) in enumerate(zip(seq, fresh, hist)):
        want = expected_error(g, dat) or fmts(integral_exact(g, dat))
        print(f"call {n}: data shape {dat['shape']}+{dat['trailing']} on-object={a} fresh={b} required={want}")
        bad |= (a != b) or not close(b, want, False)
    if r.get("check") == "resolution":
        bad |= not close(fresh[0], fresh[1], False)
    return 1 if bad else 0
