"""C11 - resampling and axis reduction conserve integrals.

Tie: Lean models `DarsiaModel.Resample` / `DarsiaModel.Conserve` vs the real `Resize(conservative)`,
`uniform_refinement`, `reduce_axis`, `extrude_along_axis`, `superpose` on dyadic arrays (exact, except
Resize: relative 1e-6 because OpenCV computes area weights in float32).
Oracle: the property statement on the implementation - integral before/after through
`Geometry(**img.shape_metadata()).integrate(img)`, documented counterparts (array sum for Resize, integral x
extrusion height, integral / voxel length for summed reductions), shapes, dimensions, extents.
"""
from __future__ import annotations

import itertools
from fractions import Fraction

import numpy as np

from ..lib.core import flist, fmts, frac
from ..lib.impl import Raised, call

LEVEL = "other"
CLAIM = dict(
    category="other",
    text="Proved in Lean (DarsiaProps.C11, all shapes/arrays): area resampling conserves the cell-size weighted sum for ANY pair of "
    "extents (1-D) and `Resize(conservative)` conserves the array sum for any input/target shape (2-D, separable), the kernel is the box "
    "mean for integer shrink factors and replication for integer enlargement; one level of uniform refinement preserves the integral; "
    "one level of coarsening preserves it for even extents and provably does not for odd ones (witness n = 3, known finding); "
    "refine-then-coarsen is the identity; reduction(sum) is the array sum along the axis with unchanged total, reduction(average) = sum / count, "
    "integral relations of both modes; extrusion integral = integral x height; superposition on a shared grid = pointwise sum and "
    "voxel-aligned superposition conserves the total, with the canvas COMPUTED in the model (superpose_canvas_sum); multi-level coarsening as "
    "coded NOW (current extent on every level, fix 01b9c8c) is the iterated single-level coarsening for every extent and level count "
    "(coarsen_levels_is_iterated) and conservative when 2^levels divides the extent (coarsen_levels_pow2_conservative); the coarsen_coded_* theorems "
    "are HISTORICAL (pre-fix code, untied). Plain area resizing preserves the integral (area_resize_integral: tied by non-conservative Resize cases) "
    "and the conservative variant multiplies it by the ratio of voxel counts; equalize_voxel_size gives exactly k voxels for an extent of k voxel "
    "sizes and the nearest integer in general. OBSERVED only (differential check + oracle): that OpenCV's INTER_AREA and "
    "warpPerspective kernels realise these models (Resize within 1e-6 relative, float32 area weights; superpose exactly), that numpy "
    "repeat/sum/slicing realise refinement/coarsening/reduction (exact), and all metadata (dimensions, origin, extents).",
    note="FAILING clauses are only those the statement implies (conservation / documented counterpart, extents, sum / average, refine-coarsen identity, "
    "shared-grid superposition) on inputs inside the quantifier (float32/float64, 2-D refinement); MARKS only (tie, `no-failing-input-found`): source "
    "unchanged / repeated call, re-used vs fresh Resize bitwise, non-conservative Resize integral, integer sources, 1-D/3-D refinement and the 1-D coded section, "
    "reduce dimensions formula, extrusion data layout, offset-grid pointwise placement, equalize_voxel_size. DEFINITIONAL (rfl on the model, the code side is observed by the oracle): reduce_sum_eq part 1, reduce_avg_eq, resize_keeps_extent, "
    "equalize_keeps_extent. Level 'other': the conserved quantity of Resize is the documented array sum, not sum x voxel volume; the OpenCV kernels are a "
    "contract checked numerically, not proved. Known findings: coarsening with an odd (intermediate) extent is not conservative; "
    "reduce_axis along z / extrude_along_axis exchange the physical extents of the retained x and y axes (3-D and 2-D axis conventions conflict).",
    technique="Lean 4 proofs of the resampling algebra (telescoping overlaps, box sums, Fubini for boxes) + differential correspondence + property oracle",
)

RTOL = 1e-6


def dy_array(rng, shape, dtype=np.float64):
    n = int(np.prod(shape))
    return (np.array([rng.randint(-32, 32) for _ in range(n)], dtype=np.float64).reshape(shape) / 8).astype(dtype)


def image(d, arr, space_dim, dims, series=False, scalar=True, origin=None):
    kw = dict(space_dim=space_dim, dimensions=list(dims), series=series, scalar=scalar)
    if series:
        kw["time"] = list(range(arr.shape[space_dim]))
    if origin is not None:
        kw["origin"] = list(origin)
    return d.Image(arr, **kw)


def integ(d, img):
    r = call(lambda: d.Geometry(**img.shape_metadata()).integrate(img))
    return r if isinstance(r, Raised) else np.asarray(r, dtype=np.float64)


def box(img):
    """axis-aligned physical extent; NaN if the image has become unusable (a corrupted source must not crash the check)"""
    try:
        o = np.asarray(img.origin, dtype=float)
        c = np.asarray(img.opposite_corner, dtype=float)
        return np.minimum(o, c), np.maximum(o, c)
    except Exception:  # noqa: BLE001
        n = len(getattr(img, "origin", [0, 0]))
        return np.full(n, np.nan), np.full(n, np.nan)



def soft(ctx, signature, what, replay=None):
    """a clause that is NOT stated by the property (current convention / outside the quantifier / tie of the model only):
    a mark (the run ends `no-failing-input-found` unless a stated clause fails), never a claimed failing input"""
    ctx.mark("TIE-BROKEN", {"correspondence": signature, "what": str(what)[:600], "case": {k: v for k, v in (replay or {}).items() if k != "values"}})


def snapshot(d, obj):
    """everything the property reads from a source: data, dimensions, origin, voxel size, extents, integral"""
    if isinstance(obj, np.ndarray):
        return {"arr": obj.copy()}
    i = integ(d, obj)
    lo, hi = box(obj)
    vs = call(lambda: [float(x) for x in obj.voxel_size])
    return {"arr": np.array(obj.img, copy=True), "dimensions": [float(x) for x in obj.dimensions], "origin": np.array(obj.origin, dtype=float),
            "voxel_size": repr(vs) if isinstance(vs, Raised) else vs, "box": (repr(lo.tolist()), repr(hi.tolist())),
            "integral": repr(i) if isinstance(i, Raised) else np.asarray(i, dtype=float)}


def same(a, b):
    if isinstance(a, Raised) or isinstance(b, Raised):
        return isinstance(a, Raised) and isinstance(b, Raised) and a == b
    if isinstance(a, dict):
        return a.keys() == b.keys() and all(same(a[k], b[k]) for k in a)
    if isinstance(a, (tuple, list)):
        return len(a) == len(b) and all(same(x, y) for x, y in zip(a, b))
    if isinstance(a, np.ndarray):
        return isinstance(b, np.ndarray) and a.shape == b.shape and a.dtype == b.dtype and np.array_equal(a, b)
    return a == b


def twice(ctx, d, name, sources, fn, replay):
    """Run the operation on its source object(s); the sources (data, dimensions, origin, voxel size, extents, integral) must be
    the same before and after the call, and a second call on the same source object(s) must return the same result."""
    before = [snapshot(d, x) for x in sources]
    r1 = call(fn)
    after = [snapshot(d, x) for x in sources]
    if not same(before, after):
        what = [k for b, a in zip(before, after) for k in b if not same(b[k], a.get(k))]
        soft(ctx, f"C11:{name}:source-changed-by-call", f"the source image differs after the call in {sorted(set(what))}: "
                 f"dimensions {[b.get('dimensions') for b in before]} -> {[a.get('dimensions') for a in after]}, integral "
                 f"{[np.asarray(b.get('integral')).tolist() for b in before]} -> {[np.asarray(a.get('integral')).tolist() for a in after]}", dict(replay, clause="source-unchanged"))
    r2 = call(fn)
    ctx.second_result = r2  # stated clauses may be evaluated on the second call of the same source as well
    s1 = r1 if isinstance(r1, Raised) else snapshot(d, r1)
    s2 = r2 if isinstance(r2, Raised) else snapshot(d, r2)
    if not same(s1, s2):
        soft(ctx, f"C11:{name}:repeated-call-on-same-source-differs",
                 "first call: " + (repr(s1) if isinstance(s1, Raised) else f"dimensions {s1.get('dimensions')} integral {np.asarray(s1.get('integral')).tolist()}") +
                 "; second call: " + (repr(s2) if isinstance(s2, Raised) else f"dimensions {s2.get('dimensions')} integral {np.asarray(s2.get('integral')).tolist()}"),
                 dict(replay, clause="repeat"))
    after2 = [snapshot(d, x) for x in sources]
    if same(before, after) and not same(before, after2):
        soft(ctx, f"C11:{name}:source-changed-by-call", "the source image differs after the second call", dict(replay, clause="source-unchanged"))
    return r1


def vals_close(model_line, arr, exact):
    """compare a model response (rationals, C order) with an implementation array"""
    if isinstance(arr, Raised):
        return model_line.strip() == repr(arr)
    a = np.asarray(arr, dtype=np.float64).ravel()
    toks = model_line.split()
    if len(toks) != a.size:
        return False
    m = [Fraction(t) for t in toks]
    if exact:
        return all(frac(float(x)) == y for x, y in zip(a, m))
    scale = max(1.0, float(np.max(np.abs(a))) if a.size else 1.0)
    return all(abs(float(y) - float(x)) <= RTOL * scale for x, y in zip(a, m))


PAYLOADS = [((), False, True), ((2,), False, False), ((3,), True, True), ((2, 2), True, False)]  # trailing, series, scalar


def run(ctx):
    import darsia as d

    ctx.prove("C11")
    rng = ctx.rng
    lines, impl, exact, names = [], [], [], []

    def corr(name, line, arr, ex):
        lines.append(line)
        impl.append(arr)
        exact.append(ex)
        names.append(name)

    # ------------------------------------------------------------------ conservative Resize
    n_resize = 0
    worst = 0.0
    shapes = [(1, 1), (2, 3), (3, 5), (4, 4), (5, 7), (6, 4), (7, 3), (9, 8)] + [tuple(rng.randint(1, 9) for _ in range(2)) for _ in range(ctx.pick(24, 160))]
    for shape in shapes:
        down = list(itertools.product(range(1, shape[0] + 1), range(1, shape[1] + 1)))
        up = [(shape[0] * k1, shape[1] * k2) for k1, k2 in itertools.product((1, 2, 3), (1, 2, 4)) if (k1, k2) != (1, 1)]
        targets = (down if len(down) <= ctx.pick(40, 300) else rng.sample(down, ctx.pick(40, 300))) + rng.sample(up, ctx.pick(4, len(up)))
        for tgt in targets:
            trailing, series, scalar = PAYLOADS[rng.randrange(len(PAYLOADS))]
            u = rng.random()
            dtype = np.float32 if u < 0.3 else np.float64 if u < 0.7 else np.uint8 if u < 0.85 else np.uint16
            if np.issubdtype(dtype, np.integer):
                # integer-typed sources (photographs, indicator masks) can only be resized conservatively through the dtype option
                arr = np.array([rng.choice([0, 0, 1, 1, 3, 200, 255]) for _ in range(int(np.prod(shape + trailing)))], dtype=dtype).reshape(shape + trailing)
                conv = rng.choice([np.float64, np.float32])
                opts = {"resize conservative": True, "resize dtype": conv} if rng.random() < 0.5 else {"resize conservative": True, "dtype": conv}
            else:
                arr = dy_array(rng, shape + trailing, dtype)
                opts = {"resize conservative": True}
            img = image(d, arr, 2, [0.5 * shape[0], 0.25 * shape[1]], series, scalar)
            as_image = rng.random() < 0.5
            kind = "downsampling" if all(t <= s for t, s in zip(tgt, shape)) else "integer-upsampling"
            if np.issubdtype(dtype, np.integer):
                kind += ",integer-source+dtype-option"
            src = img if as_image else arr.copy()
            res = twice(ctx, d, f"Resize(conservative,{kind})", [src],
                        lambda: d.Resize(shape=tgt, interpolation="inter_area", **opts)(src),
                        {"op": "resize", "shape": shape, "target": tgt, "values": arr.ravel().tolist(), "trailing": trailing, "dtype": dtype.__name__})
            n_resize += 1
            ctx.count(("resize", shape, tgt, trailing, str(dtype)), nontrivial=tgt != shape)
            F = (lambda sig, what, rp=None: soft(ctx, sig, what, rp)) if np.issubdtype(dtype, np.integer) else ctx.fail  # integer sources: outside the quantifier
            if isinstance(res, Raised):
                F(f"C11:Resize(conservative,{kind}):raises", f"{res} for {shape}->{tgt}", {"op": "resize", "shape": shape, "target": tgt, "values": arr.ravel().tolist(), "trailing": trailing})
                continue
            out = res.img if as_image else res
            if tuple(out.shape) != tuple(tgt) + trailing:
                F(f"C11:Resize(conservative,{kind}):shape", f"shape {out.shape} for target {tgt}", {"op": "resize", "shape": shape, "target": tgt, "trailing": trailing})
                continue
            s_in = arr.astype(np.float64).sum(axis=(0, 1))
            s_out = out.astype(np.float64).sum(axis=(0, 1))
            scale = np.maximum(np.abs(arr.astype(np.float64)).sum(axis=(0, 1)), 1.0)
            err = float(np.max(np.abs(s_in - s_out) / scale))
            worst = max(worst, err)
            if err > RTOL:
                F(f"C11:Resize(conservative,{kind}):array-sum-not-conserved", f"sum {s_in.tolist()} -> {s_out.tolist()} for {shape}->{tgt} ({dtype.__name__})",
                         {"op": "resize", "shape": shape, "target": tgt, "values": arr.ravel().tolist(), "trailing": trailing, "dtype": dtype.__name__})
            if as_image and not (np.allclose(res.dimensions, img.dimensions, rtol=0, atol=0) and np.allclose(res.origin, img.origin, rtol=0, atol=0)
                                 and np.allclose(res.voxel_size, [img.dimensions[k] / tgt[k] for k in range(2)], rtol=1e-15, atol=0)):
                ctx.fail(f"C11:Resize(conservative,{kind}):dimensions-changed", f"{img.dimensions} -> {res.dimensions}", {"op": "resize", "shape": shape, "target": tgt})
            if as_image and not np.issubdtype(dtype, np.integer):
                # plain area resizing (conservative = False) preserves the physical INTEGRAL (theorem area_resize_integral)
                plain = call(lambda: d.Resize(shape=tgt, interpolation="inter_area")(img))
                ia, ib = integ(d, img), (plain if isinstance(plain, Raised) else integ(d, plain))
                if isinstance(ib, Raised) or isinstance(ia, Raised) or not np.allclose(ib, ia, rtol=RTOL, atol=RTOL * float(np.max(np.abs(arr.astype(float))) + 1) * 4):
                    soft(ctx, f"C11:Resize(inter_area,{kind}):integral-not-preserved", f"integral {ia} -> {ib} for {shape}->{tgt}",
                             {"op": "resize", "shape": shape, "target": tgt, "values": arr.ravel().tolist(), "trailing": trailing, "dtype": dtype.__name__, "conservative": False})
            if not trailing and len(lines) < ctx.pick(400, 5000):
                corr("resize", f"resize {shape[0]} {shape[1]} {tgt[0]} {tgt[1]} {flist(arr.ravel().tolist())}", out, False)
    ctx.cov["resize"] = {"cases": n_resize, "max_relative_sum_error": worst, "tolerance": RTOL}

    # ------------------------------------------------------------------ ONE long-lived Resize object re-used on inputs of different shapes
    # (theorem resize_history_indep): every call is compared with the same call on a fresh object, and the sequence with the model
    n_seq = 0
    for trial in range(ctx.pick(40, 400)):
        T = (rng.randint(1, 4), rng.randint(1, 4))
        k = rng.choice([2, 3])
        shapes_in = [(T[0] * rng.choice([1, 2, 3]), T[1] * rng.choice([1, 2, 4])) for _ in range(k)]
        if trial % 3 == 0:
            shapes_in[-1] = T  # ends with the identity resize
        dtype = np.float32 if trial % 4 == 1 else np.float64
        as_image = trial % 2 == 0
        use_ref = trial % 5 == 0
        arrs = [dy_array(rng, sh, dtype) for sh in shapes_in]
        mk = (lambda: d.Resize(ref_image=image(d, np.zeros(T), 2, [1.0, 1.0]), interpolation="inter_area", **{"resize conservative": True})) if use_ref \
            else (lambda: d.Resize(shape=T, interpolation="inter_area", **{"resize conservative": True}))
        obj = call(mk)
        outs = []
        for n, a in enumerate(arrs):
            src = image(d, a, 2, [0.5 * a.shape[0], 0.25 * a.shape[1]]) if as_image else a.copy()
            r1 = call(lambda: obj(src)) if not isinstance(obj, Raised) else obj
            fo = call(mk)
            r2 = call(lambda: fo(src)) if not isinstance(fo, Raised) else fo
            v1 = r1 if isinstance(r1, Raised) else np.asarray(r1.img if as_image else r1)
            v2 = r2 if isinstance(r2, Raised) else np.asarray(r2.img if as_image else r2)
            n_seq += 1
            ctx.count(("resize-seq", T, tuple(shapes_in), n, as_image, str(dtype)), nontrivial=n > 0)
            if not isinstance(v1, Raised):
                s_in, s_out = float(np.sum(a, dtype=float)), float(np.sum(v1, dtype=float))
                if abs(s_in - s_out) > RTOL * max(float(np.abs(a.astype(float)).sum()), 1.0):
                    ctx.fail("C11:Resize(conservative,re-used object):array-sum-not-conserved",
                             f"call {n} of one Resize(target {T}) object on inputs of shapes {shapes_in}: array sum {s_in} -> {s_out}",
                             {"op": "resize-seq", "target": T, "shapes": shapes_in, "values": [x.ravel().tolist() for x in arrs], "call": n, "image": as_image, "dtype": dtype.__name__})
                    break
            if not same(v1, v2):
                soft(ctx, "C11:Resize(conservative):re-used-object-differs-from-fresh-object",
                         f"call {n} of one Resize(target {T}) object on inputs of shapes {shapes_in}: sum {None if isinstance(v1, Raised) else float(np.sum(v1, dtype=float))} "
                         f"(input sum {float(np.sum(a, dtype=float))}), a fresh object gives {v2 if isinstance(v2, Raised) else float(np.sum(v2, dtype=float))}",
                         {"op": "resize-seq", "target": T, "shapes": shapes_in, "values": [x.ravel().tolist() for x in arrs], "call": n, "image": as_image, "dtype": dtype.__name__})
                break
            outs.append(v1)
        else:
            if not any(isinstance(o, Raised) for o in outs) and len(lines) < ctx.pick(600, 6000):
                line = f"rseq {T[0]} {T[1]} {k} " + " ".join(f"{a.shape[0]} {a.shape[1]} {flist(a.ravel().tolist())}" for a in arrs)
                corr("resize-seq", line, ("seq", outs), False)
    ctx.cov["resize_sequence_calls"] = n_seq

    # ------------------------------------------------------------------ uniform refinement / coarsening
    n_ref = 0
    shapes = [(4, 6), (3, 5), (8, 8), (6, 4), (2, 2), (1, 4), (5, 5), (16, 8), (2, 2, 4), (4, 2, 2), (3, 2, 2), (8,), (6,), (5,)]
    shapes += [tuple(rng.choice([1, 2, 3, 4, 6, 8, 12, 16]) for _ in range(rng.choice([1, 2, 2, 3]))) for _ in range(ctx.pick(16, 80))]
    for shape in shapes:
        dim = len(shape)
        for pl in PAYLOADS[: ctx.pick(2, 4)]:
            trailing, series, scalar = pl
            arr = dy_array(rng, shape + trailing)
            dims = [0.5 * n for n in shape]
            img = image(d, arr, dim, dims, series, scalar)
            i0 = integ(d, img)
            FR = ctx.fail if dim == 2 else (lambda sig, what, rp=None: soft(ctx, sig, what, rp))  # the quantifier says 2-D images
            for lv in range(-3, 4):
                n_ref += 1
                ctx.count(("refine", shape, lv, trailing), nontrivial=lv != 0)
                out = twice(ctx, d, "uniform_refinement", [img], lambda: d.uniform_refinement(img, lv),
                            {"op": "refine", "shape": shape, "level": lv, "values": arr.ravel().tolist(), "trailing": trailing})
                # does an odd extent occur along a coarsened axis (at any intermediate level)?
                odd = False
                cur = list(shape)
                for _ in range(max(0, -lv)):
                    odd |= any(n % 2 for n in cur)
                    cur = [(n + 1) // 2 for n in cur]
                replay = {"op": "refine", "shape": shape, "level": lv, "values": arr.ravel().tolist(), "trailing": trailing}
                if odd:
                    ok = (not isinstance(out, Raised)) and not isinstance(integ(d, out), Raised) and np.array_equal(integ(d, out), i0)
                    first_level_odd = any(n % 2 for n in shape)
                    if isinstance(out, Raised) or (not ok and tuple(out.img.shape[:dim]) != tuple(cur)):
                        # since the fix (current extent on every level) coarsening never raises and always halves (rounding up) every extent;
                        # before it: broadcast of a single entry at current extent 3, ValueError at current extents 1 and 5, 7, ...
                        FR("C11:uniform_refinement(levels<-1):original extent used at deeper levels(odd intermediate extent)" if not first_level_odd
                                 else "C11:uniform_refinement(levels<0):raises-or-wrong-shape(odd extent)",
                                 f"shape {shape}, levels {lv}: " + (repr(out) if isinstance(out, Raised) else f"shape {out.img.shape}, expected {tuple(cur)}"), replay)
                    elif not ok and isinstance(integ(d, out), Raised):
                        FR("C11:uniform_refinement(levels<0):integral-of-result-raises(odd extent)", repr(integ(d, out)), replay)
                    elif not ok:
                        (ctx.fail if dim == 2 else (lambda *a_, **k_: ctx.cov.__setitem__("odd_extent_non_conservative_outside_2d", ctx.cov.get("odd_extent_non_conservative_outside_2d", 0) + 1)))("C11:uniform_refinement(levels<0):odd extent along coarsened axis",
                                 f"shape {shape}, levels {lv}: " + (repr(out) if isinstance(out, Raised) else f"integral {i0.tolist()} -> {np.asarray(integ(d, out)).tolist()}"), replay)
                    continue
                if isinstance(out, Raised):
                    FR(f"C11:uniform_refinement({'refine' if lv > 0 else 'coarsen-even'}):raises", f"{out} for shape {shape} levels {lv}", replay)
                    continue
                i1 = integ(d, out)
                if isinstance(i1, Raised) or not np.allclose(i1, i0, rtol=1e-13, atol=1e-13):
                    FR(f"C11:uniform_refinement({'refine' if lv > 0 else 'coarsen-even'}):integral-changed", f"shape {shape} levels {lv}: {i0.tolist()} -> {i1 if isinstance(i1, Raised) else i1.tolist()}", replay)
                if not (np.allclose(out.dimensions, img.dimensions, rtol=0, atol=0) and np.allclose(out.origin, img.origin, rtol=0, atol=0)):
                    FR("C11:uniform_refinement:dimensions-or-origin-changed", f"{img.dimensions} -> {out.dimensions}, {list(img.origin)} -> {list(out.origin)}", replay)
                if lv > 0:
                    back = twice(ctx, d, "uniform_refinement", [out], lambda: d.uniform_refinement(out, -lv), dict(replay, second_level=-lv))
                    if isinstance(back, Raised) or back.img.shape != img.img.shape or not np.array_equal(back.img, img.img):
                        FR("C11:uniform_refinement:refine-then-coarsen-not-identity", f"shape {shape} levels {lv}", replay)
            # model correspondence: one level up and one level down (the model is per level; odd extents included - same branch as the code)
            if not trailing:
                up = call(d.uniform_refinement, img, 1)
                corr("refine", f"level 1 {flist(shape)} {flist(arr.ravel().tolist())}",
                     up if isinstance(up, Raised) else (" ".join(map(str, up.img.shape)), up.img), True)
                dn = call(d.uniform_refinement, img, -1)
                if all(n > 1 for n in shape):
                    corr("coarsen", f"level 0 {flist(shape)} {flist(arr.ravel().tolist())}",
                         dn if isinstance(dn, Raised) else (" ".join(map(str, dn.img.shape)), dn.img), True)
    ctx.cov["refinement_cases"] = n_ref

    # ------------------------------------------------------------------ reduction along an axis, extrusion
    n_red = 0
    for dim in (2, 3):
        names_c = "xyz"[:dim]
        mat = "ijk"[:dim]
        for trial in range(ctx.pick(30, 500)):
            shape = tuple(rng.randint(1, 5) for _ in range(dim)) if trial else (3, 4, 5)[:dim]
            trailing, series, scalar = PAYLOADS[trial % len(PAYLOADS)]
            arr = dy_array(rng, shape + trailing)
            dims = [rng.choice([0.25, 0.5, 1.0, 1.5]) * n for n in shape]
            if trial % 3 == 1:
                dims = [3.0] * dim  # equal physical extents: the 2-D / 3-D axis conventions cannot exchange anything visible
            origin = [rng.choice([0.0, 1.0, -2.5, 4.0]) for _ in range(dim)]
            img = image(d, arr, dim, dims, series, scalar, origin)
            i0 = integ(d, img)
            lo0, hi0 = box(img)
            for a in names_c:
                p = d.interpret_indexing(a, mat)[0]
                cart = names_c.find(a)
                kept = [c for c in range(dim) if c != cart]
                for mode in ("sum", "average"):
                    n_red += 1
                    ctx.count(("reduce", dim, shape, a, mode, trailing))
                    replay = {"op": "reduce", "dim": dim, "shape": shape, "axis": a, "mode": mode, "values": arr.ravel().tolist(), "trailing": trailing, "dims": dims, "origin": origin}
                    rn = twice(ctx, d, f"reduce_axis(dim={dim})", [img], lambda: d.reduce_axis(img, a, mode=mode), replay)
                    ri = twice(ctx, d, f"reduce_axis(dim={dim})", [img], lambda: d.reduce_axis(img, p, mode=mode), replay)
                    if isinstance(rn, Raised) or isinstance(ri, Raised):
                        ctx.fail(f"C11:reduce_axis(dim={dim},mode={mode}):raises", f"{rn} / {ri}", replay)
                        continue
                    if not np.array_equal(rn.img, ri.img) or not np.allclose(rn.dimensions, ri.dimensions) or not np.allclose(rn.origin, ri.origin):
                        ctx.fail(f"C11:reduce_axis(dim={dim}):name!=index", f"axis {a} vs index {p}", replay)
                    ref = arr.sum(axis=p)
                    if mode == "average":
                        ref = ref / shape[p]
                    if rn.img.shape != ref.shape or not (np.array_equal(rn.img, ref) if mode == "sum" else np.allclose(rn.img, ref, rtol=1e-13, atol=1e-13 * float(np.max(np.abs(arr)) + 1.0))):
                        ctx.fail(f"C11:reduce_axis(dim={dim},mode={mode}):!=array-{mode}", f"axis {a} shape {shape}", replay)
                    want_dims = [x for k, x in enumerate(dims) if k != p]
                    if not np.allclose(rn.dimensions, want_dims, rtol=0, atol=0):
                        soft(ctx, f"C11:reduce_axis(dim={dim}):dimensions(matrix-order formula)", f"{rn.dimensions} != {want_dims}", replay)
                    # integral relation: sum mode: integral x voxel length along the axis; average: integral x extent
                    i1 = integ(d, rn)
                    factor = dims[p] / shape[p] if mode == "sum" else dims[p]
                    if isinstance(i1, Raised) or not np.allclose(i1 * factor, i0, rtol=1e-13, atol=1e-13):
                        ctx.fail(f"C11:reduce_axis(dim={dim},mode={mode}):integral", f"{i1} x {factor} != {i0}", replay)
                    # physical extent of the retained axes (Cartesian order is kept by the implementation)
                    lo1, hi1 = box(rn)
                    if not (np.allclose(lo1, lo0[kept], rtol=0, atol=1e-12) and np.allclose(hi1, hi0[kept], rtol=0, atol=1e-12)):
                        ext = hi0[kept] - lo0[kept]
                        cls = "equal-extents" if np.allclose(ext, ext[0]) else "unequal-extents"
                        if cls == "unequal-extents" and not (dim == 3 and a == "z" and np.allclose(lo1, lo0[kept], rtol=0, atol=1e-12)
                                                             and np.allclose(hi1 - lo1, ext[::-1], rtol=0, atol=1e-12)):
                            cls = "unequal-extents,not-the-known-exchange-of-x-and-y"  # anything but the known convention conflict is a violation
                        ctx.fail(f"C11:reduce_axis(dim={dim},axis={a}):retained-axes-extent({cls})",
                                 f"3-D box {lo0.tolist()}..{hi0.tolist()} reduced along {a}: box {lo1.tolist()}..{hi1.tolist()}, expected {lo0[kept].tolist()}..{hi0[kept].tolist()}", replay)
                    if not trailing and mode == "sum":
                        corr("reduce", f"reduce 0 {p} {flist(shape)} {flist(arr.ravel().tolist())}", rn.img, True)
                    if not trailing and mode == "average":
                        corr("reduce", f"reduce 1 {p} {flist(shape)} {flist(arr.ravel().tolist())}", rn.img, False)
            if dim == 2:
                height, num = rng.choice([0.5, 0.75, 2.0]), rng.randint(1, 4)
                replay = {"op": "extrude", "shape": shape, "height": height, "num": num, "values": arr.ravel().tolist(), "trailing": trailing, "dims": dims, "origin": origin}
                ex = twice(ctx, d, "extrude_along_axis", [img], lambda: d.extrude_along_axis(img, height, num), replay)
                n_red += 1
                ctx.count(("extrude", shape, height, num, trailing))
                # the reference values are taken from the source AFTER the calls as well (twice() has required them to be unchanged)
                i0b, (lo0b, hi0b) = integ(d, img), box(img)
                if isinstance(i0b, Raised) or not np.array_equal(i0b, i0) or not np.array_equal(lo0b, lo0) or not np.array_equal(hi0b, hi0):
                    soft(ctx, "C11:extrude_along_axis:source-changed-by-call", f"integral/extents of the 2-D source {i0}, {lo0}..{hi0} -> {i0b}, {lo0b}..{hi0b}", dict(replay, clause="source-unchanged"))
                if isinstance(ex, Raised):
                    ctx.fail("C11:extrude_along_axis:raises", repr(ex), replay)
                    continue
                i1 = integ(d, ex)
                if isinstance(i1, Raised) or not np.allclose(i1, height * i0, rtol=1e-13, atol=1e-13):
                    ctx.fail("C11:extrude_along_axis:integral!=integral*height", f"{i1} != {height} * {i0}", replay)
                ex2 = getattr(ctx, "second_result", None)  # stated clause on the SECOND extrusion of the same source (reference: pre-call integral)
                if ex2 is not None and not isinstance(ex2, Raised):
                    i2 = integ(d, ex2)
                    if isinstance(i2, Raised) or not np.allclose(i2, height * i0, rtol=1e-13, atol=1e-13):
                        ctx.fail("C11:extrude_along_axis(second extrusion of the same image):integral!=integral*height", f"{i2} != {height} * {i0}", dict(replay, clause="second-call"))
                if ex.img.shape != (num,) + arr.shape or any(not np.array_equal(ex.img[k], arr) for k in range(num)):
                    soft(ctx, "C11:extrude_along_axis:data", "layers are not copies of the image", replay)
                back = twice(ctx, d, "reduce_axis(dim=3)", [ex], lambda: d.reduce_axis(ex, 0, mode="average"), replay)
                if isinstance(back, Raised) or not np.allclose(back.img, arr, rtol=1e-13, atol=1e-13 * float(np.max(np.abs(arr)) + 1.0)):
                    soft(ctx, "C11:extrude_along_axis:reduce(average)-not-inverse", "", replay)
                lo1, hi1 = box(ex)
                if not (np.allclose(lo1[:2], lo0, rtol=0, atol=1e-12) and np.allclose(hi1[:2], hi0, rtol=0, atol=1e-12)):
                    cls = "equal-extents" if np.isclose(hi0[0] - lo0[0], hi0[1] - lo0[1]) else "unequal-extents"
                    ext2 = hi0 - lo0
                    if cls == "unequal-extents" and not (np.allclose(lo1[0], lo0[0], atol=1e-12) and np.allclose(hi1[1], hi0[1], atol=1e-12)
                                                         and np.allclose((hi1 - lo1)[:2], ext2[::-1], rtol=0, atol=1e-12)):
                        cls = "unequal-extents,not-the-known-exchange-of-x-and-y"
                    ctx.fail(f"C11:extrude_along_axis:retained-axes-extent({cls})",
                             f"2-D box {lo0.tolist()}..{hi0.tolist()} extruded: x,y box {lo1[:2].tolist()}..{hi1[:2].tolist()}", replay)
                if not trailing:
                    corr("extrude", f"extrude {num} {flist(shape)} {flist(arr.ravel().tolist())}", ex.img, True)
    ctx.cov["reduction_extrusion_cases"] = n_red

    # ------------------------------------------------------------------ superposition
    n_sup = 0
    H = 0.5
    for trial in range(ctx.pick(150, 3000)):
        k = 1 + trial % 4
        shared = trial % 5 == 0
        series = trial % 3 == 0
        dtype = np.float32 if trial % 7 == 3 else np.float64
        placed = []
        for _ in range(k):
            shape = (4, 6) if shared else (rng.randint(1, 5), rng.randint(1, 5))
            off = (0, 0) if shared else (rng.randint(0, 4), rng.randint(0, 4))  # rows from the top edge y = 10, columns from x = -1
            placed.append((off, shape, dy_array(rng, shape + ((2,) if series else ()), dtype)))
        imgs = []
        for off, shape, arr in placed:
            kw = dict(space_dim=2, dimensions=[H * shape[0], H * shape[1]], origin=[-1.0 + H * off[1], 10.0 - H * off[0]], scalar=True, series=series)
            if series:
                kw["time"] = [0, 1]
            imgs.append(d.Image(arr, **kw))
        replay = {"op": "superpose", "images": [{"offset": o, "shape": s, "values": a.ravel().tolist()} for o, s, a in placed], "series": series, "dtype": dtype.__name__}
        tot_before = sum(integ(d, im) for im in imgs)
        res = twice(ctx, d, f"superpose({'shared' if shared else 'offset'}-grid)", imgs, lambda: d.superpose(imgs), replay)
        n_sup += 1
        ctx.count(("superpose", k, shared, series, tuple((o, s) for o, s, _ in placed)), nontrivial=k > 1)
        if isinstance(res, Raised):
            ctx.fail(f"C11:superpose({'shared' if shared else 'offset'}-grid):raises", repr(res), replay)
            continue
        r0 = min(o[0] for o, _, _ in placed)
        c0 = min(o[1] for o, _, _ in placed)
        R = max(o[0] + s[0] for o, s, _ in placed) - r0
        C = max(o[1] + s[1] for o, s, _ in placed) - c0
        exp = np.zeros((R, C) + ((2,) if series else ()), dtype=np.float64)
        for o, s, a in placed:
            exp[o[0] - r0: o[0] - r0 + s[0], o[1] - c0: o[1] - c0 + s[1]] += a
        if res.img.shape != exp.shape or not np.array_equal(res.img.astype(np.float64), exp):
            (ctx.fail if shared else (lambda sig, what, rp=None: soft(ctx, sig, what, rp)))(f"C11:superpose({'shared' if shared else 'offset'}-grid):!=sum-of-placed-arrays", f"{k} images, canvas {exp.shape}, got shape {res.img.shape}", replay)
        tot = sum(integ(d, im) for im in imgs)
        i1 = integ(d, res)
        if isinstance(i1, Raised) or not np.allclose(i1, tot, rtol=1e-13, atol=1e-13) or not np.array_equal(tot, tot_before):
            ctx.fail(f"C11:superpose({'shared' if shared else 'offset'}-grid):integral", f"{i1} != {tot}", replay)
        if not series and res.img.shape == exp.shape:
            # the CANVAS is computed by the model from the raw positions; the implementation's canvas is read from its metadata
            line = f"canvas {k} " + " ".join(f"{o[0]} {o[1]} {s[0]} {s[1]} {flist(a.ravel().tolist())}" for o, s, a in placed)
            tmin = (10.0 - float(res.origin[1])) / H
            lmin = (float(res.origin[0]) + 1.0) / H
            head = f"{fmts([tmin, lmin])} {res.img.shape[0]} {res.img.shape[1]}"
            if not np.allclose(res.dimensions, [H * res.img.shape[0], H * res.img.shape[1]], rtol=0, atol=0):
                head += " dims!"
            corr("superpose", line, (head, res.img), True)
    ctx.cov["superpose_cases"] = n_sup

    # ------------------------------------------------------------------ multi-level coarsening exactly as coded (1-D)
    # current code (fix 01b9c8c): every level uses its current extent = iterated single-level coarsening; conservative for every image
    # iff 2^levels divides the extent, otherwise the unpaired last voxel of an odd level is halved (known finding); it never raises
    n_coded = 0
    for n in (range(1, 65) if ctx.big else list(range(1, 21)) + [24, 32, 40, 48, 64]):
        arr = dy_array(rng, (n,))
        img = image(d, arr, 1, [0.5 * n], False, True)
        i0 = integ(d, img)
        for lv in (1, 2, 3):
            out = call(d.uniform_refinement, img, -lv)
            n_coded += 1
            ctx.count(("coded", n, lv))
            corr("coded", f"coded {n} {lv} {flist(arr.tolist())}", out if isinstance(out, Raised) else (str(out.img.shape[0]), out.img), True)
            if n % (2 ** lv) == 0:
                i1 = None if isinstance(out, Raised) else integ(d, out)
                if isinstance(out, Raised) or isinstance(i1, Raised) or not np.array_equal(i1, i0):
                    soft(ctx, "C11:uniform_refinement(levels<0,1-D):extent-divisible-by-2^levels-not-conservative", f"n={n} levels={-lv}: {out if isinstance(out, Raised) else i1} vs {i0}",
                             {"op": "refine", "shape": (n,), "level": -lv, "values": arr.tolist(), "trailing": ()})
    ctx.cov["coded_coarsening_cases"] = n_coded

    # ------------------------------------------------------------------ equalize_voxel_size and Resize metadata
    n_eq = 0
    for trial in range(ctx.pick(120, 1500)):
        h = rng.choice([0.5, 0.25, 0.1, 0.3, 1.1 / 7, 0.7 / 3, rng.uniform(0.01, 2.0)])
        shape = (rng.randint(1, 12), rng.randint(1, 12))
        ratio = [1, rng.choice([1, 2, 3, 5])]
        rng.shuffle(ratio)
        dims = [shape[k] * h * ratio[k] for k in range(2)]
        origin = [rng.choice([0.0, 1.5, -2.0]), rng.choice([0.0, 4.0])]
        arr = dy_array(rng, shape)
        img = image(d, arr, 2, dims, False, True, origin)
        explicit = trial % 3 == 0
        out = twice(ctx, d, "equalize_voxel_size", [img],
                    (lambda: d.equalize_voxel_size(img, voxel_size=h, interpolation="inter_area")) if explicit else (lambda: d.equalize_voxel_size(img, interpolation="inter_area")),
                    {"op": "equalize", "shape": shape, "dims": dims, "origin": origin, "voxel_size": h if explicit else None, "values": arr.ravel().tolist()})
        n_eq += 1
        ctx.count(("equalize", shape, tuple(ratio), h, explicit))
        replay = {"op": "equalize", "shape": shape, "dims": dims, "origin": origin, "voxel_size": h if explicit else None, "values": arr.ravel().tolist()}
        if isinstance(out, Raised):
            soft(ctx, "C11:equalize_voxel_size:raises", repr(out), replay)
            continue
        want = tuple(shape[k] * ratio[k] for k in range(2))  # extent / voxel size is an integer along both axes
        if tuple(out.img.shape[:2]) != want:
            soft(ctx, "C11:equalize_voxel_size:voxel-count(extent-is-integer-multiple-of-voxel-size)",
                     f"shape {shape}, dimensions {dims}, voxel sizes {img.voxel_size}: result shape {out.img.shape[:2]}, voxel sizes {out.voxel_size}; "
                     f"extent / voxel size is {want} (the unified voxel size would be {h})", replay)
        elif not np.allclose(out.voxel_size, [h, h], rtol=1e-12, atol=0):
            soft(ctx, "C11:equalize_voxel_size:voxel-size-not-unified", f"{out.voxel_size} != {h}", replay)
        if not (np.allclose(out.dimensions, dims, rtol=0, atol=0) and np.allclose(out.origin, origin, rtol=0, atol=0)):
            soft(ctx, "C11:equalize_voxel_size:extent-changed", f"dimensions {dims} -> {out.dimensions}, origin {origin} -> {list(out.origin)}", replay)
        if h in (0.5, 0.25):  # dyadic: float quotients exact, the model's floor(d / vs + 1/2) must agree
            corr("equalize", f"equalize {flist(shape)} {flist(dims)} {fmts([h]) if explicit else 'none'}", (" ".join(map(str, out.img.shape[:2])), None), True)
    ctx.cov["equalize_cases"] = n_eq

    # ------------------------------------------------------------------ correspondence
    got = ctx.model(lines)
    bad = []
    for i, (g, a, ex) in enumerate(zip(got, impl, exact)):
        if isinstance(a, tuple) and a[0] == "seq":  # results of successive calls on one object
            parts_ = g.split(" ; ")
            ok = len(parts_) == len(a[1]) and all(vals_close(p_, o_, ex) for p_, o_ in zip(parts_, a[1]))
        elif isinstance(a, tuple) and a[1] is None:  # shape only
            ok = g.strip() == a[0]
        elif isinstance(a, tuple):  # "shape | values"
            shp, arr = a
            ok = " | " in g and g.split(" | ")[0].strip() == shp and vals_close(g.split(" | ")[1], arr, ex)
        else:
            ok = vals_close(g, a, ex)
        if not ok:
            bad.append(i)
    per = {}
    for n in names:
        per[n] = per.get(n, 0) + 1
    ctx.cov.setdefault("correspondence", {})["resampling"] = {"cases": len(lines), "disagreements": len(bad), "by_operation": per,
                                                               "exact": sum(exact), "tolerance_1e-6": len(exact) - sum(exact)}
    if lines:
        ctx.sample({"corr": names[0], "request": lines[0][:200], "model": got[0][:200]})
    if bad:
        i = min(bad, key=lambda k: len(lines[k]))
        a = impl[i]
        shown = repr(a) if isinstance(a, Raised) else str(a[1])[:400] if isinstance(a, tuple) and a[0] == "seq" else fmts(np.asarray(a[1] if isinstance(a, tuple) else a, dtype=float).ravel().tolist())
        ctx.mark("CORR-BROKEN", {"correspondence": names[i], "request": lines[i][:1500], "model": got[i][:1500], "impl": shown[:1500], "n_diffs": len(bad)})
        ctx.log(f"correspondence {names[i]}: {len(bad)} disagreements, e.g. {lines[i][:160]} model={got[i][:120]} impl={shown[:120]}")
    ctx.cov["rule"] = ("Resize: base + random shapes <= 9x9, all (quick: sampled) smaller targets and integer multiples, float32/float64, scalar/vector/series; "
                       "refinement: levels -3..3 on 1-3-D shapes incl. odd extents; reduction: every axis by name and index, 2-D and 3-D; extrusion; "
                       "superposition of 1..4 voxel-aligned images; distinct = (operation, shapes, parameters)")
    ctx.assumptions += ["OpenCV INTER_AREA (cv2.resize) and warpPerspective kernels: contract checked numerically, not proved",
                        "Resize conserves the array sum (documented counterpart), not sum x voxel volume"]


def replay(data):
    """re-run one stored case on the implementation and print observed vs required values"""
    import darsia as d

    r = data.get("replay", data)
    op = r.get("op")
    print(f"property C11 op={op} signature={data.get('signature')}")
    tr = tuple(r.get("trailing", ()))
    if op == "resize":
        arr = np.array(r["values"], dtype=r.get("dtype", "float64")).reshape(tuple(r["shape"]) + tr)
        out = call(lambda: d.Resize(shape=tuple(r["target"]), interpolation="inter_area", **{"resize conservative": True})(arr.copy()))
        print(f"sum before {arr.astype(float).sum(axis=(0, 1)).tolist()} after {out if isinstance(out, Raised) else out.astype(float).sum(axis=(0, 1)).tolist()} (required: equal within 1e-6 relative)")
        if isinstance(out, Raised):
            return 1
        a, b = arr.astype(float).sum(axis=(0, 1)), out.astype(float).sum(axis=(0, 1))
        return 0 if np.allclose(a, b, rtol=RTOL, atol=RTOL * max(1.0, float(np.abs(arr.astype(float)).sum()))) else 1
    if op == "refine":
        shape = tuple(r["shape"])
        arr = np.array(r["values"], dtype=float).reshape(shape + tr)
        img = image(d, arr, len(shape), [0.5 * n for n in shape], len(tr) >= 1 and tr != (2,), not (tr == (2,) or len(tr) == 2))
        out = call(d.uniform_refinement, img, r["level"])
        i0 = integ(d, img)
        print(f"shape {shape} levels {r['level']}: integral before {np.asarray(i0).tolist()} after {out if isinstance(out, Raised) else np.asarray(integ(d, out)).tolist()} (required: equal)")
        return 1 if isinstance(out, Raised) or isinstance(integ(d, out), Raised) or not np.array_equal(integ(d, out), i0) else 0
    if op in ("reduce", "extrude"):
        shape = tuple(r["shape"])
        arr = np.array(r["values"], dtype=float).reshape(shape + tr)
        img = image(d, arr, len(shape), r["dims"], len(tr) >= 1 and tr != (2,), not (tr == (2,) or len(tr) == 2), r["origin"])
        out = call(d.reduce_axis, img, r["axis"], mode=r["mode"]) if op == "reduce" else call(d.extrude_along_axis, img, r["height"], r["num"])
        lo0, hi0 = box(img)
        print(f"input box {lo0.tolist()}..{hi0.tolist()} dimensions {img.dimensions}")
        if isinstance(out, Raised):
            print("raised", out)
        else:
            lo1, hi1 = box(out)
            print(f"output box {lo1.tolist()}..{hi1.tolist()} dimensions {out.dimensions} integral in {np.asarray(integ(d, img)).tolist()} out {np.asarray(integ(d, out)).tolist()}")
            if op == "extrude":
                return 0 if np.allclose(lo1[:2], lo0, atol=1e-12) and np.allclose(hi1[:2], hi0, atol=1e-12) else 1
            cart = "xyz".find(r["axis"]) if isinstance(r["axis"], str) else None
            if cart is not None:
                kept = [c for c in range(len(shape)) if c != cart]
                return 0 if np.allclose(lo1, lo0[kept], atol=1e-12) and np.allclose(hi1, hi0[kept], atol=1e-12) else 1
            return 0
        return 1
    import json

    print(json.dumps(r)[:2000])
    return 0
