"""C19 - patching tiles an image exactly.

Tie: differential correspondence of Patches(img, n, rel_overlap) against DarsiaModel.Patches (ROIs, relative ROIs,
patch data as base-image index grids, assemble(), corner and centre tables), exact on the dyadic stream
(dimensions = N*n*h with dyadic h, dyadic overlaps), index-exact on the general stream (patch size / overlap read
from the implementation are checked against the exact rational value). The oracle evaluates the statement on the
implementation: coverage count of the interiors, assemble() == base, each patch == block at its advertised
corners with the base's placement, centres / corners voxel-vs-physical agreement.
"""
from __future__ import annotations

import json
from fractions import Fraction
from math import ceil

import numpy as np

from ..lib.core import flist, fmts, frac
from ..lib.impl import Raised, call
from . import c02, c20

LEVEL = "proof"
CLAIM = dict(
    category="proof",
    text="Theorems in DarsiaProps.C19 about the executable model DarsiaModel.Patches (arrays as grids of base-image indices, numpy "
    "slicing as drop/take), for EVERY extent N, patch count n >= 1, overlap ov <= pv: pv_eq_ceil (the integer patch size the code computes is ceil(N/n) = the exact value of the "
    "former metric formula; n*pv >= N), assemble_patches_id (end to end: cs.ok, n > 0, 0 <= rel <= 1 imply assemble() of the axes the code derives is the identity), "
    "corners_delimit_interior, hstack_rows_agree (guard of the model's hstack: equal row counts, so np.hstack's error path is never taken), centre_outside_patch_witness (negative; known finding), ov_le_pv, rel_roi_is_interior, interiors_partition (interiors concatenate to 0..N-1 for "
    "every pv with n*pv >= N), assemble_id (assemble() is the identity grid), patch_is_subimage, centres_voxel_physical_agree (the "
    "hard-coded centre layout is the base coordinate system; voxel centre = floor), corners_centres_agree_of_dvd, and the negative "
    "witness corners_voxel_physical_disagree_witness (n does not divide N; known finding). Round 2: patch_metadata (patch (i,j) as an IMAGE = the C02 sub-image theorem at rois[i][j]: "
    "shape, coordinates of every voxel position, voxel size, time/payload flags, and the pixel array entry by entry, scalar and vector payload), patches_refuse_3d_and_series, "
    "interiors_cover_once (counting form: every pixel in exactly one interior), position_classifies, patch_order (tables enumerate every patch once, rows outer), "
    "ov_ceil_bridge (float bridge for the overlap; the quotient's measured relative error and the breakpoint cases are recorded in the evidence), blend_and_assemble_unusable (negative: the method raises on every call; known finding) with the "
    "specification blend_spec_partial (partition-of-unity weights reproduce the image; interior indicators are such weights) - the blending weights of the code are NOT modelled because the code cannot run. Tie: differential correspondence of every "
    "public table of Patches with the model (exact on dyadic geometries) + oracle on the implementation.",
    note="STATUS OF CLAUSES (round 7): failing inputs are claimed only for tiling (every voxel in exactly one interior), assemble() = base (metadata within tolerance), interior = block at the advertised corners, patch placement (origin, voxel size), voxel(centres_c) = centres_v away from faces, and agreement of the two ADVERTISED corner tables (the exact known gap for n not dividing N is the known finding); the current formulas (patch size, overlap, corner / centre formulas, widened block), set_image, position, local corners and every blend outcome other than the registered one are TIE-BROKEN marks; a configuration Patches refuses is counted as not buildable; set_image with a wrong shape is an observation; an unevaluable result is a HARNESS-EXCEPTION mark; tolerances are 4 ulp*scale on the dyadic stream; metadata dtype classes are exercised on the general stream (python-int dimensions / origin, the default dimensions [1, 1], float32 - compared with the float32 unit roundoff -, mixed); the model is over Q and hence dtype-agnostic; set_image followed by assemble() is checked by the oracle only (no theorem); blend_and_assemble raises AttributeError on every call (known finding; only a specification is proved); 3-D and space-time patches raise NotImplementedError in the code (modelled, error class tied); "
    "on general (non-dyadic) geometries the overlap in voxels is read from the implementation and only checked to be one of the two "
    "admissible roundings of the exact value.",
    technique="Lean 4 proof (list/index-grid model, induction over patches) + differential correspondence + oracle search",
)
EPS = Fraction(1, 2**52)
KNOWN_CORNERS = "C19:global_corners_voxels!=global_corners_cartesian:patch-count-not-dividing-extent"
KNOWN_CENTRES = "C19:global_centers_voxels-outside-own-patch:patch-count-not-dividing-extent"


def make_cfg(rng, N, n, rel, regime, colour):
    cfg = dict(N=list(N), n=list(n), colour=bool(colour), regime=regime)
    if regime == "dyadic":
        h = [Fraction(rng.randint(1, 5), 2 ** rng.randint(0, 4)) for _ in range(2)]
        cfg["dims"] = [float(N[a] * n[a] * h[a]) for a in range(2)]
        cfg["rel"] = float(rel)
        cfg["origin"] = rng.choice([None, [float(Fraction(rng.randint(-64, 64), 4)), float(Fraction(rng.randint(-64, 64), 4))]])
    else:
        cfg["dims"] = [10 ** rng.uniform(-3, 3), 10 ** rng.uniform(-3, 3)] if rng.random() < 0.7 else [rng.choice([0.1, 0.3, 0.92, 1.05, 1.1, 1.5, 2.8]) for _ in range(2)]
        cfg["rel"] = float(rel)
        cfg["origin"] = rng.choice([None, [rng.uniform(-50, 50), rng.uniform(-50, 50)]])
        # dtype of the METADATA: python ints (integer-typed origin / dimensions arrays inside the image, also via the default
        # dimensions [1, 1] and the default origin derived from whole-numbered dimensions), float32, mixed
        meta = rng.choice(["float", "float", "int", "int", "default-dims", "float32", "mixed"])
        cfg["meta"] = meta
        if meta == "int":
            cfg["dims"] = [rng.randint(1, 9), rng.randint(1, 9)]
            cfg["origin"] = rng.choice([None, [rng.randint(-20, 20), rng.randint(-20, 20)]])
        elif meta == "default-dims":
            cfg["dims"] = [1, 1]  # not passed to the constructor
            cfg["origin"] = rng.choice([None, None, [rng.randint(-5, 5), rng.randint(-5, 5)]])
        elif meta == "float32":
            cfg["dims"] = [float(np.float32(x)) for x in cfg["dims"]]
            if cfg["origin"] is not None:
                cfg["origin"] = [float(np.float32(x)) for x in cfg["origin"]]
        elif meta == "mixed":
            cfg["dims"] = [rng.randint(1, 9), cfg["dims"][1]]
            if cfg["origin"] is not None:
                cfg["origin"] = [cfg["origin"][0], rng.randint(-20, 20)]
    return cfg


def base_image(d, cfg):
    N0, N1 = cfg["N"]
    if cfg["colour"]:
        arr = np.arange(N0 * N1 * 3, dtype=np.int64).reshape(N0, N1, 3)
    else:
        arr = np.arange(N0 * N1, dtype=np.int64).reshape(N0, N1)
    meta = cfg.get("meta", "float")
    cast = (lambda x: np.float32(x)) if meta == "float32" else (lambda x: x)
    kw = dict(space_dim=2, scalar=not cfg["colour"])
    if meta != "default-dims":
        kw["dimensions"] = [cast(x) for x in cfg["dims"]]
    if cfg["origin"] is not None:
        kw["origin"] = [cast(x) for x in cfg["origin"]]
    return call(d.Image, arr, **kw)


def decode(cfg, arr):
    """Base-image flat index (r*N1+c) of every entry of a patch array (channel 0)."""
    if cfg["colour"]:
        return np.asarray(arr)[..., 0] // 3
    return np.asarray(arr)


def grid_str(g):
    g = np.asarray(g)
    if g.ndim != 2:
        return f"!shape{g.shape}"
    return f"{g.shape[0]} {g.shape[1] if g.shape[0] else 0} | " + " ".join(str(int(x)) for x in g.ravel())


def exact_pv_ov(cfg):
    out = []
    for a in range(2):
        N, n = cfg["N"][a], cfg["n"][a]
        D = frac(cfg["dims"][a])
        x = (frac(cfg["rel"]) * (D / n)) / (D / N)
        out.append((-(-N // n), x))
    return out


def evaluate(d, cfg, want_tables=False):
    """Evaluate the whole statement on one configuration. Returns (failures, tables|None, info).
    failures: list of (signature, what, detail)."""
    fails = []
    info = {}
    E = Fraction(1, 2 ** 23) if cfg.get("meta") == "float32" else EPS  # float32 metadata: the image computes its geometry in float32
    img = base_image(d, cfg)
    if isinstance(img, Raised):
        return [("C19:Image:raises", f"base image cannot be built: {img}", {})], None, info
    N0, N1 = cfg["N"]
    n0, n1 = cfg["n"]
    p = call(d.Patches, img, [n0, n1], rel_overlap=cfg["rel"])
    if isinstance(p, Raised):
        # the property quantifies over configurations for which patches can be built
        info["not_buildable"] = repr(p)
        return fails, None, info  # "for which patches can be built": a refused configuration is counted, never a failure
    cs = img.coordinatesystem
    dyadic = cfg["regime"] == "dyadic"
    origin = [frac(float(x)) for x in np.asarray(img.origin)]
    D = [frac(x) for x in cfg["dims"]]
    # a few ulp of the scale also on dyadic geometries (an equivalent evaluation order may differ in the last bit)
    tolx = (4 if dyadic else 16) * E * (abs(origin[0]) + D[1])
    toly = (4 if dyadic else 16) * E * (abs(origin[1]) + D[0])
    ex = exact_pv_ov(cfg)
    pv_, ov_ = getattr(p, "pv", None), getattr(p, "ov", None)  # private-ish attributes: their absence is a broken tie, not a crash
    if pv_ is None or ov_ is None:
        fails.append(("C19:patch-size!=ceil(N/n):attribute-missing", "Patches has no attribute pv / ov any more; the model's values are used for the dependent (model-tie) clauses", {}))
    pv = [int(x) for x in pv_] if pv_ is not None else [ex[0][0], ex[1][0]]
    ov = [int(x) for x in ov_] if ov_ is not None else [ceil(ex[0][1]), ceil(ex[1][1])]
    info["pv"], info["ov"] = pv, ov
    # --- patch size and overlap against the exact value (model tie)
    for a in range(2):
        if pv[a] != ex[a][0]:
            fails.append((f"C19:patch-size!=ceil(N/n):{'dividing' if cfg['N'][a] % cfg['n'][a] == 0 else 'non-dividing'}",
                          f"axis {a}: {cfg['N'][a]} voxels in {cfg['n'][a]} patches of physical size {cfg['dims'][a]!r}/{cfg['n'][a]}: patch size {pv[a]} voxels, ceil(N/n) = {ex[a][0]}",
                          {"axis": a, "observed": pv[a], "required": ex[a][0]}))
        x = ex[a][1]
        lo, hi = ceil(x * (1 - 8 * E)), ceil(x * (1 + 8 * E))
        if dyadic:
            lo = hi = ceil(x)
        if not (lo <= ov[a] <= hi):
            fails.append((f"C19:overlap!=ceil(rel*N/n)", f"axis {a}: overlap {ov[a]} voxels, exact ceil({float(x)}) = {ceil(x)}", {"axis": a, "observed": ov[a], "required": ceil(x)}))
    # --- interiors tile the image: coverage count
    cover = np.zeros(N0 * N1, dtype=int)
    pieces_ok = True
    for i in range(n0):
        for j in range(n1):
            P = call(p, i, j)
            if isinstance(P, Raised):
                fails.append(("C19:patch(i,j):raises", f"patches({i},{j}) raises {P!r}", {"patch": [i, j]}))
                pieces_ok = False
                continue
            rel = p.relative_rois_without_overlap[i][j]
            piece = call(lambda: decode(cfg, P.img[rel]))
            if isinstance(piece, Raised):
                fails.append(("C19:interior:raises", f"patch ({i},{j}).img[relative roi] raises {piece!r}", {"patch": [i, j]}))
                pieces_ok = False
                continue
            np.add.at(cover, piece.ravel().astype(int), 1)
            # the interior is the block at the advertised voxel corners
            gc = np.asarray(p.global_corners_voxels[i, j])
            r0, c0, r1, c1 = int(gc[0][0]), int(gc[0][1]), int(gc[2][0]), int(gc[2][1])
            block = decode(cfg, img.img[r0:r1, c0:c1])
            if piece.size != block.size or (piece.size and not np.array_equal(piece, block)):
                fails.append(("C19:interior!=block-at-global_corners_voxels", f"patch ({i},{j}): interior is not base[{r0}:{r1}, {c0}:{c1}]",
                              {"patch": [i, j], "corners": gc.tolist(), "observed": grid_str(piece)[:200], "required": grid_str(block)[:200]}))
            whole = decode(cfg, P.img)
            wr0, wr1 = max(i * pv[0] - ov[0], 0), min((i + 1) * pv[0] + ov[0], N0)
            wc0, wc1 = max(j * pv[1] - ov[1], 0), min((j + 1) * pv[1] + ov[1], N1)
            wblock = decode(cfg, img.img[wr0:max(wr0, wr1), wc0:max(wc0, wc1)])
            if whole.size != wblock.size or (wblock.size and not np.array_equal(whole, wblock)):
                fails.append(("C19:patch!=block-at-corners-plus-overlap", f"patch ({i},{j}) with overlap {ov}: data are not base[{wr0}:{wr1}, {wc0}:{wc1}] (advertised corner ({i * pv[0]},{j * pv[1]}) widened by the overlap and clipped)", {"patch": [i, j]}))
            if ov[0] == 0 and ov[1] == 0 and (whole.size != block.size or (block.size and not np.array_equal(whole, block))):
                fails.append(("C19:patch!=block-at-global_corners_voxels", f"patch ({i},{j}) (no overlap) is not base[{r0}:{r1}, {c0}:{c1}]", {"patch": [i, j]}))
            # local corners = global corners relative to the top-left one
            lc = call(lambda: np.asarray(p.local_corners_voxels[i, j]))
            if isinstance(lc, Raised):
                fails.append(("C19:local_corners_voxels:unreadable", repr(lc), {"patch": [i, j]}))
            elif P.img.size and not np.array_equal(lc, gc - gc[0]):
                fails.append(("C19:local_corners_voxels!=global-topleft", f"patch ({i},{j}): local corners {lc.tolist()} vs global {gc.tolist()}", {"patch": [i, j]}))
            # placement: the patch's own coordinate system is the base's, shifted to the patch's first voxel
            if P.img.size:
                first = int(decode(cfg, P.img)[0, 0])
                fr, fc = divmod(first, N1)
                want_o = [frac(float(x)) for x in np.asarray(cs.coordinate([fr, fc]))]
                got_o = [frac(float(x)) for x in np.asarray(P.origin)]
                if abs(got_o[0] - want_o[0]) > tolx or abs(got_o[1] - want_o[1]) > toly:
                    fails.append(("C19:patch.origin!=base.coordinate(first voxel)", f"patch ({i},{j}): origin {list(map(float, got_o))}, base coordinate of its first voxel ({fr},{fc}) {list(map(float, want_o))}", {"patch": [i, j]}))
                hs = call(lambda: P.voxel_size)
                hb = img.voxel_size
                # dimensions of the patch = |coordinate(stop) - coordinate(start)|: absolute error of a few ulp of (|origin| + D);
                # the voxel size inherits it divided by the patch extent
                oax = (origin[1], origin[0])  # Cartesian component that carries matrix axis a (2-D: rows <-> y, columns <-> x)
                tolh = [Fraction(0) if dyadic else 16 * E * ((abs(oax[a]) + D[a]) / P.img.shape[a] + frac(hb[a])) for a in range(2)]
                if isinstance(hs, Raised) or any(abs(frac(hs[a]) - frac(hb[a])) > tolh[a] for a in range(2)):
                    beyond = (i + 1) * pv[0] + ov[0] > N0 or (j + 1) * pv[1] + ov[1] > N1
                    fails.append((f"C19:patch.voxel_size!=base.voxel_size:{'roi-beyond-image' if beyond else 'roi-inside-image'}",
                                  f"patch ({i},{j}) of shape {P.img.shape[:2]}: voxel size {hs} but base voxel size {hb} (roi {getattr(p, 'rois', None) and p.rois[i][j]})", {"patch": [i, j]}))
    if pieces_ok and not np.all(cover == 1):
        k = int(np.nonzero(cover != 1)[0][0])
        fails.append((f"C19:interiors-tile:{'gap' if cover[k] == 0 else 'double-cover'}", f"base voxel {divmod(k, N1)} is covered {int(cover[k])} times by the patch interiors",
                      {"voxel": list(divmod(k, N1)), "count": int(cover[k])}))
    # --- position(i, j): first patch left / bottom, last patch (if there are at least two) right / top, others internal
    for (i, j) in {(0, 0), (n0 - 1, n1 - 1), (n0 // 2, n1 // 2)}:
        r = call(p.position, i, j)
        want_pos = ("left" if i == 0 else "right" if i == n0 - 1 else "internal", "bottom" if j == 0 else "top" if j == n1 - 1 else "internal")
        if isinstance(r, Raised) or tuple(r) != want_pos:
            fails.append(("C19:position", f"position({i},{j}) of {n0}x{n1} patches = {r!r}, documented {want_pos}", {"patch": [i, j]}))
    # --- float path of the overlap: ov = ceil of the float quotient (rel * (D/n)) / (D/N); exact value x = rel * N / n
    for a in range(2):
        Df, relf = float(cfg["dims"][a]), float(cfg["rel"])
        qf = (relf * (Df / cfg["n"][a])) / (Df / cfg["N"][a])  # the float operations of Patches.__init__ / num_voxels, in their order
        x = ex[a][1]
        if x != 0:
            info["ov_quotient_rel_err"] = max(info.get("ov_quotient_rel_err", 0.0), float(abs(frac(qf) - x) / x))
        if x.denominator == 1 and x != 0:
            info["ov_breakpoints"] = info.get("ov_breakpoints", 0) + 1
            if ov[a] != int(x):
                info["ov_float_off_by_one_at_breakpoint"] = info.get("ov_float_off_by_one_at_breakpoint", 0) + 1
    # --- set_image: a patch replaced by new data of the same shape is what assemble() then places at the patch's interior
    if pieces_ok and n0 * n1 > 0:
        i0, j0 = (N0 * 7 + n1) % n0, (N1 * 5 + n0) % n1
        P0 = p(i0, j0)
        if P0.img.size:
            new = -1.0 - np.asarray(P0.img, dtype=float)
            r = call(p.set_image, new, i0, j0)
            A2 = call(p.assemble)
            rel0 = p.relative_rois_without_overlap[i0][j0]
            want = np.asarray(img.img, dtype=float).copy()
            r0_, r1_ = i0 * pv[0], min((i0 + 1) * pv[0], N0)
            c0_, c1_ = j0 * pv[1], min((j0 + 1) * pv[1], N1)
            want[r0_:r1_, c0_:c1_] = new[rel0]
            if isinstance(r, Raised) or isinstance(A2, Raised) or not np.array_equal(np.asarray(A2.img, dtype=float), want):
                fails.append(("C19:set_image-then-assemble", f"after set_image on patch ({i0},{j0}) assemble() is not the base with the patch's interior [{r0_}:{r1_}, {c0_}:{c1_}] replaced ({r!r})", {"patch": [i0, j0]}))
            bad = call(p.set_image, np.zeros((P0.img.shape[0] + 1,) + P0.img.shape[1:]), i0, j0)
            info["set_image_wrong_shape"] = "refused" if isinstance(bad, Raised) else "accepted"  # observation only: not stated, not modelled
            call(p.set_image, np.asarray(P0.img).copy() * 0 + (-1.0 - new), i0, j0)  # restore
    # --- assemble
    A = call(p.assemble)
    if isinstance(A, Raised):
        fails.append((f"C19:assemble:raises", f"assemble() raises {A!r}", {}))
    else:
        if A.img.shape != img.img.shape or not np.array_equal(A.img, img.img):
            fails.append(("C19:assemble!=base", "assemble().img differs from the base image", {"observed": grid_str(decode(cfg, A.img))[:300]}))
        if not np.allclose(np.asarray(A.origin, dtype=float), np.asarray(img.origin, dtype=float), rtol=0, atol=float(tolx + toly)) \
                or not np.allclose(np.asarray(A.dimensions, dtype=float), np.asarray(img.dimensions, dtype=float), rtol=1e-14, atol=0):
            fails.append(("C19:assemble:metadata", "assemble() changes origin / dimensions", {}))
    # --- centres and corners: voxel vs physical, under the base coordinate system
    gcv, gcc = np.asarray(p.global_centers_voxels), np.asarray(p.global_centers_cartesian)
    kv, kc = np.asarray(p.global_corners_voxels), np.asarray(p.global_corners_cartesian)
    for i in range(n0):
        for j in range(n1):
            back = call(cs.voxel, gcc[i, j])
            on_face = any((Fraction(2 * idx_ + 1, 2) * NN_ / cnt_).denominator == 1 for idx_, cnt_, NN_ in ((i, n0, N0), (j, n1, N1)))
            if (isinstance(back, Raised) or not np.array_equal(np.asarray(back), gcv[i, j])) and not (on_face and not dyadic):
                fails.append(("C19:global_centers_voxels!=voxel(global_centers_cartesian)", f"patch ({i},{j}): {gcv[i, j].tolist()} vs {back!r}", {"patch": [i, j]}))
            # physical centre = base.coordinate of the fractional voxel ((i+.5)N0/n0, (j+.5)N1/n1)
            wx = origin[0] + (Fraction(2 * j + 1, 2) * D[1] / n1)
            wy = origin[1] - (Fraction(2 * i + 1, 2) * D[0] / n0)
            if abs(frac(float(gcc[i, j][0])) - wx) > tolx or abs(frac(float(gcc[i, j][1])) - wy) > toly:
                fails.append(("C19:global_centers_cartesian!=centre-of-physical-patch", f"patch ({i},{j}): {gcc[i, j].tolist()} vs {[float(wx), float(wy)]}", {"patch": [i, j]}))
            for a, (idx, cnt, NN) in enumerate(((i, n0, N0), (j, n1, N1))):
                # (1) independent of the implementation: the voxel centre is floor((idx + 1/2) * N / n), exactly; when that quotient is
                #     integral the physical centre lies exactly on a voxel face and floats decide: compared on the dyadic stream only
                q = Fraction(2 * idx + 1, 2) * NN / cnt
                if (dyadic or q.denominator != 1) and int(gcv[i, j][a]) != q.numerator // q.denominator:
                    fails.append(("C19:global_centers_voxels!=floor((i+1/2)N/n)", f"patch ({i},{j}) axis {a}: advertised centre voxel {int(gcv[i, j][a])}, floor(({idx}+1/2)*{NN}/{cnt}) = {q.numerator // q.denominator}", {"patch": [i, j]}))
                # (2) the advertised centre of a patch lies in that patch (its interior [idx*pv, min((idx+1)*pv, N)))
                lo_, hi_ = idx * pv[a], min((idx + 1) * pv[a], NN)
                if not (lo_ <= gcv[i, j][a] < hi_):
                    if NN % cnt == 0:
                        fails.append(("C19:centre-voxel-outside-its-patch:dividing", f"patch ({i},{j}) axis {a}: centre voxel {int(gcv[i, j][a])} not in [{lo_}, {hi_})", {"patch": [i, j]}))
                    else:
                        fails.append((KNOWN_CENTRES, f"{NN} voxels in {cnt} patches, patch {idx}: advertised centre voxel {int(gcv[i, j][a])} lies outside the patch's interior [{lo_}, {hi_})", {"patch": [i, j], "axis": a}))
            # corner order: top_left, bottom_left, bottom_right, top_right -> (row index i or i+1, column index j or j+1)
            corner_ij = ((i, j), (i + 1, j), (i + 1, j + 1), (i, j + 1))
            for k in range(4):
                ci, cj = corner_ij[k]
                # (1) each table against ITS OWN formula, independent of the implementation:
                #     voxel corners: (ci*pv0 clipped to N0 when it is a lower/right corner, cj*pv1 likewise)
                want_v = [ci * pv[0] if ci == i else min(N0, ci * pv[0]), cj * pv[1] if cj == j else min(N1, cj * pv[1])]
                av = [int(x) for x in kv[i, j][k]]
                if av != want_v:
                    fails.append(("C19:global_corners_voxels!=formula", f"patch ({i},{j}) corner {k}: advertised voxel corner {av}, formula (i*pv, min(N, (i+1)*pv)) gives {want_v}", {"patch": [i, j], "corner": k}))
                want_c = [origin[0] + cj * D[1] / n1, origin[1] - ci * D[0] / n0]
                g = [frac(float(x)) for x in kc[i, j][k]]
                if abs(g[0] - want_c[0]) > tolx or abs(g[1] - want_c[1]) > toly:
                    fails.append(("C19:global_corners_cartesian!=formula", f"patch ({i},{j}) corner {k}: advertised physical corner {[float(x) for x in g]}, origin + (j*D1/n1, -i*D0/n0) gives {[float(x) for x in want_c]}", {"patch": [i, j], "corner": k}))
                # STATED clause: the advertised voxel corner and the advertised physical corner are the same point under the base coordinate system
                c = call(cs.coordinate, av)
                if isinstance(c, Raised):
                    fails.append(("C19:coordinate(global_corners_voxels):raises", repr(c), {"patch": [i, j]}))
                    continue
                c = [frac(float(x)) for x in np.asarray(c)]
                for comp, a, tol, sgn_, vc, pc in ((0, 1, tolx, 1, av[1], cj), (1, 0, toly, -1, av[0], ci)):
                    if abs(c[comp] - g[comp]) <= 2 * tol:
                        continue
                    h_a = D[a] / cfg["N"][a]
                    exact_gap = sgn_ * (vc - Fraction(pc * cfg["N"][a], cfg["n"][a])) * h_a
                    if cfg["N"][a] % cfg["n"][a] != 0 and exact_gap != 0 and abs((c[comp] - g[comp]) - exact_gap) <= 2 * tol:
                        # exactly the known disagreement: ceil-size voxel partition vs equal-size physical partition
                        fails.append((KNOWN_CORNERS, f"{cfg['N'][a]} voxels in {cfg['n'][a]} patches: voxel corner {av} is at {float(c[comp])!r} but the physical corner is {float(g[comp])!r} (exact gap {float(exact_gap)!r})", {"patch": [i, j], "corner": k}))
                    else:
                        fails.append(("C19:global_corners_voxels!=global_corners_cartesian" + (":dividing" if cfg["N"][a] % cfg["n"][a] == 0 else ":not-the-known-gap"),
                                      f"patch ({i},{j}) corner {k} axis {a} ({cfg['N'][a]} voxels / {cfg['n'][a]} patches): voxel corner {av} is at {float(c[comp])!r}, physical corner {float(g[comp])!r}", {"patch": [i, j], "corner": k}))
    tables = None
    if want_tables and pieces_ok:
        tables = dict(p=p, img=img)
    return fails, tables, info


def axes_tok(cfg, pv, ov):
    return f"{cfg['N'][0]} {cfg['n'][0]} {pv[0]} {ov[0]} {cfg['N'][1]} {cfg['n'][1]} {pv[1]} {ov[1]}"


def cs_tok(cfg, origin):
    return f"2 {flist(cfg['N'])} {flist(cfg['dims'])} {flist(origin)}"


def sl(s):
    return f"{0 if s.start is None else int(s.start)}:{int(s.stop)}"


def correspondence_lines(ctx, d, cfg, tables, info, lines, impl):
    p, img = tables["p"], tables["img"]
    n0, n1 = cfg["n"]
    pv, ov = info["pv"], info["ov"]
    A = axes_tok(cfg, pv, ov)
    origin = [float(x) for x in np.asarray(img.origin)]
    if cfg["regime"] == "dyadic":
        lines.append(f"axes {cs_tok(cfg, origin)} {n0} {n1} {fmts([cfg['rel']])}")
        impl.append(f"{pv[0]} {ov[0]} {pv[1]} {ov[1]}")
        lines.append(f"centres {cs_tok(cfg, origin)} {n0} {n1}")
        impl.append(" ; ".join(fmts(p.global_centers_cartesian[i, j]) + " " + " ".join(str(int(x)) for x in p.global_centers_voxels[i, j])
                               for i in range(n0) for j in range(n1)))
        lines.append(f"cornersc {cs_tok(cfg, origin)} {n0} {n1}")
        impl.append(" ; ".join(fmts(np.asarray(p.global_corners_cartesian[i, j]).ravel()) for i in range(n0) for j in range(n1)))
    lines.append(f"rois {A}")
    impl.append(" ".join(sl(p.rois[i][0][0]) for i in range(n0)) + " | " + " ".join(sl(p.rois[0][j][1]) for j in range(n1)) + " | "
                + " ".join(sl(p.relative_rois_without_overlap[i][0][0]) for i in range(n0)) + " | "
                + " ".join(sl(p.relative_rois_without_overlap[0][j][1]) for j in range(n1)))
    lines.append(f"cornersv {A}")
    impl.append(" ; ".join(" ".join(str(int(x)) for x in np.asarray(p.global_corners_voxels[i, j]).ravel()) for i in range(n0) for j in range(n1)))
    picks = {(0, 0), (n0 - 1, n1 - 1), (ctx.rng.randrange(n0), ctx.rng.randrange(n1))}
    for (i, j) in sorted(picks):
        P = p(i, j)
        lines.append(f"patch {A} {i} {j}")
        impl.append(grid_str(decode(cfg, P.img)))
        lines.append(f"piece {A} {i} {j}")
        impl.append(grid_str(decode(cfg, P.img[p.relative_rois_without_overlap[i][j]])))
    # position(i, j), num_patches and the iteration order of the public tables
    for (i, j) in sorted({(0, 0), (n0 - 1, n1 - 1), (ctx.rng.randrange(n0), ctx.rng.randrange(n1))}):
        r = call(p.position, i, j)
        lines.append(f"position {n0} {n1} {i} {j}")
        impl.append(repr(r) if isinstance(r, Raised) else f"{r[0]} {r[1]}")
    lines.append(f"order {n0} {n1}")
    impl.append(" ; ".join(f"{i} {j}" for i in range(len(p.patches)) for j in range(len(p.patches[i]))) if list(p.num_patches) == [n0, n1] else f"!num_patches{p.num_patches}")
    a = call(p.assemble)
    lines.append(f"assemble {A}")
    impl.append(repr(a) if isinstance(a, Raised) else grid_str(decode(cfg, a.img)))


KNOWN_BLEND = "C19:blend_and_assemble:raises:AttributeError:pw"


def blend_check(d, cfg, img, p):
    """blend_and_assemble: with zero overlap it equals assemble(); blending the unmodified patches reproduces the image."""
    b = call(p.blend_and_assemble)
    if isinstance(b, Raised):
        detail = type(b.exc).__name__ + (":" + str(getattr(b.exc, "name", "")) if isinstance(b.exc, AttributeError) else "")
        return [(f"C19:blend_and_assemble:raises:{detail}", f"Patches({cfg['N']}, {cfg['n']}, rel_overlap={cfg['rel']}).blend_and_assemble() raises {b.exc!r}", {})]
    ref = np.asarray(img.img, dtype=float)
    got = np.asarray(b.img, dtype=float)
    if got.shape != ref.shape or not np.allclose(got, ref, rtol=1e-12, atol=1e-9 * max(1.0, float(np.abs(ref).max()))):
        return [("C19:blend_and_assemble!=base", "blending the unmodified patches does not reproduce the image", {})]
    return []


def image_patch_cases(ctx, d, lines, impl):
    """Guarded wrapper: a case whose results cannot be formatted becomes a correspondence difference."""
    for k in range(ctx.pick(40, 300)):
        try:
            _image_patch_case(ctx, d, lines, impl, k)
        except Exception as e:  # noqa: BLE001
            k_ = min(len(lines), len(impl))
            del lines[k_:], impl[k_:]
            lines.append(f"harness-guard image-patch-case-{k}")
            impl.append(f"!implementation-result-not-formattable:{type(e).__name__}:{str(e)[:80]}".replace(" ", "_"))


def _image_patch_case(ctx, d, lines, impl, k):
    """Patches as IMAGES against DarsiaModel.PatchesImg: per-patch metadata and the whole pixel array, scalar and vector
    payload; refusal of space-time and 3-D images; blend_and_assemble as it stands."""
    rng = ctx.rng
    kind = ("scalar", "vector", "series", "3d")[k % 4 if k % 8 < 6 else k % 2]
    dim = 3 if kind == "3d" else 2
    r = c02.gen_root(rng, 0, dim=dim, series=(kind == "series"), vector=(kind == "vector"), tkind="none",
                     shape=tuple(rng.randint(1, 6 if dim == 2 else 3) for _ in range(dim)))
    img = c02.build_root(d, r)
    if isinstance(img, Raised):
        return
    origin = [float(x) for x in np.asarray(img.origin)]
    N = r["shape"]
    n = [rng.randint(1, 4) for _ in range(2)]
    rel = rng.choice([0, 0.125, 0.25, 0.5])
    p = call(d.Patches, img, n, rel_overlap=rel)
    C = "1 2" if r["vector"] else "0"
    root = c02.root_tokens(r, origin)
    ctx.count(("image-patch", kind, json.dumps(r), n, rel))
    if kind in ("series", "3d"):
        lines.append(f"apatch {C} {root} {N[0]} {n[0]} 1 0 {N[1]} {n[1]} 1 0 0 0")
        impl.append(repr(p) if isinstance(p, Raised) else "built")
        if not isinstance(p, Raised):
            pass  # a future extension; the model then has to follow
        return
    if isinstance(p, Raised):
        return  # not buildable: outside the quantifier
    pv, ov = [int(x) for x in p.pv], [int(x) for x in p.ov]
    A = f"{N[0]} {n[0]} {pv[0]} {ov[0]} {N[1]} {n[1]} {pv[1]} {ov[1]}"
    for (i, j) in {(0, 0), (n[0] - 1, n[1] - 1), (rng.randrange(n[0]), rng.randrange(n[1]))}:
        P = p(i, j)
        lines.append(f"apatch {C} {root} {A} {i} {j}")
        dim_ = 2
        impl.append(" ".join(str(int(x)) for x in P.img.shape[:dim_]) + " | " + fmts(P.dimensions) + " | " + fmts(np.asarray(P.origin)) + " | " + c02.arr_str(P))
    lines.append(f"blend {A}")
    b = call(p.blend_and_assemble)
    impl.append(repr(b) if isinstance(b, Raised) else "grid")


def configs(ctx):
    rng = ctx.rng
    rels_dy, rels_gen = [0, 0.125, 0.25, 0.5], [0, 0.1, 0.25, 0.5]

    def any_rel(regime):  # the quantifier's whole interval [0, 0.5]: dyadic k/64 on the dyadic stream, any float otherwise
        return rng.randint(0, 32) / 64 if regime == "dyadic" else rng.uniform(0.0, 0.5)
    out = []
    if ctx.big:
        # every (extent, count) pair on each axis, paired with a random partner axis, x overlaps x regimes
        for N in range(1, 41):
            for n in range(1, 7):
                for k, rel in enumerate(rels_dy):
                    for regime in ("dyadic", "general"):
                        other = (rng.randint(1, 40), rng.randint(1, 6))
                        rel_ = (rel if regime == "dyadic" else rels_gen[k]) if (N + n) % 3 else any_rel(regime)
                        swap = (N + n + k) % 2 == 0
                        NN, nn = ((N, other[0]), (n, other[1])) if swap else ((other[0], N), (other[1], n))
                        out.append(make_cfg(rng, NN, nn, rel_, regime, rng.random() < 0.3))
    else:
        for k in range(300):
            regime = "dyadic" if k % 2 == 0 else "general"
            N = (rng.choice([1, 2, 3, 5, 7, 8, 12, 13, 16, 24, 30, 37, 40, rng.randint(1, 40)]), rng.randint(1, 40))
            if rng.random() < 0.5:
                N = (N[1], N[0])
            n = (rng.randint(1, 6), rng.randint(1, 6))
            if rng.random() < 0.35:  # force dividing counts often: that is where corners must agree
                n = tuple(rng.choice([c for c in range(1, 7) if N[a] % c == 0]) for a in range(2))
            rel = rng.choice(rels_dy if regime == "dyadic" else rels_gen) if k % 3 else any_rel(regime)
            out.append(make_cfg(rng, N, n, rel, regime, k % 5 == 0))
    return out


SOFT = ("C19:patch-size!=ceil", "C19:overlap!=ceil", "C19:patch!=block-at-corners-plus-overlap", "C19:global_corners_voxels!=formula",
        "C19:global_corners_cartesian!=formula", "C19:global_centers_voxels!=floor", "C19:global_centers_cartesian!=centre-of-physical-patch",
        "C19:set_image", "C19:position", "C19:local_corners_voxels", "C19:centre-voxel-outside-its-patch:dividing", "C19:blend_and_assemble")
"""Clauses that encode the CURRENT formulas / extra API (patch size, overlap, corner and centre formulas, set_image, position, local corners, blending):
they are what the Lean model says, not what the property states - a difference is a broken tie (mark), not a claimed failing input.
The stated clauses (tiling, assemble, interior = block at the advertised corners, placement, voxel(centres) = centres, corners agree) stay failures."""


def run(ctx):
    import darsia as d

    hard_fail = ctx.fail

    def routed(sig, what, rep_):
        if sig.startswith("C19:implementation-result-unusable"):
            ctx.mark("HARNESS-EXCEPTION", {"correspondence": sig, "what": str(what)[:300]})
        elif sig == KNOWN_BLEND:
            hard_fail(sig, what, rep_)  # the registered known finding (printed as KNOWN-FINDING)
        elif sig.startswith(SOFT):
            ctx.mark("TIE-BROKEN", {"correspondence": sig, "what": str(what)[:300]})
        else:
            hard_fail(sig, what, rep_)

    ctx.fail = routed

    from ..lib.core import VERIF

    cdir = VERIF / "corpus" / "C19"
    if cdir.is_dir():
        for f in sorted(cdir.glob("*.json")):
            data = json.loads(f.read_text())
            cfg = data.get("replay", data).get("config")
            if cfg:
                for sig, what, det in evaluate(d, cfg)[0]:
                    ctx.fail(sig, what, {"config": cfg, **det})
    t = c20.tabulate(d)
    ctx.write_gen("IndexingTables", c20.emit(t))
    ctx.prove("C19")
    cfgs = configs(ctx)
    lines, impl = [], []
    ncorr = ctx.pick(120, 600)
    stride = max(1, len(cfgs) // ncorr)
    dist = {"dyadic": 0, "general": 0, "dividing": 0, "non-dividing": 0, "with-overlap": 0, "empty-patches": 0, "colour": 0, "not-buildable": 0}
    for k, cfg in enumerate(cfgs):
        ev_ = call(evaluate, d, cfg, want_tables=(k % stride == 0))
        if isinstance(ev_, Raised):  # unexpected shape / type of a public table: a failing input, not a harness error
            ctx.fail(f"C19:implementation-result-unusable:{type(ev_.exc).__name__}", f"the statement could not be evaluated on this configuration: {ev_.exc!r}", {"config": cfg})
            continue
        fails, tables, info = ev_
        ctx.count(("config", json.dumps(cfg)), n=cfg["n"][0] * cfg["n"][1])
        dist[cfg["regime"]] += 1
        dist["dividing" if all(cfg["N"][a] % cfg["n"][a] == 0 for a in range(2)) else "non-dividing"] += 1
        dist["with-overlap"] += cfg["rel"] > 0
        dist["colour"] += cfg["colour"]
        dist["not-buildable"] += "not_buildable" in info
        if "set_image_wrong_shape" in info:
            dist["set_image(wrong shape) " + info["set_image_wrong_shape"]] = dist.get("set_image(wrong shape) " + info["set_image_wrong_shape"], 0) + 1
        for key in ("ov_breakpoints", "ov_float_off_by_one_at_breakpoint"):
            dist[key] = dist.get(key, 0) + info.get(key, 0)
        if cfg["regime"] == "general":
            dist["ov_quotient_max_rel_err"] = max(dist.get("ov_quotient_max_rel_err", 0.0), info.get("ov_quotient_rel_err", 0.0))
        if "pv" in info:
            dist["empty-patches"] += any((cfg["n"][a] - 1) * info["pv"][a] >= cfg["N"][a] for a in range(2))
        for sig, what, det in fails:
            ctx.fail(sig, what, {"config": cfg, "signature": sig, **det})
        if tables is not None and k % (4 * stride) == 0:
            for sig, what, det in blend_check(d, cfg, tables["img"], tables["p"]):
                ctx.fail(sig, what, {"config": cfg, "signature": sig, "clause": "blend", **det})
        if tables is not None:
            r = call(correspondence_lines, ctx, d, cfg, tables, info, lines, impl)
            if isinstance(r, Raised):
                ctx.mark("CORR-BROKEN", {"correspondence": "patches", "config": cfg, "error": repr(r.exc)})
                del lines[len(impl):]
                del impl[len(lines):]
    image_patch_cases(ctx, d, lines, impl)
    ctx.correspond("patches", lines, impl, driver="C19")
    ctx.sample({"config": cfgs[0]})
    ctx.cov["configurations"] = len(cfgs)
    ctx.cov["distribution"] = dist
    ctx.cov["exhaustive"] = bool(ctx.big)
    ctx.cov["rule"] = ("thorough: every (extent 1..40, count 1..6) pair on one axis with a random partner axis x 4 overlaps x {dyadic, general} geometry; "
                       "quick: 300 random configurations; every patch of every configuration is examined")
    ctx.assumptions += ["numpy basic slicing semantics (drop/take with clipping)", "dyadic stream: every float operation of Patches.__init__ is exact"]


def replay(data):
    import darsia as d

    case = data.get("replay", data)
    cfg = case["config"]
    fails, tabs, info = evaluate(d, cfg, want_tables=True)
    if case.get("clause") == "blend" and tabs is not None:
        fails = fails + blend_check(d, cfg, tabs["img"], tabs["p"])
    print(f"C19 replay config={cfg} -> pv/ov={info}")
    want = case.get("signature", data.get("signature"))
    hit = [f for f in fails if f[0] == want] or fails
    for sig, what, det in hit[:5]:
        print(f"  FAILS {sig}: {what}")
    if not hit:
        print("  property HOLDS on this input")
    return 1 if hit else 0
