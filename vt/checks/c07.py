"""C07 - grid numbering and connectivity form a consistent bijection.

Model: lean/DarsiaModel/Grid.lean (generic dimension, Fortran numbering).  Theorems: DarsiaProps.C07 (all shapes).
Tie: exhaustive correspondence of every public table of `darsia.Grid` on all shapes 1..12 / 1..7^2 / 1..5^3 (186 grids,
both tiers) + larger / thin / random shapes + image-derived grids; corner tables are tabulated from the running code (G1)
into DarsiaGen.GridTables and the corner theorems are `decide` obligations over them.
Oracle: direct transcription of the property statement evaluated on the implementation's tables.
"""
from __future__ import annotations

import itertools

import numpy as np

from ..lib.core import fmt
from ..lib.impl import Raised, call
from ..lib.leangen import llist

LEVEL = "proof"
CLAIM = dict(
    category="proof",
    text="Theorems in DarsiaProps.C07 for the MODEL on every shape list (model values outside the guard, e.g. an extent 0, describe nothing the code computes: numpy raises there); the code builds grids only for shapes "
    "passing gridGuard (dims 1-3, extents >= 1, len(voxel_size) = dim; error classes tied by a correspondence): Fortran numbering is a "
    "bijection (encF/decF), faces <-> [0,num_faces) bijection, face-count formula, connectivity = (cell idx, cell idx+e_a) with first<second "
    "differing only along the normal axis, reverse connectivity is the exact inverse and -1 iff the cell is on the outer boundary in that "
    "direction - all also for the tables AS THE CODE BUILDS THEM (connTable / revTable: initial array + assignments through index arrays, "
    "conn_table_eq, rev_table_eq, rev_table_inverse); interior/exterior partition each axis; interior faces in dimension >= 2 are exactly those "
    "whose tangential neighbour faces all exist, while in 1-D the code slices the NORMAL axis (interior = all faces but the first and last, "
    "interior_1d) - a different notion, stated as it is; corner tables (tabulated from the code) lie on the face. generate_grid is modelled on the image-geometry model CS of C01 "
    "(generateGrid; generate_grid_volume: accepted by the guard, image voxel shape, voxel volume x cells = image volume) and tied exactly on "
    "1-D..3-D scalar/vector images and series (trailing axes do not enter), plus full-table comparison on fresh images and after in-place "
    "shape changes. Tie: every public Grid table (incl. cell_index, face_index, faces_shape) equals the model on all 186 shapes of the stated "
    "range plus random larger/thin shapes.",
    note="Round 7: interior_1d, interior_iff_tangential_complete and the generate_grid geometry / staleness clauses are TIE-BROKEN marks (statement: partition + consistent tables), harness exceptions are HARNESS marks, faces[a] may be slices. connectivity / reverse_connectivity are dumped from the scatter-built model; numpy slicing + ravel('F') of the index arrays is modelled "
    "pointwise (tied by the exhaustive correspondence).",
    technique="Lean 4 proof (induction over the shape list) + exhaustive-in-range differential correspondence + G1 tables",
)

WHATS = ["counts", "faces", "conn", "rev", "interior", "exterior", "cci", "cellindex", "faceindex", "facesshape"]


def all_shapes():
    s = [(n,) for n in range(1, 13)]
    s += list(itertools.product(range(1, 8), repeat=2))
    s += list(itertools.product(range(1, 6), repeat=3))
    return s


def ints(a):
    return " ".join(str(int(x)) for x in np.asarray(a).ravel())


def sep(parts):
    return " | ".join(parts)


def make_grid(d, shape, voxel=None):
    return call(d.Grid, tuple(shape), voxel if voxel is not None else [1.0] * len(shape))


def impl_line(g, what):
    """Canonical print of one public table of the implementation (exception class as data)."""
    try:
        dim = g.dim
        if what == "counts":
            return sep([ints(g.num_faces_per_axis), str(int(g.num_faces)), str(int(g.num_cells))])
        if what == "faces":
            return sep([ints(g.faces[a]) for a in range(dim)])
        if what == "conn":
            return ints(g.connectivity)
        if what == "rev":
            return sep([ints(g.reverse_connectivity[a]) for a in range(dim)])
        if what == "interior":
            return sep([ints(g.interior_faces[a]) for a in range(dim)])
        if what == "exterior":
            return sep([ints(g.exterior_faces[a]) for a in range(dim)])
        if what == "cci":
            return ints(g.cell_corner_indices)
        if what == "cellindex":
            return ints(np.asarray(g.cell_index).ravel("F"))
        if what == "faceindex":
            return sep([ints(np.asarray(g.face_index[a]).ravel("F")) for a in range(dim)])
        if what == "facesshape":
            return sep([ints(g.faces_shape[a]) for a in range(dim)])
    except Exception as e:  # noqa: BLE001
        return repr(Raised(e))
    raise KeyError(what)


def request(what, shape):
    return f"{what} {len(shape)} " + " ".join(map(str, shape))


# ---------------------------------------------------------------------------
# G1 tabulation of the literal corner tables


def tabulate(d):
    t = {"corners": {}, "idx": {}}
    for dim in (1, 2, 3):
        g = make_grid(d, (2,) * dim)
        if isinstance(g, Raised):
            t["corners"][dim] = []
            continue
        try:
            cc = np.asarray(g.cell_corners)
            t["corners"][dim] = [[int(round(float(v))) for v in row] for row in cc] if np.all((cc == 0) | (cc == 1)) else []
            for a in range(dim):
                f = int(g.faces[a][0])
                for side in (0, 1):
                    t["idx"][(dim, a, side)] = [int(v) for v in g.cell_corner_indices[f, side]]
        except Exception:  # noqa: BLE001
            t["corners"].setdefault(dim, [])
    return t


def emit(t) -> str:
    L = ["import DarsiaModel.Basic", "namespace Darsia.Gen", ""]
    L.append("/-- `Grid.cell_corners` of a `dim`-dimensional grid: coordinates (0/1) of the reference-cell corners -/")
    L.append("def cellCorners : Nat → List (List Nat)")
    for dim in (1, 2, 3):
        L.append(f"  | {dim} => " + llist(t["corners"].get(dim, []), lambda r: llist(r)))
    L.append("  | _ => []")
    L.append("")
    L.append("/-- `Grid.cell_corner_indices[f, side, :]` for faces `f` of axis `a` (identical for all faces of an axis) -/")
    L.append("def cornerIdx : Nat → Nat → Nat → List Nat")
    for (dim, a, side), v in sorted(t["idx"].items()):
        L.append(f"  | {dim}, {a}, {side} => " + llist(v))
    L.append("  | _, _, _ => []")
    L.append("")
    L.append("end Darsia.Gen")
    return "\n".join(L) + "\n"


# ---------------------------------------------------------------------------
# property oracle on the implementation


def oracle_grid(ctx, g, shape, tag):
    """The statement of C07 evaluated on the tables of one implementation grid. Returns after the first failure."""
    dim = len(shape)
    shape = tuple(int(s) for s in shape)
    rp = {"shape": list(shape), "source": tag}

    def fail(sig, what, **kw):
        ctx.fail(f"C07:{sig}:dim={dim}", f"Grid{shape}: {what}", {**rp, **kw})
        return False

    try:
        ncell = int(np.prod(shape))
        _nf0 = int(g.num_faces)
        g0 = g

        class _G:  # view of the grid whose `faces[a]` are index arrays whatever the library stores (arrays, lists, slices)
            def __getattr__(self, k):
                return getattr(g0, k)

        gg = _G()
        gg.faces = [np.arange(_nf0)[g0.faces[a]] if isinstance(g0.faces[a], slice) else np.asarray(g0.faces[a], dtype=int) for a in range(dim)]
        g = gg
        if int(g.num_cells) != ncell:
            return fail("num_cells", f"num_cells={g.num_cells} != prod(shape)={ncell}")
        nfa = [int(v) for v in g.num_faces_per_axis]
        want = [(shape[a] - 1) * int(np.prod([shape[b] for b in range(dim) if b != a])) for a in range(dim)]
        if nfa != want:
            return fail("num_faces_formula", f"num_faces_per_axis={nfa}, shape gives {want}", observed=nfa, required=want)
        nf = int(g.num_faces)
        if nf != sum(want):
            return fail("num_faces_formula", f"num_faces={nf} != {sum(want)}")
        # every face numbered exactly once
        allf = np.concatenate([np.asarray(g.faces[a], dtype=int) for a in range(dim)]) if dim else np.zeros(0, int)
        if len(allf) != nf or not np.array_equal(np.sort(allf), np.arange(nf)):
            return fail("faces_numbered_once", "faces[*] is not a partition of range(num_faces)", observed=ints(allf))
        for a in range(dim):
            if len(g.faces[a]) != want[a]:
                return fail("faces_numbered_once", f"len(faces[{a}])={len(g.faces[a])} != {want[a]}")
        conn = np.asarray(g.connectivity)
        if conn.shape != (nf, 2):
            return fail("connectivity_shape", f"connectivity.shape={conn.shape}")
        rev = np.asarray(g.reverse_connectivity)
        if rev.shape != (dim, ncell, 2):
            return fail("reverse_connectivity_shape", f"reverse_connectivity.shape={rev.shape}")
        seen_pairs = set()
        for a in range(dim):
            for f in np.asarray(g.faces[a], dtype=int):
                lo, hi = int(conn[f, 0]), int(conn[f, 1])
                if not (0 <= lo < ncell and 0 <= hi < ncell):
                    return fail("conn_neighbors", f"face {f}: cells {lo},{hi} out of range", face=int(f))
                ilo = np.unravel_index(lo, shape, order="F")
                ihi = np.unravel_index(hi, shape, order="F")
                diff = tuple(int(y) - int(x) for x, y in zip(ilo, ihi))
                if diff != tuple(1 if b == a else 0 for b in range(dim)) or not lo < hi:
                    return fail("conn_neighbors", f"face {f} of axis {a} joins cells {ilo} and {ihi}: not lower/upper neighbours along its normal axis",
                                face=int(f), axis=a, cells=[lo, hi])
                if (lo, hi) in seen_pairs:
                    return fail("faces_numbered_once", f"cell pair {(lo, hi)} has two faces", face=int(f))
                seen_pairs.add((lo, hi))
                # reverse lookup is the inverse
                if int(rev[a, lo, 1]) != f or int(rev[a, hi, 0]) != f:
                    return fail("rev_conn_inverse", f"face {f} axis {a} cells ({lo},{hi}) but reverse_connectivity[{a},{lo},1]={rev[a, lo, 1]}, [{a},{hi},0]={rev[a, hi, 0]}",
                                face=int(f), axis=a, cells=[lo, hi])
        # all neighbour pairs have a face
        if len(seen_pairs) != sum(want):
            return fail("faces_numbered_once", "number of joined pairs differs from number of neighbour pairs")
        for a in range(dim):
            for c in range(ncell):
                idx = np.unravel_index(c, shape, order="F")
                for side in (0, 1):
                    r = int(rev[a, c, side])
                    boundary = idx[a] == 0 if side == 0 else idx[a] == shape[a] - 1
                    if (r == -1) != bool(boundary):
                        return fail("rev_none_iff_boundary", f"reverse_connectivity[{a},{c},{side}]={r} but cell {tuple(int(i) for i in idx)} boundary={bool(boundary)}",
                                    axis=a, cell=c, side=side)
                    if r != -1:
                        if not (0 <= r < nf) or int(conn[r, 1 - side]) != c or r not in set(int(x) for x in g.faces[a]):
                            return fail("rev_conn_inverse", f"reverse_connectivity[{a},{c},{side}]={r} but connectivity[{r}]={conn[r].tolist() if 0 <= r < nf else None}",
                                        axis=a, cell=c, side=side)
        for a in range(dim):
            inter = [int(x) for x in np.asarray(g.interior_faces[a]).ravel()]
            exter = [int(x) for x in np.asarray(g.exterior_faces[a]).ravel()]
            if sorted(inter + exter) != sorted(int(x) for x in g.faces[a]) or set(inter) & set(exter):
                return fail("interior_exterior_partition", f"axis {a}: interior {inter} and exterior {exter} do not partition faces", axis=a)
            if dim == 1:
                # the code's 1-D convention (slices the NORMAL axis): all faces but the first and the last
                want1 = [int(x) for x in np.asarray(g.faces[0], dtype=int)[1:-1]]
                if inter != want1 and hasattr(ctx, "mark"):
                    ctx.mark("TIE-BROKEN", {"correspondence": "interior_1d (the code's 1-D convention)", "shape": list(shape), "observed": inter, "model": want1})
            if dim >= 2:
                # interior = all tangential neighbour faces exist
                for f in np.asarray(g.faces[a], dtype=int):
                    complete = all(int(rev[b, int(c), s]) != -1 for b in range(dim) if b != a for c in conn[f] for s in (0, 1))
                    if complete != (int(f) in inter):
                        # the statement only asks for a partition; WHICH faces are interior is the model's definition
                        if hasattr(ctx, "mark"):
                            ctx.mark("TIE-BROKEN", {"correspondence": "interior_iff_tangential_complete", "shape": list(shape), "face": int(f), "axis": a})
                        break
        # corners
        cc = np.asarray(g.cell_corners)
        cci = np.asarray(g.cell_corner_indices)
        if cci.shape != (nf, 2, 2 ** (dim - 1)):
            return fail("corner_shape", f"cell_corner_indices.shape={cci.shape}")
        for a in range(dim):
            for f in np.asarray(g.faces[a], dtype=int):
                for side in (0, 1):
                    row = [int(x) for x in cci[f, side]]
                    if len(set(row)) != len(row) or any(not 0 <= k < len(cc) for k in row):
                        return fail("corners_on_face", f"face {f} side {side}: corner indices {row} not distinct / out of range", face=int(f), side=side)
                    # cell `side`=0 is the lower neighbour: the face is its upper side (coordinate a = 1)
                    if any(float(cc[k][a]) != (1.0 if side == 0 else 0.0) for k in row):
                        return fail("corners_on_face", f"face {f} axis {a} side {side}: corners {row} = {[cc[k].tolist() for k in row]} do not lie on the face",
                                    face=int(f), axis=a, side=side)
    except Exception as e:  # noqa: BLE001 - the harness could not digest a representation: a mark, never a claimed failing input
        if hasattr(ctx, "mark"):
            ctx.mark("HARNESS-EXCEPTION", {"where": "c07.oracle_grid", "shape": list(shape), "error": f"{type(e).__name__}: {str(e)[:200]}"})
            return False
        return fail("raises", f"accessing the grid tables raises {type(e).__name__}: {e}")
    return True


def run(ctx):
    import darsia as d

    t = tabulate(d)
    ctx.write_gen("GridTables", emit(t))
    ctx.prove("C07")

    shapes = all_shapes()
    extra = []
    rng = ctx.rng
    for _ in range(ctx.pick(12, 120)):
        dim = rng.choice((1, 2, 3))
        kind = rng.random()
        if kind < 0.35:  # thin
            s = [1] * dim
            s[rng.randrange(dim)] = rng.randint(2, 40)
        elif kind < 0.7:
            hi = {1: 60, 2: 14, 3: 8}[dim]
            s = [rng.randint(1, hi) for _ in range(dim)]
        else:  # non-cubic with forced small extents
            s = [rng.choice((1, 2, 3)) for _ in range(dim)]
            s[rng.randrange(dim)] = rng.randint(4, {1: 60, 2: 14, 3: 8}[dim])
        extra.append(tuple(s))
    lines, impl, grids = [], [], []
    for shape in shapes + extra:
        g = make_grid(d, shape)
        grids.append((shape, g))
        for what in WHATS:
            lines.append(request(what, shape))
            impl.append(repr(g) if isinstance(g, Raised) else impl_line(g, what))
    # corner coordinates (literal tables) as seen by the model = generated table
    for dim in (1, 2, 3):
        lines.append(request("corners", (1,) * dim))
        g = make_grid(d, (2,) * dim)
        impl.append(repr(g) if isinstance(g, Raised) else sep([ints(r) for r in np.asarray(g.cell_corners)]))
    # which constructor calls are accepted at all (error class as data): dims 0 / 4, extents 0, voxel-size lists of wrong length
    # systematically: every shape with 0..4 axes and extents in {0, 1, 2} x voxel-size lists of length dim-1, dim, dim+1
    guard_shapes = [s for dimg in range(0, 5) for s in itertools.product((0, 1, 2), repeat=dimg)]
    for shape in guard_shapes:
        for nh in sorted({max(len(shape) - 1, 0), len(shape), len(shape) + 1}):
            lines.append(f"guard {len(shape)} " + " ".join(map(str, shape)) + f" {nh} " + " ".join(["1"] * nh))
            g = call(d.Grid, tuple(shape), [1.0] * nh)
            impl.append(repr(g) if isinstance(g, Raised) else "ok")
    ctx.correspond("grid-tables", lines, impl)
    ctx.cov["exhaustive"] = True
    ctx.cov["shapes_exhaustive"] = len(shapes)
    ctx.cov["shapes_extra"] = len(extra)

    # image-derived grids
    ilines, iimpl = [], []
    for _ in range(ctx.pick(6, 40)):
        dim = rng.choice((2, 3))
        shape = tuple(rng.randint(1, 6) for _ in range(dim))
        dims = [rng.choice((0.5, 1.0, 2.0, 3.0)) * s for s in shape]
        img = call(d.Image, np.zeros(shape), space_dim=dim, dimensions=dims)
        g = call(d.generate_grid, img) if not isinstance(img, Raised) else img
        if isinstance(g, Raised):
            ctx.fail(f"C07:generate_grid:raises:dim={dim}", f"generate_grid on an image of shape {shape} raises {g}", {"shape": list(shape), "dimensions": dims})
            continue
        gshape = tuple(int(s) for s in g.shape)
        if gshape != shape:
            (lambda sg, wh, r_: ctx.mark("TIE-BROKEN", {"correspondence": sg, "what": wh[:300], "detail": r_}))(f"generate_grid:shape:dim={dim}", f"generate_grid shape {gshape} != image shape {shape}", {"shape": list(shape)})
            continue
        try:
            vs_ok = bool(np.allclose(np.asarray(g.voxel_size, dtype=float), np.asarray(dims, dtype=float) / np.asarray(shape)))
        except Exception:  # noqa: BLE001
            vs_ok = False
        if not vs_ok:
            (lambda sg, wh, r_: ctx.mark("TIE-BROKEN", {"correspondence": sg, "what": wh[:300], "detail": r_}))(f"generate_grid:voxel_size:dim={dim}", f"generate_grid voxel size {np.asarray(g.voxel_size).tolist()} != dimensions/shape {dims}/{shape}",
                     {"shape": list(shape), "dimensions": dims})
            continue
        grids.append((shape, g))
        for what in WHATS:
            ilines.append(request(what, shape))
            iimpl.append(impl_line(g, what))
    # generate_grid as a function of the image geometry (builder a's CS model): 1-D..3-D images, scalar / vector valued,
    # single images and series - trailing axes must not enter; voxel volume x number of cells = image volume (exact, dyadic)
    glines, gimpl = [], []
    for k in range(ctx.pick(12, 80)):
        dim = (1, 2, 3)[k % 3]
        shape = tuple(rng.choice((1, 2, 3, 4, 5, 8)) for _ in range(dim))
        hs = [rng.choice((0.25, 0.5, 1.0, 2.0, 0.75, 1.5)) for _ in range(dim)]
        dims = [s * h for s, h in zip(shape, hs)]
        series, scalar = (k // 3) % 2 == 1, (k // 6) % 2 == 0
        full = shape + ((3,) if series else ()) + (() if scalar else (2,))
        kw = dict(space_dim=dim, dimensions=list(dims), scalar=scalar, series=series)
        if series:
            kw["time"] = [0, 1, 2]
        img = call(d.Image, np.zeros(full), **kw)
        rp = {"shape": list(shape), "dimensions": dims, "series": series, "scalar": scalar}
        if isinstance(img, Raised):
            (lambda sg, wh, r_: ctx.cov.setdefault("observations_outside_the_statement", []).append(wh[:200]))(f"C07:generate_grid:Image:raises:dim={dim}", f"Image{full} (series={series}, scalar={scalar}) raises {img}", rp)
            continue
        g = call(d.generate_grid, img)
        ctx.count(("gengrid", shape, tuple(dims), series, scalar))
        glines.append(f"gengrid {dim} " + " ".join(map(str, shape)) + f" {dim} " + " ".join(fmt(x) for x in dims))
        if isinstance(g, Raised):
            gimpl.append(repr(g))
            ctx.fail(f"C07:generate_grid:raises:dim={dim}", f"generate_grid on a {full} image (series={series}, scalar={scalar}) raises {g}", rp)
            continue
        try:
            vs = [float(x) for x in np.asarray(g.voxel_size).ravel()]
            volcells = float(np.prod(vs)) * int(g.num_cells)
            gimpl.append(sep([ints(g.shape), " ".join(fmt(x) for x in vs), fmt(volcells), fmt(float(np.prod(dims))), "ok"]))
            if tuple(int(x) for x in g.shape) != shape or volcells != float(np.prod(dims)):
                (lambda sg, wh, r_: ctx.mark("TIE-BROKEN", {"correspondence": sg, "what": wh[:300], "detail": r_}))(f"generate_grid:volume:dim={dim}", f"generate_grid on a {full} image: grid shape {tuple(g.shape)}, voxel volume x cells = {volcells!r}, "
                         f"image volume {float(np.prod(dims))!r}", rp)
        except Exception as e:  # noqa: BLE001
            gimpl.append(repr(Raised(e)))
    ctx.correspond("generate-grid-geometry", glines, gimpl)

    # call sequences on ONE image object: derive a grid, change the image's voxel shape in place (what any shape-altering
    # correction with overwrite=True does via `image.img = ...`), copy it, derive again: the grid must follow from the
    # image's CURRENT shape and voxel size (no state carried over between calls)
    for _ in range(ctx.pick(6, 30)):
        dim = rng.choice((2, 3))
        shape = tuple(rng.randint(1, 5) for _ in range(dim))
        dims = [rng.choice((0.5, 1.0, 2.0, 3.0)) * s for s in shape]
        img = call(d.Image, np.zeros(shape), space_dim=dim, dimensions=dims)
        if isinstance(img, Raised):
            continue
        seq = [list(shape)]
        cur = img
        for step in range(rng.randint(2, 4)):
            g = call(d.generate_grid, cur)
            want_shape = tuple(int(x) for x in cur.num_voxels)
            rp = {"sequence": seq, "dimensions": dims, "step": step}
            if isinstance(g, Raised):
                ctx.fail(f"C07:generate_grid:raises:dim={dim}", f"generate_grid raises {g} after the in-place sequence {seq}", rp)
                break
            try:
                gshape = tuple(int(x) for x in g.shape)
                vs_ok = bool(np.allclose(np.asarray(g.voxel_size, dtype=float), np.asarray(cur.voxel_size, dtype=float)))
            except Exception as e:  # noqa: BLE001
                ctx.fail(f"C07:generate_grid:raises:dim={dim}", f"grid attributes unusable: {type(e).__name__}: {e}", rp)
                break
            ctx.count(("gen-seq", tuple(map(tuple, seq)), step))
            if gshape != want_shape or not vs_ok:
                (lambda sg, wh, r_: ctx.mark("TIE-BROKEN", {"correspondence": sg, "what": wh[:300], "detail": r_}))(f"generate_grid:stale:dim={dim}", f"generate_grid(image) after changing the image in place (shapes {seq}): grid shape {gshape} / voxel size "
                         f"{np.asarray(g.voxel_size).tolist()} but the image now has {want_shape} voxels of size {list(cur.voxel_size)}", rp)
                break
            grids.append((want_shape, g))
            for what in WHATS:
                ilines.append(request(what, want_shape))
                iimpl.append(impl_line(g, what))
            new_shape = tuple(rng.randint(1, 5) for _ in range(dim))
            if rng.random() < 0.3:
                c = call(cur.copy)
                if not isinstance(c, Raised):
                    cur = c
            try:
                cur.img = np.zeros(new_shape)
            except Exception:  # noqa: BLE001
                break
            seq.append(list(new_shape))
    ctx.correspond("image-derived-grids", ilines, iimpl)

    for shape, g in grids:
        if isinstance(g, Raised):
            ctx.fail(f"C07:Grid:raises:dim={len(shape)}", f"Grid{tuple(shape)} raises {g}", {"shape": list(shape)})
            continue
        ctx.count(("oracle", shape), nontrivial=int(np.prod(shape)) > 1)
        oracle_grid(ctx, g, shape, "Grid")
    ctx.cov["rule"] = ("exhaustive over all shapes with extents 1..12 (1-D), 1..7 (2-D), 1..5 (3-D) = 186 grids in both tiers, x every public table; "
                       "plus seeded thin / larger / non-cubic shapes and image-derived grids; distinct = distinct request line / shape")
    ctx.assumptions += ["numpy slicing / ravel('F') / fancy assignment semantics (tied by the exhaustive table correspondence)",
                        "corner tables are tabulated from the running code on every run (G1)"]


def replay(data):
    import darsia as d

    rp = data.get("replay", {})
    if "sequence" in rp:
        seq = [tuple(x) for x in rp["sequence"]]
        print("replay", data.get("signature"), "in-place sequence", seq)
        img = d.Image(np.zeros(seq[0]), space_dim=len(seq[0]), dimensions=rp["dimensions"])
        bad = 0
        for k, sh in enumerate(seq):
            if k:
                img.img = np.zeros(sh)
            g = call(d.generate_grid, img)
            got = g if isinstance(g, Raised) else tuple(int(x) for x in g.shape)
            print(f"observed: step {k}: grid shape {got}  required: {tuple(img.num_voxels)}")
            bad += got != tuple(int(x) for x in img.num_voxels)
        return 1 if bad else 0
    shape = tuple(rp.get("shape", ()))
    print("replay", data.get("signature"), "shape", shape)
    g = make_grid(d, shape)
    if isinstance(g, Raised):
        print("Grid raises", g)
        return 1

    class C:
        failures = []

        def fail(self, sig, what, r):
            self.failures.append((sig, what))

    c = C()
    oracle_grid(c, g, shape, "replay")
    for sig, what in c.failures:
        print("observed:", sig, "--", what)
    print("required: C07 statement (see DarsiaProps/C07.lean)")
    return 1 if c.failures else 0
