"""C18 - saved images and corrections reload to equivalent objects.

  G1/G2  DarsiaGen/PersistTables.lean: keys of metadata() per image class (G1), keywords consumed by the constructors
         (G2, AST), class rebuilt by the npz reader (G1), suffix -> reader of imread (G1, readers patched by recorders),
         imread_from_bytes kind rule (G1, decoder patched to return arrays of every channel count), channel permutations of
         decoding / file reading / OpticalImage.write (G1 on a one-pixel image), correction classes: implements save,
         writes class_name, resolvable by read_correction, default constructible (G1), saved / loaded fields (G2, AST).
  T      DarsiaProps.C18: decide over those tables.
  corr   kind rule + channel permutation of the model vs imread_from_bytes on real PNG / TIFF byte strings.
  oracle round trips through the real serialisers: Image.save -> imread over the whole metadata space; PNG / TIFF byte
         strings -> imread_from_bytes; OpticalImage.write -> imread; every savable correction -> save -> read_correction
         -> identical output.
"""
from __future__ import annotations

import ast
import contextlib
import datetime as dt
import inspect
import io
import shutil
import tempfile
import textwrap
from pathlib import Path

import numpy as np

from ..lib.impl import Raised, call
from ..lib.leangen import lbool, lexcept, llist

LEVEL = "other"
CLAIM = dict(
    category="other",
    text="Partial. Proved: (1) the METADATA ROUND TRIP as a theorem over abstract values - Image.save stores metadata() "
    "(generated key table), imread_from_npz picks the class from the stored dictionary and re-constructs from it, the "
    "constructors (modelled: keyword handling of Image / ScalarImage / OpticalImage incl. forced flags, time derived from "
    "dates, upper-cased colour space) re-derive the attributes: metadata(imread(save(img))) = metadata(img) key by key and "
    "the class is restored, for every image satisfying the invariant that every constructor call establishes "
    "(npz_roundtrip_metadata, constructor_establishes_inv, npz_roundtrip_constructed, keys_ok, npz_dispatch_matches_reader); "
    "the only external contract is that np.savez / pickle return each stored value unchanged. (2) decide over tables "
    "regenerated from the running code / AST on every check: metadata() completeness and soundness w.r.t. the constructor "
    "keywords, imread_from_bytes kind rule, decode permutation = involution BGR<->RGB undoing OpticalImage.write, suffix "
    "dispatch, read_correction resolves every class whose save writes class_name, loaded fields subset of saved fields, the "
    "keys the subclass constructors pop are exactly the flags the model forces (popped_keys_are_the_forced_ones). (3) "
    "CORRECTIONS: save / load (incl. _init_from_config, no-argument constructor of the generic reader) of the five savable "
    "corrections as functions on their state over abstract values: reload_equiv - the state correct_array depends on is the "
    "same after save -> read_correction, for every state the class's own initialisation produces "
    "(drift_init_establishes_inv); for CurvatureCorrection additionally the PERSISTED grid cache with its invalidation rule: "
    "the cache always holds the grid of the object's own configuration, so the reloaded object samples inputs of any shape "
    "with the same grid as the original (curv_output_independent_of_cache; oracle: inputs of another shape after reload); "
    "curvature_before_fix_loses_order (the interpolation order is part of that state; a "
    "defect found with this model and fixed). Caches are memoisation and not part of the state. "
    "Ties: correction field provenance (the model on symbolic values says which attribute each saved field comes from and "
    "which field / default / derived value each attribute is rebuilt from; every pair is verified on a real object, its real "
    "npz file and the reloaded object); constructor keyword provenance (which keyword reaches which attribute, per class) model vs real constructors; "
    "kind rule / permutation vs real byte strings. NOT modelled: np.savez / pickle value fidelity, cv2.imencode / imdecode / "
    "imwrite, PNG / TIFF codecs, skimage dtype conversion - the bit-identical round trips (images over the whole metadata "
    "space, 8/16-bit grey / single-channel / colour byte strings, optical write -> imread, the five savable corrections with "
    "random configurations; every one of the five must be round-tripped in most of its cases, otherwise a mark) are "
    "observed by the oracle only. Attribute provenance of the corrections (syntactic, AST): "
    "correct_reads_are_restored - every attribute correct_array reads is stored by load, or is a constructor CONSTANT (not "
    "derived from any constructor parameter: translation_estimator, the empty cache), or one of two listed exceptions "
    "(use_cache / cache_path of CurvatureCorrection: where the memoised grid is kept); a constructor-configurable attribute "
    "that load forgets is rejected (this fails on the tree before the interpolation_order fix); load_restores_used_state. The single-channel row of the kind rule "
    "((h, w, 1) decoded arrays) is reached only through the patched decoder (cv2.imdecode never returns that shape). Outside "
    "the literal statement and NOT preserved: OpticalImage.original_dtype is not part of metadata(); an image converted to "
    "float after construction reloads with original_dtype = float, so a later write() of the reloaded object raises "
    "NotImplementedError where the saved object could write. FAILING INPUTS: round-trip data / class / metadata VALUES, colours "
    "within half a quantisation step (integer-held) after write -> imread, save -> read_correction raising, output of the reloaded "
    "correction not bit-identical, a class whose default-constructed saved file read_correction really cannot read; differing "
    "stored fields with identical output and static dispatch-table disagreements are TIE-BROKEN marks; write() modifying the "
    "image and type-only differences are observations.",
    note="bit-identical pixel data / values after a round trip rest on the observed round trips; the theorems cover the "
    "metadata round trip modulo value fidelity of the serialiser, and DarSIA's dispatch / field bookkeeping",
    technique="Lean 4 proof (parametric round-trip theorem over generated key tables; decide) + G1 tabulation + G2 AST extraction; "
    "differential correspondence (constructor keyword provenance, kind rule); round-trip oracle through the real serialisers",
)

KEYS = ["space_dim", "indexing", "dimensions", "name", "height", "width", "depth", "origin", "series", "date",
        "reference_date", "time", "scalar", "color_space"]
CLS = {"Image": "image", "ScalarImage": "scalarImage", "OpticalImage": "opticalImage"}
SUFFIXES = ["npy", "npz", "jpg", "jpeg", "png", "tif", "tiff", "dcm", "vtu", "txt", "JPG", "PNG"]
READERS = {"imread_from_numpy": "numpy", "imread_from_npz": "npz", "imread_from_optical": "optical",
           "imread_from_dicom": "dicom", "imread_from_vtu": "vtu"}
EPOCH = dt.datetime(2022, 5, 6, 7, 8, 9)


def quiet(fn, *a, **k):
    with contextlib.redirect_stdout(io.StringIO()):
        return call(fn, *a, **k)


# ---------------------------------------------------------------------------------------------
# generation


def consumed_kwargs(cls):
    """G2: string keys read from `kwargs` in the constructor bodies along the MRO"""
    keys = []
    for c in cls.__mro__:
        if "__init__" not in vars(c) or c is object:
            continue
        tree = ast.parse(textwrap.dedent(inspect.getsource(c.__init__)))
        for node in ast.walk(tree):
            k = None
            if (isinstance(node, ast.Call) and isinstance(node.func, ast.Attribute) and node.func.attr in ("get", "pop")
                    and isinstance(node.func.value, ast.Name) and node.func.value.id == "kwargs" and node.args
                    and isinstance(node.args[0], ast.Constant) and isinstance(node.args[0].value, str)):
                k = node.args[0].value
            if (isinstance(node, ast.Compare) and len(node.ops) == 1 and isinstance(node.ops[0], (ast.In, ast.NotIn))
                    and isinstance(node.left, ast.Constant) and isinstance(node.left.value, str)
                    and isinstance(node.comparators[0], ast.Name) and node.comparators[0].id == "kwargs"):
                k = node.left.value
            if (isinstance(node, ast.Subscript) and isinstance(node.value, ast.Name) and node.value.id == "kwargs"
                    and isinstance(node.slice, ast.Constant) and isinstance(node.slice.value, str)):
                k = node.slice.value
            if k is not None and k not in keys:
                keys.append(k)
    return keys


def attr_provenance(cls, base_cls):
    """G2: attributes of `self` that correct_array (transitively through self.method() calls) READS, that load (transitively)
    STORES, and that __init__ (transitively) STORES"""
    methods = {}
    for c in cls.__mro__:
        if c in (base_cls, object) or c.__module__.startswith("abc"):
            continue
        try:
            tree = ast.parse(textwrap.dedent(inspect.getsource(c)))
        except (OSError, TypeError):
            continue
        for node in tree.body[0].body:
            if isinstance(node, ast.FunctionDef) and node.name not in methods:
                methods[node.name] = node

    def closure(start):
        seen, todo = [], [start]
        while todo:
            m = todo.pop()
            if m in seen or m not in methods:
                continue
            seen.append(m)
            for n in ast.walk(methods[m]):
                if isinstance(n, ast.Call) and isinstance(n.func, ast.Attribute) and isinstance(n.func.value, ast.Name) \
                        and n.func.value.id == "self" and n.func.attr in methods:
                    todo.append(n.func.attr)
        return seen

    def attrs(ms, ctx_type):
        out = set()
        for m in ms:
            for n in ast.walk(methods[m]):
                if isinstance(n, ast.Attribute) and isinstance(n.value, ast.Name) and n.value.id == "self" \
                        and isinstance(n.ctx, ctx_type) and n.attr not in methods:
                    out.add(n.attr)
        return sorted(out)

    def configurable():
        """attributes the constructor derives from its parameters / kwargs (directly, through other such attributes, or
        under a condition on them): state a user can choose at construction"""
        ms = closure("__init__")
        if "__init__" not in methods:
            return []
        params = {a.arg for m in ms for a in methods[m].args.args + methods[m].args.kwonlyargs if a.arg != "self"}
        params |= {methods[m].args.kwarg.arg for m in ms if methods[m].args.kwarg}
        tainted = set()

        def mentions(e):
            for n in ast.walk(e):
                if isinstance(n, ast.Name) and n.id in params:
                    return True
                if isinstance(n, ast.Attribute) and isinstance(n.value, ast.Name) and n.value.id == "self" and n.attr in tainted:
                    return True
            return False

        def visit(stmts, ctl):
            for st in stmts:
                if isinstance(st, (ast.If, ast.While)):
                    c2 = ctl or mentions(st.test)
                    visit(st.body, c2)
                    visit(st.orelse, c2)
                elif isinstance(st, (ast.For, ast.With, ast.Try)):
                    for blk in ("body", "orelse", "finalbody"):
                        visit(getattr(st, blk, []) or [], ctl)
                elif isinstance(st, (ast.Assign, ast.AnnAssign, ast.AugAssign)):
                    targets = st.targets if isinstance(st, ast.Assign) else [st.target]
                    val = st.value
                    for t in targets:
                        hot = ctl or (val is not None and mentions(val))
                        if isinstance(t, ast.Attribute) and isinstance(t.value, ast.Name) and t.value.id == "self" and hot:
                            tainted.add(t.attr)
                        elif isinstance(t, ast.Name) and hot:
                            params.add(t.id)  # a local derived from a parameter

        for _ in range(4):  # fixpoint over attribute-to-attribute flow
            for m in ms:
                visit(methods[m].body, False)
        return sorted(tainted)

    return dict(reads=attrs(closure("correct_array"), ast.Load), restored=attrs(closure("load"), ast.Store),
                init=attrs(closure("__init__"), ast.Store), configurable=configurable())


def popped_kwargs(cls):
    """G2: keys the class's OWN constructor removes from kwargs (`kwargs.pop("k", ...)`) before delegating"""
    if "__init__" not in vars(cls):
        return []
    tree = ast.parse(textwrap.dedent(inspect.getsource(cls.__init__)))
    keys = []
    for node in ast.walk(tree):
        if (isinstance(node, ast.Call) and isinstance(node.func, ast.Attribute) and node.func.attr == "pop"
                and isinstance(node.func.value, ast.Name) and node.func.value.id == "kwargs" and node.args
                and isinstance(node.args[0], ast.Constant) and isinstance(node.args[0].value, str)
                and node.args[0].value not in keys):
            keys.append(node.args[0].value)
    return keys


def tiny(d, name):
    if name == "Image":
        return d.Image(np.zeros((2, 3, 2)), dimensions=[1.0, 2.0], scalar=False)
    if name == "ScalarImage":
        return d.ScalarImage(np.zeros((2, 3)), dimensions=[1.0, 2.0])
    return d.OpticalImage(np.zeros((2, 3, 3), dtype=np.uint8), dimensions=[1.0, 2.0], color_space="RGB")


def savez_fields(fn):
    """G2: keyword names of the np.savez call of a save method; for a load method the string keys read from the opened
    file: subscripts / .get on `np.load(...)` itself or on a name bound directly to `np.load(...)`"""
    tree = ast.parse(textwrap.dedent(inspect.getsource(fn)))
    is_load_call = lambda v: isinstance(v, ast.Call) and isinstance(v.func, ast.Attribute) and v.func.attr == "load"
    files = set()
    for node in ast.walk(tree):
        if isinstance(node, ast.Assign) and is_load_call(node.value):
            files |= {t.id for t in node.targets if isinstance(t, ast.Name)}
    is_file = lambda v: is_load_call(v) or (isinstance(v, ast.Name) and v.id in files)
    saved, loaded = [], []
    for node in ast.walk(tree):
        if isinstance(node, ast.Call) and isinstance(node.func, ast.Attribute) and node.func.attr in ("savez", "savez_compressed"):
            saved += [k.arg for k in node.keywords if k.arg]
        if isinstance(node, ast.Subscript) and isinstance(node.slice, ast.Constant) and isinstance(node.slice.value, str) and is_file(node.value):
            loaded.append(node.slice.value)
        if (isinstance(node, ast.Call) and isinstance(node.func, ast.Attribute) and node.func.attr == "get" and is_file(node.func.value)
                and node.args and isinstance(node.args[0], ast.Constant) and isinstance(node.args[0].value, str)):
            loaded.append(node.args[0].value)
    return sorted(set(saved)), sorted(set(loaded))


def tabulate(d, tmp):
    import cv2
    import darsia.corrections.readcorrection as rc
    import darsia.image.imread as im

    t = {}
    t["metaKeys"] = {n: list(tiny(d, n).metadata().keys()) for n in CLS}
    t["consumed"] = {n: consumed_kwargs(getattr(d, n)) for n in CLS}
    t["popped"] = {n: popped_kwargs(getattr(d, n)) for n in CLS}
    # class rebuilt by the npz reader
    t["npzClass"] = {}
    for n in CLS:
        p = tmp / f"gen_{n}.npz"
        r = quiet(lambda: (tiny(d, n).save(p), d.imread(p))[1])
        t["npzClass"][n] = CLS.get(type(r).__name__, "other") if not isinstance(r, Raised) else "other"
    # suffix -> reader: patch the readers by recorders
    t["suffix"] = {}
    saved = {k: getattr(im, k) for k in READERS}
    try:
        for k in READERS:
            setattr(im, k, (lambda k: (lambda *a, **kw: k))(k))
        for s in SUFFIXES:
            p = tmp / f"gen_file.{s}"
            p.write_bytes(b"")
            r = call(d.imread, p)
            t["suffix"][s] = r if isinstance(r, Raised) else (READERS[r] if r in READERS else Raised(TypeError("reader")))
    finally:
        for k, v in saved.items():
            setattr(im, k, v)
    # kind rule: patch the decoder to return arrays of every channel layout
    class Proxy:
        def __init__(self, arr):
            self.arr = arr

        def __getattr__(self, name):
            return getattr(cv2, name)

        def imdecode(self, *a, **k):
            return self.arr

    t["bytesKind"] = {}
    real_cv2 = im.cv2
    try:
        for key, shape in [("gray", (2, 3)), ("chan 1", (2, 3, 1)), ("chan 2", (2, 3, 2)), ("chan 3", (2, 3, 3)), ("chan 4", (2, 3, 4))]:
            im.cv2 = Proxy(np.zeros(shape, dtype=np.uint8))
            r = call(d.imread_from_bytes, b"x")
            t["bytesKind"][key] = r if isinstance(r, Raised) else CLS.get(type(r).__name__, "other")
    finally:
        im.cv2 = real_cv2
    # channel permutations on a one-pixel image
    px = np.array([[[10, 20, 30]]], dtype=np.uint8)  # as stored in the file (cv2 order)
    ok, buf = cv2.imencode(".png", px)
    r = call(d.imread_from_bytes, buf.tobytes())
    t["readPerm"] = None if isinstance(r, Raised) else [int(v) // 10 - 1 for v in r.img[0, 0]]
    p = tmp / "gen_px.png"
    cv2.imwrite(str(p), px)
    r = quiet(d.imread, p)
    t["filePerm"] = None if isinstance(r, Raised) else [int(round(float(v) * 255)) // 10 - 1 for v in r.img[0, 0]]
    w = d.OpticalImage(px.copy(), color_space="RGB", dimensions=[1.0, 1.0])
    p2 = tmp / "gen_px2.png"
    r = quiet(w.write, p2)
    stored = None if isinstance(r, Raised) else cv2.imread(str(p2), cv2.IMREAD_UNCHANGED)
    t["writePerm"] = None if stored is None else [int(v) // 10 - 1 for v in stored[0, 0]]
    # corrections
    corr = {}
    union = {c.__name__ for c in getattr(rc.AnyCorrection, "__args__", ())}
    for name, obj in sorted(vars(d).items()):
        if inspect.isclass(obj) and issubclass(obj, d.BaseCorrection) and obj is not d.BaseCorrection:
            saved_f, _ = savez_fields(obj.save)
            _, loaded_f = savez_fields(obj.load)
            impl = bool(saved_f)  # a save that actually writes a file (not `raise NotImplementedError`)
            corr[name] = dict(implementsSave=impl, writesClassName="class_name" in saved_f,
                              resolvable=hasattr(rc, name), inUnion=name in union,
                              defaultConstructible=not isinstance(quiet(obj), Raised) if impl else False,
                              saved=saved_f, loaded=loaded_f if impl else [],
                              **(attr_provenance(obj, d.BaseCorrection) if impl else dict(reads=[], restored=[], init=[], configurable=[])))
    t["corr"] = corr
    return t


def lkey(k, others):
    return "." + k if k in KEYS else f"(.other {others.setdefault(k, len(others))})"


def emit(t):
    others = {}
    L = ["import DarsiaModel.Persist", "namespace Darsia.Gen", "open Darsia Darsia.Persist", ""]
    for tab in ("metaKeys", "consumed", "popped"):
        L.append(f"def {tab} : Cls → List Key")
        for n, c in CLS.items():
            L.append(f"  | .{c} => " + llist(t[tab][n], lambda k: lkey(k, others)))
        L += ["  | .other => []", ""]
    L.append("def npzClass : Cls → Cls")
    for n, c in CLS.items():
        L.append(f"  | .{c} => .{t['npzClass'][n]}")
    L += ["  | .other => .other", ""]
    L.append("def suffixReader : Suffix → Except Err Reader")
    for s in SUFFIXES:
        L.append(f"  | .{s} => " + lexcept(t["suffix"][s], lambda r: "." + r))
    L.append("")
    L.append("def bytesKind : Decoded → Except Err Cls")
    for key in ("gray", "chan 1", "chan 2", "chan 3", "chan 4"):
        pat = ".gray" if key == "gray" else f".chan {key.split()[1]}"
        L.append(f"  | {pat} => " + lexcept(t["bytesKind"][key], lambda c: "." + c))
    L += ["  | .chan _ => (.error .other)", ""]
    for p in ("readPerm", "filePerm", "writePerm"):
        L.append(f"def {p} : List Nat := " + llist(t[p] if t[p] is not None else []))
    L.append("")
    names = list(t["corr"])
    fields = sorted({f for c in t["corr"].values() for f in c["saved"] + c["loaded"]})
    L.append("inductive Corr" + "".join(f" | {n}" for n in names))
    L.append("  deriving DecidableEq, Repr")
    L.append("def Corr.all : List Corr := " + llist(names, lambda n: "." + n))
    L.append("inductive Field" + "".join(f" | {f}" for f in fields))
    L.append("  deriving DecidableEq, Repr")
    for flag in ("implementsSave", "writesClassName", "resolvable", "defaultConstructible", "inUnion"):
        L.append(f"def {flag} : Corr → Bool")
        for n in names:
            L.append(f"  | .{n} => {lbool(t['corr'][n][flag])}")
    for tab in ("saved", "loaded"):
        L.append(f"def {tab} : Corr → List Field")
        for n in names:
            L.append(f"  | .{n} => " + llist(t["corr"][n][tab], lambda f: "." + f))
    cattrs = sorted({a for c in t["corr"].values() for k in ("reads", "restored", "init", "configurable") for a in c[k]})
    L.append("inductive CAttr" + "".join(f" | a_{a}" for a in cattrs) + (" | a_none" if not cattrs else ""))
    L.append("  deriving DecidableEq, Repr")
    for tab, nm in (("reads", "correctReads"), ("restored", "loadStores"), ("init", "initStores"), ("configurable", "ctorConfigurable")):
        L.append(f"def {nm} : Corr → List CAttr")
        for n in names:
            L.append(f"  | .{n} => " + llist(t["corr"][n][tab], lambda a: ".a_" + a))
    L += ["", "end Darsia.Gen"]
    return "\n".join(L) + "\n"


# ---------------------------------------------------------------------------------------------
# oracle


def rand_meta_image(ctx, d):
    """random image over the metadata space of the property"""
    rnd = ctx.rng
    r = np.random.RandomState(rnd.randrange(2 ** 31))
    cls = rnd.choice(["Image", "ScalarImage", "OpticalImage", "Image", "ScalarImage"])
    space_dim = 2 if cls == "OpticalImage" else rnd.choice([1, 2, 2, 3])
    series = rnd.random() < 0.4
    scalar = {"ScalarImage": True, "OpticalImage": False}.get(cls, rnd.random() < 0.5)
    dtype = rnd.choice([bool, np.uint8, np.uint16, np.float32, np.float64])
    shape = tuple(rnd.randint(1, 4) for _ in range(space_dim))
    T = rnd.randint(1, 3)
    chan = () if scalar else ((3,) if cls == "OpticalImage" else rnd.choice([(2,), (3,), (2, 2)]))
    full = shape + ((T,) if series else ()) + chan
    if dtype is bool:
        data = r.rand(*full) < 0.5
    elif dtype in (np.uint8, np.uint16):
        data = r.randint(0, np.iinfo(dtype).max + 1, size=full).astype(dtype)
    else:
        data = r.randn(*full).astype(dtype)
    kw = dict(dimensions=[rnd.choice([1.0, 0.3, 2.5, 1e-3, 7e3]) for _ in range(space_dim)])
    if rnd.random() < 0.5:
        kw["origin"] = [rnd.choice([0.0, -1.5, 3.25, 1e4]) for _ in range(space_dim)]
    if rnd.random() < 0.5:
        kw["name"] = rnd.choice(["tracer", "run 7 / b", "ünïcode"])
    tm = rnd.random()
    if series:
        if tm < 0.4:
            kw["date"] = [EPOCH + dt.timedelta(seconds=37 * k, microseconds=rnd.randrange(1000)) for k in range(T)]
        elif tm < 0.75:
            kw["time"] = [float(k) * rnd.choice([0.5, 60.0]) for k in range(T)]
    else:
        if tm < 0.4:
            kw["date"] = EPOCH + dt.timedelta(hours=rnd.randrange(100))
            if rnd.random() < 0.4:
                kw["reference_date"] = EPOCH
        elif tm < 0.75:
            kw["time"] = rnd.choice([0.0, 12.5, 3600])
    if cls == "OpticalImage":
        kw["color_space"] = rnd.choice(["RGB", "BGR", "HSV"])
        img = quiet(lambda: d.OpticalImage(data, series=series, **kw))
    elif cls == "ScalarImage":
        img = quiet(lambda: d.ScalarImage(data, space_dim=space_dim, series=series, **kw))
    else:
        img = quiet(lambda: d.Image(data, space_dim=space_dim, series=series, scalar=scalar, **kw))
    desc = dict(cls=cls, space_dim=space_dim, series=series, scalar=scalar, dtype=np.dtype(dtype).name, shape=list(full),
                kwargs={k: (str(v) if not isinstance(v, (int, float, str, list)) else (v if not isinstance(v, list) else [str(x) for x in v])) for k, v in kw.items()})
    return img, desc


def meta_diff(a, b):
    if set(a) != set(b):
        return "keys:" + ",".join(sorted(set(a) ^ set(b)))
    for k in a:
        x, y = a[k], b[k]
        # VALUE comparison ("identical metadata"): 3600 and 3600.0, list and tuple agree; None / datetime / number stay apart by ==
        if (x is None) != (y is None):
            return k
        if isinstance(x, np.ndarray) or isinstance(y, np.ndarray):
            if np.shape(x) != np.shape(y) or not np.array_equal(np.asarray(x), np.asarray(y)):
                return k
        elif isinstance(x, (list, tuple)) or isinstance(y, (list, tuple)):
            if not isinstance(x, (list, tuple)) or not isinstance(y, (list, tuple)) or len(x) != len(y) or any(
                    ((p is None) != (q is None)) or bool(np.any(p != q)) for p, q in zip(x, y)):
                return k
        elif bool(np.any(x != y)):
            return k
    return None


ATTRS = ["space_dim", "indexing", "dimensions", "origin", "series", "scalar", "date", "reference_date", "time", "name",
         "color_space", "time_num"]


def attrs_of(img):
    """the state a user configured through the constructor, read from the object itself (not through metadata())"""
    return {k: getattr(img, k) for k in ATTRS if hasattr(img, k)}


def deep_equal(x, y):
    if isinstance(x, np.ndarray) or isinstance(y, np.ndarray):
        return isinstance(x, np.ndarray) and isinstance(y, np.ndarray) and x.shape == y.shape and x.dtype == y.dtype and bool(np.array_equal(x, y))
    if isinstance(x, dict) and isinstance(y, dict):
        return set(x) == set(y) and all(deep_equal(x[k], y[k]) for k in x)
    if isinstance(x, (list, tuple)) and isinstance(y, (list, tuple)):
        return type(x) is type(y) and len(x) == len(y) and all(deep_equal(a, b) for a, b in zip(x, y))
    if hasattr(x, "img") and hasattr(y, "img"):
        return deep_equal(x.img, y.img)
    try:
        return type(x) is type(y) and bool(x == y)
    except Exception:  # noqa: BLE001
        return False


def plain(x, depth=0):
    """plain data: numbers, strings, None, types, slices, arrays and containers of those"""
    if isinstance(x, (bool, int, float, str, type(None), np.generic, np.ndarray, slice, type)):
        return True
    if depth < 4 and isinstance(x, (list, tuple)):
        return all(plain(y, depth + 1) for y in x)
    if depth < 4 and isinstance(x, dict):
        return all(isinstance(k, str) and plain(v, depth + 1) for k, v in x.items())
    return False


def oracle_npz(ctx, d, tmp):
    for n in range(ctx.pick(1500, 12000)):
        img, desc = rand_meta_image(ctx, d)
        if isinstance(img, Raised):
            continue
        ctx.count(("npz", repr(sorted(desc.items(), key=str))))
        p = tmp / f"img_{n % 7}.npz"
        r = quiet(lambda: (img.save(p), d.imread(p))[1])
        tag = f"{desc['cls']}"
        if isinstance(r, Raised):
            ctx.fail(f"C18:npz-roundtrip({tag}):raises-{type(r.exc).__name__}", f"save -> imread raises {r.exc!r}", desc)
            continue
        if r.img.shape != img.img.shape or r.img.dtype != img.img.dtype or not np.array_equal(r.img, img.img, equal_nan=r.img.dtype.kind == "f"):
            ctx.fail(f"C18:npz-roundtrip({tag}):data", f"pixel data / dtype differ after save -> imread ({img.img.dtype} -> {r.img.dtype})", desc)
        k = meta_diff(img.metadata(), r.metadata()) or meta_diff(attrs_of(img), attrs_of(r))
        if k:
            ctx.fail(f"C18:npz-roundtrip({tag}):metadata({k.split(':')[0]})",
                     f"metadata differs after save -> imread: {k} (saved {type(img).__name__}, read {type(r).__name__})",
                     dict(desc, key=k, read_class=type(r).__name__))
        elif type(r) is not type(img) and not (type(img) is d.Image and img.scalar and type(r) is d.ScalarImage):
            # (a plain Image holding scalar data and a ScalarImage have the same metadata; the reader builds the latter)
            ctx.fail(f"C18:npz-roundtrip({tag}):class", f"a saved {type(img).__name__} is read back as {type(r).__name__}",
                     dict(desc, read_class=type(r).__name__))


def byte_cases(ctx):
    """(extension, array as it should come back, kind)"""
    rnd = ctx.rng
    r = np.random.RandomState(rnd.randrange(2 ** 31))
    h, w = rnd.randint(1, 9), rnd.randint(1, 9)
    dtype = rnd.choice([np.uint8, np.uint16])
    ext = rnd.choice([".png", ".tif", ".tiff", ".png"])
    layout = rnd.choice(["gray", "single", "colour"])
    shape = {"gray": (h, w), "single": (h, w, 1), "colour": (h, w, 3)}[layout]
    arr = r.randint(0, np.iinfo(dtype).max + 1, size=shape).astype(dtype)
    return ext, arr, layout


def oracle_bytes(ctx, d):
    import cv2

    lines, impl = [], []
    for n in range(ctx.pick(800, 8000)):
        ext, arr, layout = byte_cases(ctx)
        case = dict(ext=ext, dtype=arr.dtype.name, shape=list(arr.shape), layout=layout)
        ctx.count(("bytes", ext, arr.dtype.name, arr.shape))
        store = arr[..., ::-1] if layout == "colour" else arr  # cv2 stores colour as BGR
        ok, buf = cv2.imencode(ext, np.ascontiguousarray(store))
        if not ok:
            continue
        r = quiet(d.imread_from_bytes, buf.tobytes(), dimensions=[1.0, 1.0])
        want_kind = "OpticalImage" if layout == "colour" else "ScalarImage"
        want = arr if layout != "single" else arr[..., 0]
        lines.append("kind gray" if layout != "colour" else "kind chan 3")
        impl.append(repr(r) if isinstance(r, Raised) else type(r).__name__)
        if isinstance(r, Raised):
            ctx.fail(f"C18:imread_from_bytes({layout},{ext}):raises-{type(r.exc).__name__}", f"decoding raises {r.exc!r}", case)
            continue
        if type(r).__name__ != want_kind:
            ctx.fail(f"C18:imread_from_bytes({layout}):kind", f"{layout} data decoded as {type(r).__name__}, expected {want_kind}", case)
        if r.img.shape != want.shape or r.img.dtype != want.dtype or not np.array_equal(r.img, want):
            swapped = layout == "colour" and r.img.shape == want.shape and np.array_equal(r.img, want[..., ::-1])
            ctx.fail(f"C18:imread_from_bytes({layout},{arr.dtype.name}):data" + (":channels-not-RGB" if swapped else ""),
                     "decoded array differs from the encoded one" + (" (channels come back in BGR order)" if swapped else ""),
                     dict(case, array=arr.tolist() if arr.size <= 48 else None))
        if layout == "colour":
            px = [int(v) for v in store[0, 0]]
            lines.append(f"perm read {px[0]} {px[1]} {px[2]}")
            impl.append(" ".join(str(int(v)) for v in r.img[0, 0]))
    ctx.correspond("bytes-kind-and-permutation", lines, impl)


def oracle_write(ctx, d, tmp):
    """OpticalImage.write -> imread returns the same colours: for images holding integer data (exactly) and for images
    whose data are floats in any of the colour spaces an OpticalImage can be in (RGB, BGR, HSV; within the 8/16-bit
    quantisation of the file format)"""
    import skimage

    for n in range(ctx.pick(300, 3000)):
        rnd = ctx.rng
        r = np.random.RandomState(rnd.randrange(2 ** 31))
        h, w = rnd.randint(1, 12), rnd.randint(1, 12)
        dtype = rnd.choice([np.uint8, np.uint8, np.uint16])
        ext = ".png" if dtype == np.uint8 and rnd.random() < 0.6 else rnd.choice([".tif", ".tiff"])
        arr = r.randint(0, np.iinfo(dtype).max + 1, size=(h, w, 3)).astype(dtype)
        held = rnd.choice(["integer", "integer", "float", "float"])
        space = rnd.choice(["RGB", "RGB", "BGR"]) if held == "integer" else rnd.choice(["RGB", "BGR", "HSV", "HSV"])
        case = dict(ext=ext, original_dtype=np.dtype(dtype).name, shape=[h, w, 3], data_held_as=held, color_space=space)
        ctx.count(("write", ext, np.dtype(dtype).name, h, w, held, space))
        if held == "integer":
            img = d.OpticalImage(arr.copy(), color_space=space, dimensions=[1.0, 2.0])
        else:
            # the way images come out of imread: float data, original dtype remembered; then possibly another colour space
            img = quiet(lambda: d.OpticalImage(arr.copy(), color_space="RGB", dimensions=[1.0, 2.0]).img_as(float))
            if not isinstance(img, Raised) and space != "RGB":
                img = quiet(lambda: img.to_trichromatic(space, return_image=True))
            if isinstance(img, Raised):
                continue
        held_before = img.img.copy()
        p = tmp / f"w_{n % 5}{ext}"
        res = quiet(lambda: (img.write(p), d.imread(p))[1])
        sig = f"{np.dtype(dtype).name},{held},{space}"
        if isinstance(res, Raised):
            ctx.fail(f"C18:write-imread({sig},{ext}):raises-{type(res.exc).__name__}", f"write -> imread raises {res.exc!r}", case)
            continue
        # the colours this image stands for, independently of the implementation's conversions: it was built from the
        # integer RGB array `arr` (or, held as integers with color_space="BGR", from `arr` read as B, G, R)
        true_rgb = arr[..., ::-1] if (held == "integer" and space == "BGR") else arr
        want = skimage.img_as_float(true_rgb).astype(np.float64)
        # integer data: half a quantisation step of the file (every wrong colour is at least one step away; a reader that
        # normalises with /255.0 or in float32 instead of skimage's *(1/255) returns the same colours); float data: one and a
        # half steps (plus the float32 colour conversion)
        step = 1.0 / (255.0 if dtype == np.uint8 else 65535.0)
        tol = 0.5 * step if held == "integer" else 1.5 * step + 1e-6
        dev = float(np.max(np.abs(res.img - want))) if res.img.shape == want.shape else None
        if dev is None or dev > tol:
            ctx.fail(f"C18:write-imread({sig},{ext}):colours", f"colours differ after write -> imread (max deviation {dev}, allowed {tol:.3g})",
                     dict(case, max_dev=dev, tolerance=tol, image=np.asarray(img.img).tolist() if img.img.size <= 36 else None))
        if dev is not None and dev <= tol:
            ctx.cov["write_imread_max_dev_in_steps"] = max(ctx.cov.get("write_imread_max_dev_in_steps", 0.0), dev / step)
        if not np.array_equal(img.img, held_before):  # not a clause of the round trip: recorded only
            ctx.cov["observation_write_modifies_image"] = ctx.cov.get("observation_write_modifies_image", 0) + 1


def correction_cases(ctx, d, photo):
    """(name, constructor of a configured correction, test array) for every savable correction"""
    import cv2

    rnd = ctx.rng
    r = np.random.RandomState(rnd.randrange(2 ** 31))
    out = []
    # TypeCorrection
    ty = rnd.choice([float, np.float32, np.float64, np.uint8, np.uint16, bool, int])
    src = rnd.choice([np.uint8, np.uint16, np.float32])
    a = r.randint(0, 200, size=(rnd.randint(1, 6), rnd.randint(1, 6), 3)).astype(src)
    if src == np.float32:
        a = (a / 255.0).astype(np.float32)
    out.append(("TypeCorrection", lambda: d.TypeCorrection(ty), a, dict(data_type=getattr(ty, "__name__", str(ty)), src=np.dtype(src).name)))
    # DriftCorrection: random textured base, probe shifted by a few pixels
    y0, x0 = rnd.randrange(0, 120), rnd.randrange(0, 120)  # (a feature-rich corner of the photograph)
    base = photo[y0:y0 + 260, x0:x0 + 320].copy()
    probe = np.roll(base, (rnd.randint(-4, 4), rnd.randint(-4, 4)), axis=(0, 1))
    cfg = {"padding": rnd.choice([0.0, 0.05]), "active": rnd.random() < 0.85}
    m = rnd.random()
    if m < 0.4:
        cfg["roi"] = d.make_voxel([[10, 10], [rnd.randint(150, 250), rnd.randint(200, 300)]])
    elif m < 0.7:
        cfg["roi"] = (slice(5, rnd.randint(150, 250)), slice(20, rnd.randint(200, 300)))
    out.append(("DriftCorrection", lambda: d.DriftCorrection(base=base, config=cfg), probe, dict(config={k: str(v) for k, v in cfg.items()})))
    # CurvatureCorrection
    hh, ww = 120, 160
    ccfg = {}
    if rnd.random() < 0.8:
        ccfg["init"] = {"horizontal_bulge": rnd.choice([0.0, 5e-6, -3e-6]), "vertical_bulge": rnd.choice([0.0, 2e-6])}
    if rnd.random() < 0.7:
        ccfg["crop"] = {"pts_src": [[rnd.randint(0, 6), rnd.randint(0, 6)], [rnd.randint(0, 6), hh - 1 - rnd.randint(0, 6)],
                                    [ww - 1 - rnd.randint(0, 6), hh - 1 - rnd.randint(0, 6)], [ww - 1 - rnd.randint(0, 6), rnd.randint(0, 6)]],
                        "width": rnd.choice([1.0, 2.8]), "height": rnd.choice([1.0, 1.5])}
    if rnd.random() < 0.5:
        ccfg["bulge"] = {"horizontal_bulge": rnd.choice([1e-6, -2e-6]), "horizontal_center_offset": rnd.choice([0, 3]),
                         "vertical_bulge": rnd.choice([0.0, 1e-6]), "vertical_center_offset": rnd.choice([0, -2])}
    if rnd.random() < 0.5:
        ccfg["stretch"] = {"horizontal_stretch": rnd.choice([1e-6, -1e-6]), "horizontal_center_offset": 0,
                           "vertical_stretch": rnd.choice([0.0, 2e-6]), "vertical_center_offset": rnd.choice([0, 4])}
    ca = photo[200:200 + hh, 300:300 + ww].copy()
    ckw = {}
    if rnd.random() < 0.5:
        ckw["interpolation_order"] = rnd.choice([0, 1, 2, 3])  # a constructor keyword that shapes the output
    if rnd.random() < 0.4:
        ckw["resize_factor"] = rnd.choice([0.5, 2.0])  # adapts the configuration at construction
    out.append(("CurvatureCorrection", lambda: d.CurvatureCorrection(config=ccfg, **ckw), ca, dict(config=ccfg, kwargs=ckw)))
    # IlluminationCorrection
    small = photo[:300, :300].copy()
    cs = rnd.choice(["rgb", "rgb-scalar", "lab-scalar", "hsl-scalar", "lab", "hsl"])
    samples = []
    for _ in range(rnd.randint(6, 9)):
        yy, xx = rnd.randrange(0, 270), rnd.randrange(0, 270)
        samples.append((slice(yy, yy + 20), slice(xx, xx + 20)))

    # every option of setup() takes default and NON-default values (OPTIONS below names them; a new option is reported)
    if rnd.random() < 0.15:
        cs = "gray"
    ikw = dict(ref_sample=rnd.randrange(len(samples)), colorspace=cs, interpolation=rnd.choice(["quartic", "quartic", "rbf", "illumination"]))
    if rnd.random() < 0.5:
        ikw["rescale"] = True
    filt = rnd.choice([None, None, "gauss", "half"])
    if rnd.random() < 0.3:
        mk_ = np.ones(small.shape[:2], dtype=bool)
        mk_[: rnd.randint(1, 40), :] = False
        ikw["mask"] = mk_
    n_base = 1  # a LIST of base images makes setup() raise on main for every colorspace (broadcast error): not a persistence matter

    def mk_ill():
        il = d.IlluminationCorrection()
        kw = dict(ikw)
        if filt == "gauss":
            kw["filter"] = lambda x: cv2.GaussianBlur(x, (0, 0), 1.5)
        elif filt == "half":
            kw["filter"] = lambda x: 0.5 * x + 0.1
        b0 = d.OpticalImage(small, color_space="RGB", dimensions=[1.0, 1.0])
        base_ = b0 if n_base == 1 else [b0, d.OpticalImage(np.ascontiguousarray(small[::-1]), color_space="RGB", dimensions=[1.0, 1.0])]
        il.setup(base=base_, samples=samples, **kw)
        return il

    out.append(("IlluminationCorrection", mk_ill, small.astype(np.float64) / 255.0,
                dict(setup={k: (v if not isinstance(v, np.ndarray) else f"mask with {int((~v).sum())} pixels off") for k, v in ikw.items()},
                     filter=filt, bases=n_base, samples=len(samples))))
    # ColorCorrection on a SYNTHETIC colour checker (4 x 6 swatches at the positions the extraction samples), embedded in a
    # textured canvas; classic reference colours or custom ones taken from the base image; the probe carries a colour cast
    sw = r.randint(40, 230, size=(4, 6, 3))
    ck = np.full((326, 500, 3), 30, dtype=np.uint8)
    for i, yy in enumerate([12, 93, 175, 255]):
        for j, xx in enumerate([12, 95, 177, 260, 344, 427]):
            ck[yy:yy + 50, xx:xx + 50] = sw[i, j]
    y0, x0 = rnd.randint(10, 60), rnd.randint(10, 90)
    canvas = np.full((326 + 100, 500 + 140, 3), 90, dtype=np.int64) + r.randint(-3, 4, size=(426, 640, 3))
    canvas[y0:y0 + 326, x0:x0 + 500] = ck
    canvas = canvas.clip(0, 255).astype(np.uint8)
    gains = np.array([rnd.choice([0.8, 1.0, 1.15]), rnd.choice([0.9, 1.0]), rnd.choice([0.85, 1.1])])
    cimg = (canvas * gains).clip(0, 255).astype(np.uint8)
    ccfg2 = {"roi": d.make_voxel([[y0, x0], [y0 + 326, x0], [y0 + 326, x0 + 500], [y0, x0 + 500]]),
             "balancing": rnd.choice(["darsia", "colour"]), "whitebalancing": rnd.random() < 0.7,
             "colorbalancing": rnd.choice(["affine", "linear"]), "clip": rnd.random() < 0.5, "active": rnd.random() < 0.9}
    custom = rnd.random() < 0.5

    def mk_cc():
        cv2.setRNGSeed(7)
        base = d.OpticalImage(canvas, color_space="RGB", dimensions=[1.0, 1.0]) if custom else None
        return d.ColorCorrection(base=base, config=ccfg2)

    out.append(("ColorCorrection", mk_cc, cimg, dict(config={k: str(v) for k, v in ccfg2.items() if k != "roi"}, custom=custom, gains=gains.tolist())))
    return out


def apply_corr(c, arr):
    import cv2

    cv2.setRNGSeed(12345)  # cv2.kmeans(KMEANS_RANDOM_CENTERS) inside the colour checker extraction
    return c.correct_array(arr.copy())


SAVABLE = ["TypeCorrection", "DriftCorrection", "CurvatureCorrection", "IlluminationCorrection", "ColorCorrection"]

# the constructor / setup parameters of the savable corrections and how correction_cases varies them (default AND non-default
# values); a parameter of the implementation that is not listed here is reported (option_coverage): it would be an option
# under which save -> read_correction -> apply is never exercised
OPTIONS = {
    "TypeCorrection": {"data_type": "float / float32 / float64 / uint8 / uint16 / bool / int"},
    "DriftCorrection": {"base": "crop of the photograph", "config": "padding, active, roi (voxels / slices / none)"},
    "CurvatureCorrection": {"config": "init / crop / bulge / stretch present or absent", "kwargs": "interpolation_order 0..3, resize_factor"},
    "IlluminationCorrection": {"args": "(none accepted)", "kwargs": "(none accepted)", "base": "one image (a list of images makes setup() itself raise on main: no correction to save)", "samples": "6-9 random patches",
                               "mask": "none / rows switched off", "ref_sample": "random index", "filter": "identity / gaussian / affine",
                               "colorspace": "rgb, rgb-scalar, lab, lab-scalar, hsl, hsl-scalar, gray", "interpolation": "quartic / rbf / illumination",
                               "rescale": "False / True", "show_plot": "EXCLUDED: opens a matplotlib window, no effect on the state"},
    "ColorCorrection": {"base": "none (classic reference) / custom image", "config": "roi, balancing, whitebalancing, colorbalancing, clip, active"},
}


def option_coverage(ctx, d):
    """G1: parameters of __init__ / setup of every savable correction (inspect.signature) against OPTIONS"""
    seen = {}
    for name in SAVABLE:
        cls = getattr(d, name, None)
        params = []
        for fn in ("__init__", "setup"):
            f = getattr(cls, fn, None)
            if f is None:
                continue
            sig = call(lambda: inspect.signature(f))
            if isinstance(sig, Raised):
                ctx.mark("TIE-BROKEN", {"G1": f"signature of {name}.{fn} not readable", "error": repr(sig.exc)})
                continue
            params += [p for p in sig.parameters if p != "self"]
        seen[name] = params
        missing = [p for p in params if p not in OPTIONS.get(name, {})]
        if missing:
            ctx.mark("ORACLE-VACUOUS", {"correction": name, "options_never_exercised": missing,
                                        "meaning": "save -> read_correction -> apply is not exercised under these constructor / setup options"})
    ctx.cov["correction_options"] = {n: {p: OPTIONS.get(n, {}).get(p, "NOT EXERCISED") for p in ps} for n, ps in seen.items()}


def oracle_corrections(ctx, d, tmp, table=None):
    import cv2

    option_coverage(ctx, d)

    photo_path = Path(inspect.getfile(d)).resolve().parents[2] / "examples" / "images" / "baseline.jpg"
    if photo_path.exists():
        photo = cv2.cvtColor(cv2.imread(str(photo_path)), cv2.COLOR_BGR2RGB)
    else:
        r = np.random.RandomState(0)
        photo = cv2.GaussianBlur(r.randint(0, 255, size=(900, 1900, 3)).astype(np.uint8), (0, 0), 3)
        ctx.notes.append("example photograph not found: drift / curvature / illumination exercised on synthetic texture")
    stats = {n: dict(cases=0, not_constructible=0, unusable_configuration=0, not_repeatable=0, round_tripped=0) for n in SAVABLE}
    for n in range(ctx.pick(12, 120)):
        for name, mk, arr, desc in correction_cases(ctx, d, photo):
            case = dict(correction=name, **desc)
            st = stats[name]
            st["cases"] += 1
            ctx.count(("corr", name, repr(desc)))
            c = quiet(mk)
            if isinstance(c, Raised):
                st["not_constructible"] += 1
                st.setdefault("example_error", repr(c.exc)[:200])
                continue
            # two life cycles: saved right after construction (before the first application: caches still empty), or after
            # it has been applied once
            save_first = ctx.rng.random() < 0.5
            case = dict(case, saved_before_first_application=save_first)
            p = tmp / f"corr_{name}.npz"
            c2 = None
            if save_first:
                c2 = quiet(lambda: (c.save(p), d.read_correction(p))[1])
            before = quiet(apply_corr, c, arr)
            if isinstance(before, Raised):
                st["unusable_configuration"] += 1  # persistence is not at stake; counted and thresholded below
                st.setdefault("example_error", repr(before.exc)[:200])
                continue
            if not save_first:
                c2 = quiet(lambda: (c.save(p), d.read_correction(p))[1])
            if isinstance(c2, Raised):
                ctx.fail(f"C18:correction({name}):save-read-raises-{type(c2.exc).__name__}", f"save -> read_correction raises {c2.exc!r}", case)
                continue
            if type(c2) is not type(c):
                ctx.fail(f"C18:correction({name}):class", f"read_correction returned {type(c2).__name__}", case)
                continue
            after = quiet(apply_corr, c2, arr)
            again = quiet(apply_corr, c, arr)
            if isinstance(again, Raised) or not np.array_equal(np.asarray(again), np.asarray(before)):
                st["not_repeatable"] += 1
                continue
            st["round_tripped"] += 1
            if hasattr(c, "return_config"):
                g1, g2 = quiet(c.return_config), quiet(c2.return_config)
                if not isinstance(g1, Raised) and (isinstance(g2, Raised) or not deep_equal_loose(g1, g2)):
                    # the statement asks for identical OUTPUT (judged below); the stored fields are the model's tie (reload_equiv)
                    ctx.mark("TIE-BROKEN", {"correspondence": f"reload_equiv fields: return_config() of {name}", "original": repr(g1)[:200],
                                            "reloaded": repr(g2)[:200], "case": repr(case)[:300]})
            reads = set((table or {}).get(name, {}).get("reads", [])) if table else None
            for attr, v in sorted(vars(c).items()):
                if attr.startswith("_") or attr in ("cache", "use_cache", "cache_path") or not plain(v):
                    continue
                if reads is not None and attr not in reads and attr != "config":
                    continue  # only the state correct_array reads (AST table) and the configuration
                if not (hasattr(c2, attr) and deep_equal_loose(v, getattr(c2, attr))):
                    ctx.mark("TIE-BROKEN", {"correspondence": f"reload_equiv fields: attribute {attr} of {name}", "original": repr(v)[:200],
                                            "reloaded": repr(getattr(c2, attr, "<missing>"))[:200], "case": repr(case)[:300]})
            if name in ("CurvatureCorrection", "TypeCorrection") and np.asarray(arr).shape[0] > 20:
                # an input of ANOTHER shape than the one the (persisted) grid cache was computed for
                arr2 = np.ascontiguousarray(arr[5:-7, 3:-11])
                o1, o2 = quiet(apply_corr, c, arr2), quiet(apply_corr, c2, arr2)
                if not isinstance(o1, Raised) and (isinstance(o2, Raised) or np.asarray(o1).shape != np.asarray(o2).shape
                                                   or not np.array_equal(np.asarray(o1), np.asarray(o2))):
                    ctx.fail(f"C18:correction({name}):output-differs(other-input-shape)",
                             "after reload the correction treats an input of another shape differently from the original",
                             dict(case, other_shape=list(arr2.shape)))
            if isinstance(after, Raised):
                ctx.fail(f"C18:correction({name}):reloaded-raises-{type(after.exc).__name__}", f"the reloaded correction raises {after.exc!r}", case)
            elif np.asarray(after).shape != np.asarray(before).shape or np.asarray(after).dtype != np.asarray(before).dtype or \
                    not np.array_equal(np.asarray(after), np.asarray(before)):
                dev = float(np.max(np.abs(np.asarray(after, dtype=float) - np.asarray(before, dtype=float)))) if np.asarray(after).shape == np.asarray(before).shape else None
                ctx.fail(f"C18:correction({name}):output-differs", f"the reloaded correction produces a different output (max deviation {dev})",
                         dict(case, max_dev=dev))
    ctx.cov["corrections"] = stats
    for name, st in stats.items():
        if st["not_repeatable"]:
            ctx.mark("ORACLE-VACUOUS", {"correction": name, **st, "meaning": "repeated application of the SAME object differs: "
                                        "persistence could not be judged for these cases"})
        # every named correction must actually have been round-tripped, in most of its cases: a class that always raises,
        # cannot be constructed or jitters is REPORTED, not silently dropped from the persistence check
        skipped = st["not_constructible"] + st["unusable_configuration"] + st["not_repeatable"]
        if st["round_tripped"] == 0 or skipped > 0.5 * max(st["cases"], 1):
            ctx.mark("ORACLE-VACUOUS", {"correction": name, **st,
                                        "meaning": "persistence of this correction was not (or hardly) exercised"})


def constructor_provenance(ctx, d):
    """tie of `Persist.construct`: which keyword reaches which attribute, per class (sentinel values that differ from every
    default), against the model evaluated on symbolic values"""
    rnd = ctx.rng
    lines, impl = [], []
    CAND = ["space_dim", "dimensions", "name", "height", "width", "depth", "origin", "series", "date", "reference_date",
            "time", "scalar", "color_space"]
    for n in range(ctx.pick(150, 1500)):
        cls = rnd.choice(["Image", "ScalarImage", "OpticalImage"])
        given = [k for k in CAND if rnd.random() < 0.4]
        if cls != "OpticalImage" and "color_space" in given:
            given.remove("color_space")
        # array layout that makes the call valid
        sd = 2 if cls == "OpticalImage" else (3 if "space_dim" in given else 2)
        if sd == 2 and "depth" in given:
            given.remove("depth")
        series = "series" in given
        scalar_eff = True if cls == "ScalarImage" else (False if cls == "OpticalImage" else "scalar" in given)
        T = 3
        shape = (2, 3, 2)[:sd] + ((T,) if series else ()) + ((3,) if cls == "OpticalImage" else ())
        sent = {
            "space_dim": 3, "dimensions": [3.5, 2.5, 1.5][:sd], "name": "sentinel", "height": 7.25, "width": 8.25, "depth": 9.25,
            "origin": [11.0, 12.0, 13.0][:sd], "series": True, "scalar": True if cls == "Image" else (cls != "ScalarImage"),
            "date": [EPOCH + dt.timedelta(seconds=5 * k) for k in range(T)] if series else EPOCH + dt.timedelta(seconds=77),
            "reference_date": EPOCH - dt.timedelta(days=1), "time": [1.5 * k + 100 for k in range(T)] if series else 123.5,
            "color_space": "HSV",
        }
        if cls == "ScalarImage":
            sent["scalar"] = False  # forced to True by the class
        kw = {k: sent[k] for k in given}
        arr = np.zeros(shape)
        img = quiet(lambda: getattr(d, cls)(arr, **kw))
        lines.append(f"construct {cls} " + " ".join(given))
        if isinstance(img, Raised):
            impl.append(repr(img))
            continue
        out = []
        for k in img.metadata():
            v = getattr(img, k, None)
            same = False
            if k in kw:
                s0 = kw[k]
                if isinstance(s0, list) and k in ("dimensions", "origin"):
                    same = np.shape(v) == np.shape(s0) and bool(np.array_equal(np.asarray(v, dtype=float), np.asarray(s0, dtype=float)))
                else:
                    same = type(v) is type(s0) and v == s0
            out.append(f"{k}={'kw' if same else 'other'}")
        impl.append(" ".join(out))
    ctx.correspond("constructor-keyword-provenance", lines, impl)


CONSTS = {"const:True": True, "const:False": False, "const:0": 0.0, "const:1": 1, "const:affine": "affine", "const:darsia": "darsia"}


def correction_field_tie(ctx, d, tmp):
    """field-level tie of the save / load model of the five corrections: the model, evaluated on symbolic values, says
    which attribute each saved field comes from and which saved field (or default / derived value) each output-relevant
    attribute is rebuilt from; every such pair is verified on a real object, its real npz file and the real reloaded
    object. A pair that does not hold is printed as `?`."""
    import cv2

    photo_path = Path(inspect.getfile(d)).resolve().parents[2] / "examples" / "images" / "baseline.jpg"
    photo = cv2.cvtColor(cv2.imread(str(photo_path)), cv2.COLOR_BGR2RGB) if photo_path.exists() else \
        cv2.GaussianBlur(np.random.RandomState(0).randint(0, 255, size=(900, 1900, 3)).astype(np.uint8), (0, 0), 3)
    ATTR = {
        "TypeCorrection": {"dataType": lambda c: c.data_type},
        "DriftCorrection": {"base": lambda c: c.base, "active": lambda c: c.active, "padding": lambda c: c.relative_padding, "roi": lambda c: c.roi},
        "CurvatureCorrection": {"config": lambda c: c.config, "interpolationOrder": lambda c: c.interpolation_order},
        "IlluminationCorrection": {"colorspace": lambda c: c.colorspace, "localScaling": lambda c: c.local_scaling},
        "ColorCorrection": {"swatches": lambda c: c.colorchecker.swatches_rgb, "active": lambda c: c.active,
                            "whitebalancing": lambda c: c.whitebalancing, "colorbalancing": lambda c: c.colorbalancing,
                            "balancing": lambda c: c.balancing, "clip": lambda c: c.clip, "roi": lambda c: c.roi},
    }

    def file_fields(name, data):
        cfg = data["config"].item() if "config" in data else {}
        if name == "TypeCorrection":
            return {"data_type": data["data_type"].item()}
        if name == "DriftCorrection":
            return {"base": data["base"], "cfgActive": cfg.get("active"), "cfgPadding": cfg.get("padding"), "cfgRoi": cfg.get("roi")}
        if name == "CurvatureCorrection":
            return {"config": cfg, "interpolation_order": int(data["interpolation_order"]) if "interpolation_order" in data else None}
        if name == "IlluminationCorrection":
            return {"cfgColorspace": cfg.get("colorspace"), "cfgLocalScaling": cfg.get("local_scaling")}
        return dict({"base": data["base"]}, **{"config." + k: v for k, v in cfg.items()})

    def attr_val(name, c, tag):
        key = tag[len("attr:"):]
        if key.startswith("config."):
            return c.config.get(key[len("config."):])
        return ATTR[name][key](c)

    lines, cases = [], []
    for n in range(ctx.pick(4, 30)):
        for name, mk, arr, desc in correction_cases(ctx, d, photo):
            if name == "DriftCorrection":
                req = "corr DriftCorrection " + ("roi" if "roi" in desc["config"] else "noroi")
            elif name == "ColorCorrection":
                req = "corr ColorCorrection " + " ".join(k for k in ("active", "whitebalancing", "colorbalancing", "balancing", "clip") if k in desc["config"])
            else:
                req = "corr " + name
            lines.append(req.strip())
            cases.append((name, mk, desc))
    model = ctx.model(lines)
    impl = []
    for line, out, (name, mk, desc) in zip(lines, model, cases):
        c = quiet(mk)
        p = tmp / f"tie_{name}.npz"
        c2 = c if isinstance(c, Raised) else quiet(lambda: (c.save(p), d.read_correction(p))[1])
        if isinstance(c, Raised) or isinstance(c2, Raised) or "|" not in out:
            impl.append(repr(c2) if isinstance(c2, Raised) else repr(c))
            continue
        data = np.load(p, allow_pickle=True)
        ff = file_fields(name, data)
        save_part, load_part = out.split("|")
        res = []
        for pair in save_part.replace("save:", "").split():
            field, tag = pair.split("=", 1)
            fv = ff.get(field)
            ok = (fv is None) if tag == "none" else (tag.startswith("attr:") and deep_equal_loose(fv, attr_val(name, c, tag)))
            res.append(f"{field}={tag if ok else '?'}")
        res2 = []
        for pair in load_part.replace("load:", "").split():
            attr, tag = pair.split("=", 1)
            av = ATTR[name][attr](c2)
            if tag == "none":
                ok = av is None
            elif tag in CONSTS:
                ok = deep_equal_loose(av, CONSTS[tag])
            elif tag.startswith("makeVoxel("):
                ok = deep_equal_loose(np.asarray(av), np.asarray(d.make_voxel(ff.get(tag[len("makeVoxel(file:"):-1]))))
            else:
                ok = tag.startswith("file:") and deep_equal_loose(av, ff.get(tag[len("file:"):]))
            res2.append(f"{attr}={tag if ok else '?'}")
        impl.append("save: " + " ".join(res) + " | load: " + " ".join(res2))
    ctx.correspond("correction-field-provenance", lines, impl)


def deep_equal_loose(x, y):
    """value equality across containers / numpy scalars / images"""
    if hasattr(x, "img") and hasattr(y, "img"):
        return deep_equal_loose(x.img, y.img)
    if isinstance(x, np.ndarray) or isinstance(y, np.ndarray):
        try:
            return np.shape(x) == np.shape(y) and bool(np.array_equal(np.asarray(x), np.asarray(y)))
        except Exception:  # noqa: BLE001
            return False
    if isinstance(x, dict) and isinstance(y, dict):
        return set(x) == set(y) and all(deep_equal_loose(x[k], y[k]) for k in x)
    if isinstance(x, (list, tuple)) and isinstance(y, (list, tuple)):
        return len(x) == len(y) and all(deep_equal_loose(a, b) for a, b in zip(x, y))
    try:
        return bool(x == y)
    except Exception:  # noqa: BLE001
        return False


def replay(data):
    """re-execute the stored case on the implementation: the failing case is regenerated deterministically from the stored
    seed and tier (the whole generation stream of that tier is replayed, Lean proofs are skipped), the oracle is evaluated
    again and the observed outcome is printed next to the stored one. Exit code 1 = reproduced, 0 = not reproduced."""
    import shutil

    from ..lib import core

    sig = data.get("signature")
    rep = data.get("replay") or {}
    print(f"property C18 replay")
    print(f"  stored signature: {sig}")
    print(f"  stored finding  : {data.get('what')}")
    if "verif_seed" not in rep:
        print("  no failing input stored (proof / tie / correspondence break):", [m.get("kind") for m in data.get("no_longer_checks", data.get("marks", []))])
        return 0
    print(f"  stored input    : { {k: v for k, v in rep.items() if k not in ('before', 'after')} }")

    class RCtx(core.Ctx):
        def prove(self, *a, **k):  # the Lean side is not part of a replay
            pass

        def write_gen(self, *a, **k):
            return False

        def log(self, *a):
            pass

    ctx = RCtx("C18", rep.get("tier", "quick"), int(rep["verif_seed"]), LEVEL)
    try:
        run(ctx)
    finally:
        shutil.rmtree(ctx._tmp, ignore_errors=True)
    hits = [f for f in ctx.failures if f["signature"] == sig] + [h for h in ctx.known_hits if h["signature"] == sig]
    if hits:
        h = hits[0]
        print("  REPRODUCED on the current implementation:")
        print(f"    observed: {h.get('what')}")
        if "replay" in h:
            print(f"    input   : { {k: v for k, v in h['replay'].items() if k not in ('before', 'after')} }")
            for k in ("before", "after", "observed", "required"):
                if k in h["replay"]:
                    print(f"    {k:8}: {str(h['replay'][k])[:300]}")
        return 1
    others = sorted({f["signature"] for f in ctx.failures})
    print("  not reproduced on the current implementation (the required behaviour holds for the regenerated case)" + (f"; other failures now: {others[:5]}" if others else ""))
    return 0


def run(ctx):
    import darsia as d

    _fail = ctx.fail
    ctx.fail = lambda sig, what, rep: _fail(sig, what, dict(rep, verif_seed=ctx.seed, tier=ctx.tier))  # replays are reproducible

    tmp = Path(tempfile.mkdtemp(prefix="darsia-c18-"))
    try:
        t = tabulate(d, tmp)
        ctx.write_gen("PersistTables", emit(t))
        ctx.cov["generated_tables"] = {
            "metaKeys": t["metaKeys"], "consumed": t["consumed"], "npzClass": t["npzClass"],
            "suffix": {k: repr(v) for k, v in t["suffix"].items()}, "bytesKind": {k: repr(v) for k, v in t["bytesKind"].items()},
            "perms": [t["readPerm"], t["filePerm"], t["writePerm"]], "corrections": t["corr"]}
        # G2 validation independent of Lean: a consumed keyword must be accepted by the constructor, and the corrections that
        # implement save must be the ones the property names
        if "dimensions" not in t["consumed"]["Image"] or "color_space" not in t["consumed"]["OpticalImage"]:
            ctx.mark("TIE-BROKEN", {"G2": "constructor keyword extraction returned an implausible set", "consumed": t["consumed"]})
        ctx.prove("C18")
        for name, c in t["corr"].items():
            if c["implementsSave"] and not (c["writesClassName"] and c["resolvable"]):
                # the static reading (literal np.savez keywords, names in the reader module) is only a hint: the failing
                # input is a default-constructed instance whose saved file read_correction really cannot read back
                cls = getattr(d, name)
                inst = quiet(cls)
                pth = tmp / f"generic_{name}.npz"
                back = inst if isinstance(inst, Raised) else quiet(lambda: (inst.save(pth), d.read_correction(pth))[1])
                if isinstance(inst, Raised) or (not isinstance(back, Raised) and type(back) is type(inst)):
                    ctx.mark("TIE-BROKEN", {"correspondence": "read_correction dispatch tables (static)", "correction": name,
                                            "static": {"writesClassName": c["writesClassName"], "resolvable": c["resolvable"]},
                                            "dynamic": "not constructible without arguments" if isinstance(inst, Raised) else "save -> read_correction works"})
                    continue
                ctx.fail(f"C18:read_correction({name}):not-readable-by-generic-reader",
                         f"{name}.save writes a file ({', '.join(c['saved'])}) that read_correction cannot dispatch "
                         f"(class_name written: {c['writesClassName']}, class known to read_correction: {c['resolvable']})",
                         dict(correction=name, saved_fields=c["saved"], in_AnyCorrection=c["inUnion"],
                              observed=repr(back.exc) if isinstance(back, Raised) else f"read_correction returned {type(back).__name__}"))
        oracle_bytes(ctx, d)
        constructor_provenance(ctx, d)
        oracle_npz(ctx, d, tmp)
        oracle_write(ctx, d, tmp)
        oracle_corrections(ctx, d, tmp, t["corr"])
        correction_field_tie(ctx, d, tmp)
    finally:
        shutil.rmtree(tmp, ignore_errors=True)
    ctx.cov["explanation"] = CLAIM["text"]
    ctx.cov["rule"] = "distinct = description of the generated image / byte string / correction configuration"
    ctx.assumptions += [
        "np.savez / pickle / cv2.imencode / imdecode / imwrite / TIFF and PNG codecs are outside the model (round trips observed)",
        "cv2's global RNG is seeded before every application of a correction (cv2.kmeans with random centres inside the colour "
        "checker extraction is otherwise not repeatable, saved or not)",
        "G2 extraction reads kwargs.get/pop/in of the constructors and the np.savez keywords / string subscripts of save / load",
    ]
