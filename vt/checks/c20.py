"""C20 - matrix and Cartesian axis conventions are coherent in every dimension.

Tie: G1 tabulation of the real helpers over the finite axis vocabulary -> DarsiaGen.IndexingTables,
theorems in DarsiaProps.C20 are `decide` obligations over those tables plus general lemmas about
layout index maps; random-array correspondence for the layout helpers, slicing and reduction.
"""
from __future__ import annotations

import inspect

import numpy as np

from ..lib.impl import Raised, call
from ..lib.leangen import lbool, lexcept, llist

LEVEL = "proof"
CLAIM = dict(
    category="proof",
    text="Theorems in DarsiaProps.C20 over tables re-tabulated from the running helpers on every run (G1): agreement of "
    "to_matrix/to_cartesian with interpret_indexing, there-and-back, integer = named axis, coherence and bijectivity of "
    "interpret_indexing, layout helper = coordinate-system placement (all shapes), layout helpers mutually inverse (all shapes, "
    "all indices, both directions: layout_inverse, layout_inverse', non-vacuity layout_specs_exist), slice/reduce by name resolve to the same matrix axis as by index, and slicing at the centre coordinate of voxel v selects index v (tabulated on the base shape 2x3x5; the \"same data\" clause for other shapes, series and vector payloads is checked by the oracle). Exhaustive over the finite vocabulary; random arrays (incl. trailing payload axes) tie the "
    "layout index maps and slicing/reduction to the model. `slice_name_eq_index` (proved on the C01 coordinate model, file DarsiaModel/Slice.lean, tied through "
    "the C01 correspondence): slicing by Cartesian name at any coordinate inside voxel layer v equals slicing by matrix index v, for every well-formed geometry of every "
    "shape, dimension 1-3, reversed and non-reversed axes. For REDUCTION only the resolved axis is tabulated and proved; that reduction by name and by index give the same "
    "data is checked by the oracle. Observed by the oracle only (no theorem): name = index agreement along call "
    "sequences that move the origin in place, and voxel placement of scalar/vector/tensor data in the VTK export (pyevtk stubbed).",
    note="numpy swapaxes/flip semantics (tied by the layout correspondence); tabulation is exhaustive over dims 1-3 x axes x indexings.",
    technique="Lean 4 proof (decide over tables regenerated from the code + general index-map lemmas) + differential correspondence",
)
AXES = ["x", "y", "z", "i", "j", "k"]
INDS = ["x", "xy", "xyz", "i", "ij", "ijk"]
BASE_SHAPE = (2, 3, 5)


def _axarg(a):
    return f".name .{a}" if isinstance(a, str) else f".idx {a}"


def infer_layout(fn, dim, shape):
    """Infer (source axis, flipped) per output axis from pushing an arange array through fn."""
    arr = np.arange(int(np.prod(shape))).reshape(shape)
    out = fn(arr)
    if isinstance(out, Raised):
        return out
    if out.ndim != dim:
        return Raised(ValueError("ndim"))
    idx = np.indices(shape)  # idx[v][multi] = v-th component
    spec = []
    for a in range(dim):
        found = None
        for v in range(dim):
            if out.shape[a] != shape[v]:
                continue
            comp = np.array([np.unravel_index(int(t), shape)[v] for t in out.ravel()]).reshape(out.shape)
            ramp = np.arange(out.shape[a]).reshape([-1 if b == a else 1 for b in range(dim)])
            if np.array_equal(comp, np.broadcast_to(ramp, out.shape)):
                found = (v, False)
            elif np.array_equal(comp, np.broadcast_to(out.shape[a] - 1 - ramp, out.shape)):
                found = (v, True)
        if found is None:
            return Raised(ValueError("not a permutation+flip layout"))
        spec.append(found)
    return spec


def m2c(d, dim):
    return lambda arr: call(d.matrixToCartesianIndexing, arr, dim)


def c2m(d, dim):
    params = inspect.signature(d.cartesianToMatrixIndexing).parameters
    if len(params) >= 2:
        return lambda arr: call(d.cartesianToMatrixIndexing, arr, dim)
    return lambda arr: call(d.cartesianToMatrixIndexing, arr)


def make_image(d, dim, shape=None, series=False, scalar=True):
    shape = tuple(shape or BASE_SHAPE[:dim])
    full = shape + ((4,) if series else ()) + (() if scalar else (2,))
    arr = np.arange(int(np.prod(full)), dtype=float).reshape(full)
    kw = dict(space_dim=dim, dimensions=[float(s) * 0.5 * (a + 1) for a, s in enumerate(shape)], scalar=scalar, series=series,
              origin=[10.0, 20.0, 40.0][:dim])
    if series:
        kw["time"] = list(range(4))
    return d.Image(arr, **kw)


def slice_axis(d, axarg, dim):
    """Which matrix axis does Image.slice(cut, axis) remove (by shape; extents are distinct)."""
    img = make_image(d, dim)
    if isinstance(axarg, str):
        # cut = coordinate of the centre of voxel 1 along that Cartesian axis
        if axarg not in "xyz":
            return Raised(ValueError("name"))
        c = "xyz".find(axarg)
        if c >= dim:
            r = call(img.slice, 0.0, axarg)
            return r if isinstance(r, Raised) else Raised(ValueError("accepted foreign axis"))
        # a coordinate surely inside the image along axis c (only the removed axis matters here)
        lo = min(img.origin[c], img.opposite_corner[c])
        cut = float(lo) + 0.25
        r = call(img.slice, cut, axarg)
    else:
        if axarg >= dim:
            r = call(img.slice, 0, axarg)
            return r if isinstance(r, Raised) else Raised(ValueError("accepted foreign axis"))
        r = call(img.slice, 1, axarg)
    if isinstance(r, Raised):
        return r
    rest = tuple(r.img.shape[: dim - 1])
    for a in range(dim):
        if tuple(s for b, s in enumerate(BASE_SHAPE[:dim]) if b != a) == rest:
            return a
    return Raised(ValueError("shape"))


def reduce_axis_tab(d, axarg, dim):
    r = call(d.AxisReduction, axarg, dim)
    if isinstance(r, Raised):
        return r
    if not isinstance(r.index, (int, np.integer)) or not isinstance(r.axis, (int, np.integer)):
        return Raised(TypeError("index"))
    if not (0 <= r.index < 3 and 0 <= r.axis < 3):
        return Raised(ValueError("range"))
    return (int(r.index), int(r.axis))


def slice_selection(d, t, a, dim, v):
    """Which index along its matrix axis does `Image.slice(c, a)` select when c is the centre coordinate of voxel v
    (coordinate computed from the tabulated axis table and the image's origin/dimensions, not by the coordinate system)?"""
    M = {1: "i", 2: "ij", 3: "ijk"}[dim]
    it = t["interpret"][(a, M)]
    if isinstance(it, Raised):
        return it
    p, _ = it
    shape = BASE_SHAPE[:dim]
    img = make_image(d, dim)
    vox = [0] * dim
    vox[p] = v
    origin = [float(x) for x in np.asarray(img.origin).ravel()]
    c = cell_centre_coordinate(t, dim, origin, [float(x) for x in img.dimensions], shape, vox)["xyz".find(a)]
    r = call(img.slice, float(c), a)
    if isinstance(r, Raised):
        return r
    for w in range(shape[p]):
        if r.img.shape == np.take(img.img, w, axis=p).shape and np.array_equal(r.img, np.take(img.img, w, axis=p)):
            return w
    return Raised(ValueError("selects no slab of the array"))


def tabulate(d):
    t = {"toMatrix": {}, "toCartesian": {}, "interpret": {}, "m2c": {}, "c2m": {}, "slice": {}, "reduce": {}, "sliceSel": {}}
    args = AXES + [0, 1, 2]
    for a in args:
        for ind in INDS:
            r = call(d.to_matrix_indexing, a, ind)
            t["toMatrix"][(a, ind)] = r if isinstance(r, Raised) or r in AXES else Raised(TypeError("ret"))
            r = call(d.to_cartesian_indexing, a, ind)
            t["toCartesian"][(a, ind)] = r if isinstance(r, Raised) or r in AXES else Raised(TypeError("ret"))
    for a in AXES:
        for ind in INDS:
            r = call(d.interpret_indexing, a, ind)
            if not isinstance(r, Raised):
                try:
                    p, f = r
                    r = (int(p), bool(f))
                    if not 0 <= r[0] < 3:
                        r = Raised(ValueError("range"))
                except Exception as e:  # noqa: BLE001
                    r = Raised(TypeError("ret"))
            t["interpret"][(a, ind)] = r
    for dim in (1, 2, 3):
        t["m2c"][dim] = infer_layout(m2c(d, dim), dim, BASE_SHAPE[:dim])
        # input of c2m is a Cartesian-layout array; use the output shape of m2c when available
        cshape = BASE_SHAPE[:dim]
        if not isinstance(t["m2c"][dim], Raised):
            cshape = tuple(BASE_SHAPE[v] for v, _ in t["m2c"][dim])
        t["c2m"][dim] = infer_layout(c2m(d, dim), dim, cshape)
        for a in args:
            t["slice"][(a, dim)] = slice_axis(d, a, dim)
            t["reduce"][(a, dim)] = reduce_axis_tab(d, a, dim)
        for a in "xyz"[:dim]:
            for v in range(max(BASE_SHAPE)):
                t["sliceSel"][(a, dim, v)] = slice_selection(d, t, a, dim, v) if v < 5 else Raised(IndexError("v"))
    return t


def emit(t) -> str:
    L = ["import DarsiaModel.Indexing", "namespace Darsia.Gen", "open Darsia", ""]

    def table(name, ty, keys, dom2, val, key2=lambda b: "." + str(b)):
        L.append(f"def {name} : {ty}")
        for (a, b), v in keys.items():
            L.append(f"  | {_axarg(a) if dom2 == 'axarg' else '.' + a}, {key2(b)} => {val(v)}")
        L.append("")

    table("toMatrix", "AxArg → Ind → Except Err Ax", t["toMatrix"], "axarg", lambda v: lexcept(v, lambda s: "." + s))
    table("toCartesian", "AxArg → Ind → Except Err Ax", t["toCartesian"], "axarg", lambda v: lexcept(v, lambda s: "." + s))
    table("interpret", "Ax → Ind → Except Err (Nat × Bool)", t["interpret"], "ax",
          lambda v: lexcept(v, lambda p: f"({p[0]}, {lbool(p[1])})"))
    dimk = lambda b: ".d" + str(b)
    table("sliceAxis", "AxArg → Dim → Except Err Nat", t["slice"], "axarg", lambda v: lexcept(v, str), dimk)
    table("reduceAxis", "AxArg → Dim → Except Err (Nat × Nat)", t["reduce"], "axarg",
          lambda v: lexcept(v, lambda p: f"({p[0]}, {p[1]})"), dimk)
    L.append("/-- index selected along its matrix axis by `Image.slice(c, name)` for c = centre of voxel v (base shape 2x3x5) -/")
    L.append("def sliceSel : Ax → Dim → Nat → Except Err Nat")
    for (a, dim, v), val in t["sliceSel"].items():
        L.append(f"  | .{a}, .d{dim}, {v} => {lexcept(val, str)}")
    L.append("  | _, _, _ => (.error .index)")
    L.append("")
    for name in ("m2c", "c2m"):
        L.append(f"def {name} : Dim → Except Err LayoutSpec")
        for dim in (1, 2, 3):
            L.append(f"  | .d{dim} => " + lexcept(t[name][dim], lambda sp: llist(sp, lambda p: f"({p[0]}, {lbool(p[1])})")))
        L.append("")
    L.append("end Darsia.Gen")
    return "\n".join(L) + "\n"


# ---------------------------------------------------------------------------
# property oracle on the implementation (direct transcription of the statement)


def oracle(ctx, d, t):
    cart = {1: "x", 2: "xy", 3: "xyz"}
    mat = {1: "i", 2: "ij", 3: "ijk"}
    for dim in (1, 2, 3):
        C, M = cart[dim], mat[dim]
        for a in C:
            ctx.count(("axis", dim, a))
            m = t["toMatrix"][(a, C)]
            it = t["interpret"][(a, M)]
            if isinstance(it, Raised):
                ctx.fail(f"C20:interpret_indexing({a},{M}):raises", f"interpret_indexing('{a}','{M}') raises {it}", {"call": ["interpret_indexing", a, M]})
                continue
            if isinstance(m, Raised):
                ctx.fail(f"C20:to_matrix_indexing({a},{C}):raises", f"to_matrix_indexing('{a}','{C}') raises {m}; documented combination unusable",
                         {"call": ["to_matrix_indexing", a, C], "observed": repr(m)})
            else:
                if "ijk".find(m) != it[0]:
                    ctx.fail(f"C20:to_matrix_indexing({a},{C})!=interpret_indexing", f"to_matrix_indexing('{a}','{C}')='{m}' but interpret_indexing('{a}','{M}') gives matrix axis {it[0]}",
                             {"call": ["to_matrix_indexing", a, C], "observed": m, "interpret": list(it)})
                back = t["toCartesian"][(m, M)]
                if back != a:
                    ctx.fail(f"C20:there_and_back({a},{C})", f"to_cartesian_indexing(to_matrix_indexing('{a}'))={back!r}", {"axis": a, "dim": dim})
            # integer form equals named form
            n = "xyz".find(a)
            if t["toMatrix"][(n, C)] != m:
                ctx.fail(f"C20:to_matrix_indexing(int {n},{C})!=name", "integer axis form differs from named form", {"axis": n, "dim": dim})
            # the coordinate system's two tables agree: interpret(a, M) = (p, r) <-> interpret("ijk"[p], C) = (pos a, r)
            rev = t["interpret"][("ijk"[it[0]], C)]
            if rev != (n, it[1]):
                ctx.fail(f"C20:interpret_indexing({a},{M})-vs-({'ijk'[it[0]]},{C})", f"interpret tables incoherent: {it} vs {rev}", {"axis": a, "dim": dim})
        for m in M:
            ctx.count(("maxis", dim, m))
            c = t["toCartesian"][(m, M)]
            if isinstance(c, Raised):
                ctx.fail(f"C20:to_cartesian_indexing({m},{M}):raises", f"to_cartesian_indexing('{m}','{M}') raises {c}", {"call": ["to_cartesian_indexing", m, M]})
                continue
            it = t["interpret"][(c, M)]
            if isinstance(it, Raised) or it[0] != "ijk".find(m):
                ctx.fail(f"C20:to_cartesian_indexing({m},{M})!=interpret_indexing", f"to_cartesian_indexing('{m}','{M}')='{c}' but interpret_indexing('{c}','{M}')={it}",
                         {"call": ["to_cartesian_indexing", m, M], "observed": c, "interpret": repr(it)})
            if t["toMatrix"][(c, C)] != m:
                ctx.fail(f"C20:back_and_there({m},{M})", "to_matrix_indexing(to_cartesian_indexing(m)) != m", {"axis": m, "dim": dim})
            if t["toCartesian"][("ijk".find(m), M)] != c:
                ctx.fail(f"C20:to_cartesian_indexing(int,{M})!=name", "integer axis form differs from named form", {"axis": m, "dim": dim})
        # layouts: random arrays
        shapes = [BASE_SHAPE[:dim]] + [tuple(ctx.rng.randint(1, 6) for _ in range(dim)) for _ in range(ctx.pick(6, 60))]
        for nshape, shape in enumerate(shapes):
            ctx.count(("layout", dim, shape), nontrivial=int(np.prod(shape)) > 1)
            arr = np.arange(int(np.prod(shape)), dtype=float).reshape(shape) + 0.5
            # the helpers take `dim`: arrays may carry trailing payload axes (vector / colour / series); each payload
            # component must be re-indexed like a scalar array and the payload axes must stay trailing
            for trailing in ([(3,), (2, 4)][nshape % 2],) if nshape % 3 else ():
                big = np.arange(int(np.prod(shape + trailing)), dtype=float).reshape(shape + trailing)
                cbig = m2c(d, dim)(big)
                comp = tuple(0 for _ in trailing)
                want = m2c(d, dim)(big[(slice(None),) * dim + comp])
                okb = (not isinstance(cbig, Raised) and not isinstance(want, Raised) and cbig.shape == want.shape + trailing
                       and np.array_equal(cbig[(slice(None),) * dim + comp], want))
                if okb:
                    bb = c2m(d, dim)(cbig)
                    okb = not isinstance(bb, Raised) and bb.shape == big.shape and np.array_equal(bb, big)
                if not okb:
                    ctx.fail(f"C20:layout-helpers(dim={dim}):payload-axes", "layout helpers mishandle arrays with trailing payload axes (not component-wise / not mutually inverse)",
                             {"shape": list(shape), "trailing": list(trailing), "dim": dim})
            cimg = m2c(d, dim)(arr)
            if isinstance(cimg, Raised):
                ctx.fail(f"C20:matrixToCartesianIndexing(dim={dim}):raises", str(cimg), {"shape": shape})
                break
            # the other direction: start from a Cartesian-layout array B (any shape), m2c(c2m(B)) == B
            barr = np.arange(int(np.prod(shape)), dtype=float).reshape(shape) * 2.0 + 1.0
            mb = c2m(d, dim)(barr)
            bb = mb if isinstance(mb, Raised) else m2c(d, dim)(mb)
            if isinstance(bb, Raised) or bb.shape != barr.shape or not np.array_equal(bb, barr):
                ctx.fail(f"C20:matrixToCartesianIndexing(dim={dim}):not-inverse-of-cartesianToMatrixIndexing",
                         "matrixToCartesianIndexing(cartesianToMatrixIndexing(B)) != B", {"shape": shape, "dim": dim})
                break
            back = c2m(d, dim)(cimg)
            if isinstance(back, Raised) or back.shape != arr.shape or not np.array_equal(back, arr):
                ctx.fail(f"C20:cartesianToMatrixIndexing(dim={dim}):not-inverse", "cartesianToMatrixIndexing(matrixToCartesianIndexing(A)) != A",
                         {"shape": shape, "dim": dim})
                break
            # placement: Cartesian index of voxel v per interpret_indexing
            ok = True
            for v in np.ndindex(*shape):
                cidx = []
                for a in C:
                    p, r = t["interpret"][(a, M)]
                    cidx.append(shape[p] - 1 - v[p] if r else v[p])
                if len(cidx) != cimg.ndim or any(ci < 0 or ci >= s_ for ci, s_ in zip(cidx, cimg.shape)):
                    ok = False
                    break
                if cimg[tuple(cidx)] != arr[v]:
                    ok = False
                    break
            if not ok:
                ctx.fail(f"C20:matrixToCartesianIndexing(dim={dim}):placement", "Cartesian layout does not place voxels where the coordinate system says", {"shape": shape, "voxel": list(v)})
                break
        # slicing and reduction by name vs by index
        if True:  # all dimensions 1-3 (a 1-D image is sliced / reduced to a 0-dimensional image)
            for trial in range(ctx.pick(4, 24)):
                shape = BASE_SHAPE[:dim] if trial == 0 else tuple(ctx.rng.randint(2, 6) for _ in range(dim))
                series = trial % 2 == 1
                img = make_image(d, dim, shape, series=series, scalar=trial % 3 != 2)
                for a in C:
                    ctx.count(("slice", dim, shape, a, series))
                    p, r = t["interpret"][(a, M)]
                    v = ctx.rng.randrange(shape[p])
                    vox = [0] * dim
                    vox[p] = v
                    coord = img.coordinatesystem.coordinate(np.array(vox) + 0.5)
                    by_name = call(img.slice, float(coord["xyz".find(a)]), a)
                    by_idx = call(img.slice, v, p)
                    if isinstance(by_idx, Raised):
                        ctx.fail(f"C20:Image.slice(int,dim={dim}):raises", str(by_idx), {"shape": shape, "axis": p})
                    elif isinstance(by_name, Raised):
                        ctx.fail(f"C20:Image.slice(name,dim={dim}):raises", f"Image.slice(cut,'{a}') raises {by_name}", {"shape": shape, "axis": a, "cut": float(coord['xyz'.find(a)])})
                    elif by_name.img.shape != by_idx.img.shape or not np.array_equal(by_name.img, by_idx.img) or not np.allclose(by_name.dimensions, by_idx.dimensions):
                        ctx.fail(f"C20:Image.slice(name!=index,dim={dim},axis={a})", "slice by Cartesian name differs from slice by matrix index", {"shape": shape, "axis": a, "voxel": v})
                    rn_ = call(d.AxisReduction, a, dim)
                    ri_ = call(d.AxisReduction, p, dim)
                    if isinstance(rn_, Raised) or isinstance(ri_, Raised):
                        ctx.fail(f"C20:AxisReduction(dim={dim},axis={a}):raises", "AxisReduction cannot be built for this axis by name or by matrix index",
                                 {"dim": dim, "axis": a, "matrix_index": p, "by_name": repr(rn_), "by_index": repr(ri_)})
                    else:
                        # the attributes `index` / `axis` are what the generated table `Gen.reduceAxis` records (tie to the model); the
                        # STATED clause - same data by name and by index, along the axis the coordinate system assigns - is checked on
                        # `reduce_axis` results below, so a difference here alone is a broken tie, not a failing input
                        got = (getattr(rn_, "index", None), getattr(rn_, "axis", None), getattr(ri_, "index", None), getattr(ri_, "axis", None))
                        if got != (p, "xyz".find(a), p, "xyz".find(a)) and not any(m.get("correspondence") == "AxisReduction.index/.axis" for m in ctx.marks):
                            ctx.mark("TIE-BROKEN", {"correspondence": "AxisReduction.index/.axis", "dim": dim, "axis": a, "matrix_index": p, "observed": repr(got)})
                    for mode in ("sum", "average"):
                        rn = call(d.reduce_axis, img, a, mode=mode)
                        ri = call(d.reduce_axis, img, p, mode=mode)
                        if isinstance(rn, Raised) or isinstance(ri, Raised):
                            ctx.fail(f"C20:reduce_axis(dim={dim}):raises", f"{rn} / {ri}", {"shape": shape, "axis": a})
                        elif not np.array_equal(rn.img, ri.img) or not np.allclose(rn.dimensions, ri.dimensions) or not np.allclose(rn.origin, ri.origin):
                            ctx.fail(f"C20:reduce_axis(name!=index,dim={dim},axis={a})", "reduction by name differs from by index", {"shape": shape, "axis": a})
                        else:
                            # which matrix axis was removed is read off the SHAPE (independent of how values are combined - that is
                            # C11's topic); only decidable when the extent of axis p differs from the others
                            full = tuple(img.img.shape)
                            want_shape = full[:p] + full[p + 1:]
                            others = [full[:q] + full[q + 1:] for q in range(dim) if q != p]
                            if want_shape not in others and tuple(rn.img.shape) != want_shape:
                                ctx.fail(f"C20:reduce_axis(wrong-axis,dim={dim},axis={a})", "reduction along the named axis does not remove the matrix axis given by interpret_indexing",
                                         {"shape": list(full), "axis": a, "matrix_axis": p, "result_shape": list(rn.img.shape)})



def cell_centre_coordinate(t, dim, origin, dimensions, shape, vox):
    """Coordinate of the centre of voxel `vox`, computed from the tabulated axis table and the image's CURRENT
    origin/dimensions only (independent of any CoordinateSystem object the image may hold)."""
    M = {1: "i", 2: "ij", 3: "ijk"}[dim]
    out = []
    for c, a in enumerate("xyz"[:dim]):
        p, r = t["interpret"][(a, M)]
        h = dimensions[p] / shape[p]
        out.append(origin[c] + (-1 if r else 1) * (vox[p] + 0.5) * h)
    return out


def oracle_sequences(ctx, d, t):
    """Addressing an axis by name must keep agreeing with addressing it by index along a call sequence on ONE image
    object whose placement (origin) changes in place between the calls."""
    for dim in (2, 3):
        C, M = "xyz"[:dim], {2: "ij", 3: "ijk"}[dim]
        for trial in range(ctx.pick(2, 10)):
            shape = BASE_SHAPE[:dim] if trial == 0 else tuple(ctx.rng.randint(2, 6) for _ in range(dim))
            img = make_image(d, dim, shape, series=trial % 2 == 1)
            changers = [
                ("reset_origin", lambda im: im.reset_origin()),
                ("update_metadata(origin)", lambda im: im.update_metadata(origin=[-3.0, 5.5, 1.25][:dim])),
                ("origin=", lambda im: setattr(im, "origin", d.make_coordinate([7.0, -2.0, 0.5][:dim]))),
            ]
            # step 1: touch everything that might cache placement
            call(lambda: (img.coordinatesystem, img.opposite_corner, img.slice(float(img.origin[0]) + 0.1, "x")))
            for cname, change in changers:
                r = call(change, img)
                if isinstance(r, Raised):
                    continue  # this way of changing the origin is not offered by the code under test
                origin = [float(x) for x in np.asarray(img.origin).ravel()]
                dims = [float(x) for x in img.dimensions]
                for a in C:
                    ctx.count(("slice-sequence", dim, shape, cname, a))
                    p, rev = t["interpret"][(a, M)]
                    if isinstance(t["interpret"][(a, M)], Raised):
                        continue
                    v = ctx.rng.randrange(shape[p])
                    vox = [0] * dim
                    vox[p] = v
                    coord = cell_centre_coordinate(t, dim, origin, dims, shape, vox)["xyz".find(a)]
                    by_name = call(img.slice, float(coord), a)
                    by_idx = call(img.slice, v, p)
                    if isinstance(by_idx, Raised):
                        continue
                    if isinstance(by_name, Raised) or by_name.img.shape != by_idx.img.shape or not np.array_equal(by_name.img, by_idx.img):
                        ctx.fail(f"C20:Image.slice(name!=index,after:{cname},dim={dim})",
                                 f"after changing the origin in place ({cname}) slicing at the centre of voxel {v} along '{a}' no longer selects matrix index {v} of axis {p}",
                                 {"dim": dim, "shape": list(shape), "sequence": ["touch coordinatesystem/opposite_corner/slice", cname, f"slice({coord},'{a}') vs slice({v},{p})"],
                                  "origin": origin, "by_name": repr(by_name) if isinstance(by_name, Raised) else "different data"})
                        break


def oracle_held_coordinatesystems(ctx, d, t):
    """The coordinate system of an image keeps agreeing with the axis helpers while it is HELD and other images /
    coordinate systems (of other dimensions, made directly or by slicing / reducing) are created in between."""
    Ms = {1: "i", 2: "ij", 3: "ijk"}
    for trial in range(ctx.pick(3, 12)):
        order = [1, 2, 3]
        ctx.rng.shuffle(order)
        held = []
        for dim in order:
            shape = tuple(BASE_SHAPE[:dim]) if trial == 0 else tuple(ctx.rng.randint(2, 5) for _ in range(dim))
            img = make_image(d, dim, shape)
            held.append((dim, shape, img, img.coordinatesystem))
        # in-between constructions of further coordinate systems
        between = []
        for dim, shape, img, _ in held:
            if dim >= 2:
                k = ctx.rng.randrange(dim)
                r = call(lambda: img.slice(0, k).coordinatesystem)
                between.append(f"slice(0,{k}) of the {dim}-d image")
                r = call(lambda: d.reduce_axis(img, k).coordinatesystem)
                between.append(f"reduce_axis({k}) of the {dim}-d image")
        extra = ctx.rng.choice([1, 2, 3])
        call(lambda: make_image(d, extra, tuple(BASE_SHAPE[:extra])).coordinatesystem)
        between.append(f"new {extra}-d image")
        for dim, shape, img, cs in held:
            M, C = Ms[dim], "xyz"[:dim]
            origin = [float(x) for x in np.asarray(img.origin).ravel()]
            dims = [float(x) for x in img.dimensions]
            vox = [ctx.rng.randrange(n) for n in shape]
            ctx.count(("held-cs", dim, tuple(order)))
            want = cell_centre_coordinate(t, dim, origin, dims, shape, vox)
            got = call(lambda: [float(x) for x in np.asarray(cs.coordinate(np.array(vox) + 0.5)).ravel()])
            seq = [f"hold coordinatesystem of {dd}-d image {list(sh)}" for dd, sh, _, _ in held] + between
            if isinstance(got, Raised) or not np.allclose(got, want, atol=1e-9):
                ctx.fail(f"C20:held-coordinatesystem:coordinate(dim={dim})",
                         f"a held {dim}-d coordinate system no longer maps voxel centre {vox} where interpret_indexing says ({want}); got {got}",
                         {"dim": dim, "shape": list(shape), "sequence": seq, "voxel": vox, "want": want, "got": repr(got)})
                continue
            back = call(lambda: [int(x) for x in np.asarray(cs.voxel(np.array(want))).ravel()])
            if isinstance(back, Raised) or back != vox:
                ctx.fail(f"C20:held-coordinatesystem:voxel(dim={dim})",
                         f"a held {dim}-d coordinate system no longer maps the centre coordinate back to voxel {vox}; got {back}",
                         {"dim": dim, "shape": list(shape), "sequence": seq, "voxel": vox, "got": repr(back)})
                continue
            for a in C:
                pr = t["interpret"][(a, M)]
                if isinstance(pr, Raised):
                    continue
                p, rev = pr
                e = np.zeros(dim)
                e[p] = 1.0
                cv = call(lambda: [float(x) for x in np.asarray(cs.coordinate_vector(e)).ravel()])
                wantv = [0.0] * dim
                wantv["xyz".find(a)] = (-1.0 if rev else 1.0) * dims[p] / shape[p]
                if isinstance(cv, Raised) or not np.allclose(cv, wantv, atol=1e-9):
                    ctx.fail(f"C20:held-coordinatesystem:coordinate_vector(dim={dim},axis={a})",
                             f"a held {dim}-d coordinate system maps the unit step along matrix axis {p} to {cv}, interpret_indexing says {wantv}",
                             {"dim": dim, "shape": list(shape), "sequence": seq, "matrix_axis": p, "want": wantv, "got": repr(cv)})
                    break


class _VtkStub:
    """Records what plotting.to_vtk hands to pyevtk.hl.gridToVTK (pyevtk itself is an optional dependency)."""

    def __enter__(self):
        import sys
        import types

        self.rec = {}
        self.saved = {k: sys.modules.get(k) for k in ("pyevtk", "pyevtk.hl")}
        m, hl = types.ModuleType("pyevtk"), types.ModuleType("pyevtk.hl")

        def gridToVTK(path, x, y, z, cellData=None, **kw):
            self.rec.update(x=np.asarray(x), y=np.asarray(y), z=np.asarray(z), cellData=cellData)

        hl.gridToVTK = gridToVTK
        m.hl = hl
        sys.modules["pyevtk"], sys.modules["pyevtk.hl"] = m, hl
        return self

    def __exit__(self, *a):
        import sys

        for k, v in self.saved.items():
            if v is None:
                sys.modules.pop(k, None)
            else:
                sys.modules[k] = v


def oracle_vtk(ctx, d, t):
    """The Cartesian-layout export places every voxel (scalar data and every vector / tensor component) in the grid
    cell in which the coordinate system locates it."""
    import tempfile

    fmt = getattr(d, "Format", None)
    for dim in (1, 2, 3):
        for trial in range(ctx.pick(1, 4)):
            shape = tuple(BASE_SHAPE[:dim]) if trial == 0 else tuple(ctx.rng.randint(1, 5) for _ in range(dim))
            img = make_image(d, dim, shape)
            ncomp = {1: 1, 2: 2, 3: 3}[dim]
            rs = np.random.RandomState(ctx.rng.randrange(2**31))
            vec = rs.randint(1, 1000, size=shape + (ncomp,)).astype(float) + rs.rand(*shape, ncomp)
            data = [("scalar", img, getattr(fmt, "SCALAR", None))]
            if fmt is not None:
                data += [("vector", vec, fmt.VECTOR), ("tensor", vec + 0.25, fmt.TENSOR)]
            with tempfile.TemporaryDirectory(prefix="darsia-verif-vtk-") as tmp, _VtkStub() as stub:
                r = call(d.plotting.to_vtk, tmp + "/out", data)
            ctx.count(("vtk", dim, shape))
            if isinstance(r, Raised):
                # the export could not be observed through the stub (another pyevtk entry point, another calling convention, ...):
                # nothing about axis conventions follows from that - recorded, neither a failing input nor a mark
                ctx.cov.setdefault("vtk_export_not_observable", []).append({"dim": dim, "shape": list(shape), "raised": repr(r)})
                continue
            if not stub.rec:
                continue  # export not reached (should not happen with the stub)
            axes = [stub.rec["x"], stub.rec["y"], stub.rec["z"]]
            cs = img.coordinatesystem
            for name, arr, _ in data:
                exported = stub.rec["cellData"].get(name)
                src = arr.img if isinstance(arr, d.Image) else arr
                comps = [exported] if not isinstance(exported, (tuple, list)) else list(exported)
                srcs = [src] if src.ndim == dim else [src[..., k] for k in range(src.shape[-1])]
                for ci, e in enumerate(comps):
                    e = np.asarray(e)
                    if not np.any(e):
                        continue  # zero padding of missing components
                    ok_any = False
                    for s_ in srcs:
                        for sign in (1.0, -1.0):
                            good = True
                            for cell in np.ndindex(*e.shape):
                                centre = [0.5 * (axes[k][cell[k]] + axes[k][cell[k] + 1]) for k in range(dim)]
                                v = tuple(int(x) for x in np.asarray(cs.voxel(np.array(centre))).ravel())
                                if any(not 0 <= v[k] < shape[k] for k in range(dim)) or e[cell] != sign * s_[v]:
                                    good = False
                                    break
                            ok_any = ok_any or good
                    if not ok_any:
                        ctx.fail(f"C20:to_vtk(dim={dim},{name}):placement",
                                 f"exported {name} component {ci} is not located in the grid cells in which the coordinate system places the voxels",
                                 {"dim": dim, "shape": list(shape), "data": name, "component": ci})


def layout_correspondence(ctx, d, t):
    """Model index maps (driver) vs numpy helper on random shapes."""
    lines, impl = [], []
    for dim in (1, 2, 3):
        for which, fn, key in (("m2c", m2c(d, dim), "m2c"), ("c2m", c2m(d, dim), "c2m")):
            for _ in range(ctx.pick(4, 40)):
                shape = tuple(ctx.rng.randint(1, 5) for _ in range(dim))
                arr = np.arange(int(np.prod(shape))).reshape(shape)
                out = fn(arr)
                lines.append(f"layout {which} {dim} {len(shape)} " + " ".join(map(str, shape)))
                if isinstance(out, Raised):
                    impl.append(repr(out))
                else:
                    # flat F-order listing of the source flat (F-order) index
                    src = np.array([np.ravel_multi_index(np.unravel_index(int(x), shape), shape, order="F") for x in out.ravel(order="F")])
                    impl.append(" ".join(map(str, out.shape)) + " | " + " ".join(map(str, src)))
    for (a, ind) in [(a, i) for a in AXES + [0, 1, 2] for i in INDS]:
        lines.append(f"axis toMatrix {a} {ind}")
        impl.append(repr(t["toMatrix"][(a, ind)]))
        lines.append(f"axis toCartesian {a} {ind}")
        impl.append(repr(t["toCartesian"][(a, ind)]))
    for a in AXES:
        for ind in INDS:
            lines.append(f"axis interpret {a} {ind}")
            v = t["interpret"][(a, ind)]
            impl.append(repr(v) if isinstance(v, Raised) else f"{v[0]} {int(v[1])}")
    ctx.correspond("indexing-tables-and-layouts", lines, impl)


def run(ctx):
    import darsia as d

    t = tabulate(d)
    ctx.write_gen("IndexingTables", emit(t))
    ctx.cov["generated_tables"] = {k: len(v) for k, v in t.items()}
    ctx.prove("C20")
    layout_correspondence(ctx, d, t)
    oracle(ctx, d, t)
    oracle_sequences(ctx, d, t)
    oracle_held_coordinatesystems(ctx, d, t)
    oracle_vtk(ctx, d, t)
    ctx.cov["exhaustive"] = True
    ctx.cov["rule"] = ("exhaustive over dimensions 1-3 x all axes x both directions (finite tables, G1 tabulation of the real helpers); "
                       "random shapes for layout helpers / slicing / reduction; held coordinate systems across constructions of other images; distinct = distinct (clause, dim, axis, shape)")
    ctx.assumptions += ["numpy swapaxes/flip/reshape semantics", "tables are tabulated from the running code on every run (G1)"]
