"""C15 - every quadrature rule is exact to its nominal degree.

Tie (G2): every `(dim, order)` branch of `darsia.utils.quadrature.gauss` is extracted from the source
with `ast` into symbolic expressions (rat | add | mul | div | neg | sqrt) and emitted as Lean data
(DarsiaGen.QuadratureTables); the extraction is validated on every run against calling the real `gauss`
(50-digit `decimal` evaluation of the extracted expressions vs the floats). `reference_cell_corners` is
tabulated (G1, dyadic floats are exact). The Lean side proves a computable checker sound w.r.t. real
numbers once and discharges one kernel-evaluated obligation per (dim, order).
"""
from __future__ import annotations

import ast
import itertools
import json
import math
from decimal import Decimal, getcontext
from fractions import Fraction
from pathlib import Path

import numpy as np

from ..lib.core import REPO
from ..lib.impl import Raised, call

LEVEL = "proof"
CLAIM = dict(
    category="proof",
    text="DarsiaProps.C15: for every (dim, order) the API accepts (incl. 'max') the literal table, extracted from the source "
    "on every run, has as many weights as points, positive weights summing to 2^dim, and integrates every monomial of "
    "per-variable degree <= 2n-1 exactly over [-1,1]^dim (real numbers, Real.sqrt; 1-D also every real polynomial of degree "
    "<= 2n-1 against the interval integral); the unit-cell rule of gauss_reference_cell has weights summing to 1 and is exact "
    "for the same monomials on [0,1]^dim; the corner rule is exact for multilinear monomials; the rule transport_density sums "
    "over in each L1 mode (call extracted from wasserstein.py) has non-negative weights summing to 1 and centroid at the cell centre, "
    "hence integrates every cell-wise affine flux component exactly and ||mean flux|| <= transport density for every seminorm "
    "(over R for all modes; also on the exact Q model of DarsiaModel.Transport). Proved by a checker "
    "(exact arithmetic in Q(sqrt d), symmetric pairing, permutation of the product grid) shown sound once over the reals "
    "and evaluated by the kernel per table.",
    note="oracle = the stated clauses on the rules only (n = points per direction taken from the returned point count); the order<->points convention, "
    "the 'max' alias and every transport_density clause are ties of the model (marks, never failing inputs of C15); Rule.toUnitCell (the map of gauss_reference_cell) is hand-written in the model and tied numerically (4e-16) on every accepted pair; "
    "max_alias, l1_obligation, rejected_pairs_raise, table/corner_obligations are tie checks on generated tables; transport_density itself (face_to_cell, norms, the loop over the rule; weighted=False, the default weighted=True without and with a "
    "scalar weight image) is tied numerically: real solver objects vs the sum over the model's rule, 1e-13; if the source leaves the "
    "accepted AST subset the committed table is used and only validated numerically (recorded in the evidence); numpy evaluates the literal expressions in floating point (validated against the symbolic values to 1e-15 on every "
    "run); N-D exactness: for d = 2, 3 every polynomial (term list) of per-variable degree <= 2n-1 against the iterated interval "
    "integral over the square / cube (both cells); for general d as the product of 1-D integrals; no measure-theoretic cube integral.",
    technique="Lean 4 proof (sound computable checker + decide +kernel per generated table) + G2 extraction validated against the running code + exhaustive oracle",
)

DIMS = (1, 2, 3)
PROBE_DIMS = (0, 1, 2, 3, 4)
PROBE_ORDERS = (0, 1, 2, 3, 4, 5, 6, "max")
TOL_EXTRACT = 1e-15  # |decimal(expr) - float| <= TOL * max(1, |v|)
TOL_MOMENT = 2e-14  # float evaluation of <= 27 terms of size <= 8


class ExtractError(Exception):
    pass


# ---------------------------------------------------------------------------
# G2: AST -> symbolic expressions


def _const_frac(node):
    v = node.value
    if isinstance(v, bool) or not isinstance(v, (int, float)):
        raise ExtractError(f"literal {v!r}")
    return Fraction(repr(v)) if isinstance(v, float) else Fraction(v)


def to_expr(node):
    """expression tree: ('rat', Fraction) | ('add'|'mul'|'div', a, b) | ('neg', a) | ('sqrt', a)"""
    if isinstance(node, ast.Constant):
        return ("rat", _const_frac(node))
    if isinstance(node, ast.UnaryOp):
        if isinstance(node.op, ast.USub):
            return ("neg", to_expr(node.operand))
        if isinstance(node.op, ast.UAdd):
            return to_expr(node.operand)
    if isinstance(node, ast.BinOp):
        a, b = to_expr(node.left), to_expr(node.right)
        if isinstance(node.op, ast.Add):
            return ("add", a, b)
        if isinstance(node.op, ast.Sub):
            return ("add", a, ("neg", b))
        if isinstance(node.op, ast.Mult):
            return ("mul", a, b)
        if isinstance(node.op, ast.Div):
            return ("div", a, b)
    if isinstance(node, ast.Call) and _is_np(node.func, "sqrt") and len(node.args) == 1 and not node.keywords:
        return ("sqrt", to_expr(node.args[0]))
    raise ExtractError("expression outside the accepted subset: " + ast.dump(node)[:120])


def _is_np(f, name):
    return isinstance(f, ast.Attribute) and f.attr == name and isinstance(f.value, ast.Name) and f.value.id in ("np", "numpy")


def _array(node):
    if not (isinstance(node, ast.Call) and _is_np(node.func, "array") and len(node.args) == 1):
        raise ExtractError("expected np.array([...])")
    if not isinstance(node.args[0], ast.List):
        raise ExtractError("expected list literal")
    return node.args[0].elts


def _cmp(test, name):
    """`name == <const>` -> const"""
    if (isinstance(test, ast.Compare) and isinstance(test.left, ast.Name) and test.left.id == name
            and len(test.ops) == 1 and isinstance(test.ops[0], ast.Eq) and isinstance(test.comparators[0], ast.Constant)):
        return test.comparators[0].value
    raise ExtractError(f"expected `{name} == const`")


def _raise_cls(stmt):
    e = stmt.exc
    if isinstance(e, ast.Call):
        e = e.func
    if isinstance(e, ast.Name):
        return e.id
    raise ExtractError("raise of unknown class")


def _chain(stmt, name):
    """if/elif/else chain on `name == const` -> [(const, body)], else-body"""
    out = []
    while True:
        out.append((_cmp(stmt.test, name), stmt.body))
        if len(stmt.orelse) == 1 and isinstance(stmt.orelse[0], ast.If):
            stmt = stmt.orelse[0]
        else:
            return out, stmt.orelse


def extract(source: str):
    """-> dict(rules={(dim,order): (pts, wts) | 'ErrName'}, max={dim: order}, default='ErrName')"""
    tree = ast.parse(source)
    fn = next((n for n in tree.body if isinstance(n, ast.FunctionDef) and n.name == "gauss"), None)
    if fn is None:
        raise ExtractError("no function gauss")
    body = [s for s in fn.body if not (isinstance(s, ast.Expr) and isinstance(s.value, ast.Constant))]
    if len(body) != 1 or not isinstance(body[0], ast.If):
        raise ExtractError("gauss body is not a single if-chain on dim")
    dims, delse = _chain(body[0], "dim")
    defaults = set()
    if len(delse) != 1 or not isinstance(delse[0], ast.Raise):
        raise ExtractError("dim chain does not end in raise")
    defaults.add(_raise_cls(delse[0]))
    rules, mx = {}, {}
    for dim, dbody in dims:
        if not isinstance(dim, int):
            raise ExtractError("dim constant")
        stmts = list(dbody)
        if (stmts and isinstance(stmts[0], ast.If) and not stmts[0].orelse and _cmp(stmts[0].test, "order") == "max"):
            a = stmts[0].body
            if not (len(a) == 1 and isinstance(a[0], ast.Assign) and len(a[0].targets) == 1 and isinstance(a[0].targets[0], ast.Name)
                    and a[0].targets[0].id == "order" and isinstance(a[0].value, ast.Constant) and isinstance(a[0].value.value, int)):
                raise ExtractError("max alias")
            mx[dim] = a[0].value.value
            stmts = stmts[1:]
        if len(stmts) != 1 or not isinstance(stmts[0], ast.If):
            raise ExtractError("order chain")
        orders, oelse = _chain(stmts[0], "order")
        if len(oelse) != 1 or not isinstance(oelse[0], ast.Raise):
            raise ExtractError("order chain does not end in raise")
        defaults.add(_raise_cls(oelse[0]))
        for order, obody in orders:
            if not isinstance(order, int) or isinstance(order, bool) or (dim, order) in rules:
                raise ExtractError("order constant")
            first = obody[0]
            if isinstance(first, ast.Raise):
                rules[(dim, order)] = _raise_cls(first)
                continue
            if not (isinstance(first, ast.Return) and isinstance(first.value, ast.Tuple) and len(first.value.elts) == 2):
                raise ExtractError("branch does not return a pair")
            p, w = first.value.elts
            pts = []
            for e in _array(p):
                pts.append([to_expr(c) for c in e.elts] if isinstance(e, ast.List) else [to_expr(e)])
            rules[(dim, order)] = (pts, [to_expr(e) for e in _array(w)])
    if len(defaults) != 1:
        raise ExtractError("mixed default error classes")
    return dict(rules=rules, max=mx, default=defaults.pop())


L1_LEAN = {"RAVIART_THOMAS": "raviartThomas", "CONSTANT_SUBCELL_PROJECTION": "constantSubcell", "CONSTANT_CELL_PROJECTION": "constantCell"}


def extract_l1(source: str):
    """transport_density: which quadrature call each `self.l1_mode == L1Mode.X` branch makes.
    -> {mode name: ("cell", order|"max") | ("corners",)}"""
    tree = ast.parse(source)
    fn = next((n for n in ast.walk(tree) if isinstance(n, ast.FunctionDef) and n.name == "transport_density"), None)
    if fn is None:
        raise ExtractError("no transport_density")
    chain = next((st for st in fn.body if isinstance(st, ast.If)), None)
    if chain is None:
        raise ExtractError("no mode chain")
    out = {}
    while True:
        t = chain.test
        if not (isinstance(t, ast.Compare) and isinstance(t.left, ast.Attribute) and t.left.attr == "l1_mode" and len(t.ops) == 1
                and isinstance(t.ops[0], ast.Eq) and isinstance(t.comparators[0], ast.Attribute)):
            raise ExtractError("mode test")
        mode = t.comparators[0].attr
        st = chain.body[0]
        if not (isinstance(st, ast.Assign) and isinstance(st.value, ast.Call) and isinstance(st.value.func, ast.Attribute)):
            raise ExtractError("mode branch is not `pts, w = darsia.quadrature.<rule>(...)`")
        name, args = st.value.func.attr, st.value.args
        if not (args and isinstance(args[0], ast.Attribute) and args[0].attr == "dim"):
            raise ExtractError("first argument is not the grid dimension")
        if name == "gauss_reference_cell" and len(args) == 2 and isinstance(args[1], ast.Constant) and (args[1].value == "max" or isinstance(args[1].value, int)):
            out[mode] = ("cell", args[1].value)
        elif name == "reference_cell_corners" and len(args) == 1:
            out[mode] = ("corners",)
        else:
            raise ExtractError(f"unknown rule call {name}")
        if len(chain.orelse) == 1 and isinstance(chain.orelse[0], ast.If):
            chain = chain.orelse[0]
        else:
            break
    if set(out) != set(L1_LEAN):
        raise ExtractError(f"modes {sorted(out)}")
    out["__loop_plain__"] = _loop_is_plain_sum(fn)
    return out


L1_TAIL = ["transport_density = np.zeros(self.grid.shape, dtype=float)",
           "for quad_pt, quad_weight in zip(quad_pts, quad_weights):\n    cell_flux = darsia.face_to_cell(self.grid, flat_flux, pt=quad_pt)\n"
           "    if weighted:\n        weighted_cell_flux = self.cell_weighted_flux(cell_flux)\n        cell_flux_norm = np.linalg.norm(weighted_cell_flux, 2, axis=-1)\n"
           "    else:\n        cell_flux_norm = np.linalg.norm(cell_flux, 2, axis=-1)\n    transport_density += quad_weight * cell_flux_norm",
           "if flatten:\n    return np.ravel(transport_density, 'F')\nelse:\n    return transport_density"]


def _loop_is_plain_sum(fn) -> bool:
    """what transport_density does with the rule AFTER the quadrature call: every mode branch is that single call, and the rest of the
    function is exactly `zeros; for pt, w in zip(pts, weights): density += w * norm([weighted] face_to_cell(flux, pt)); return`
    (compared on the normalised source, ast.unparse: comments / formatting do not matter, any other statement does)."""
    body = [st for st in fn.body if not (isinstance(st, ast.Expr) and isinstance(st.value, ast.Constant))]
    if len(body) != 4 or not isinstance(body[0], ast.If):
        return False
    chain = body[0]
    while True:
        if len(chain.body) != 1:
            return False
        if len(chain.orelse) == 1 and isinstance(chain.orelse[0], ast.If):
            chain = chain.orelse[0]
        else:
            if not (len(chain.orelse) == 1 and isinstance(chain.orelse[0], ast.Raise)):
                return False
            break
    return [ast.unparse(st) for st in body[1:]] == L1_TAIL


def emit_l1(l1) -> str:
    L = ["/-- the quadrature call of each branch of `transport_density` (extracted from wasserstein.py) -/",
         "def l1Source : L1Mode → Except Err RuleSource"]
    L.insert(0, "/-- transport_density does nothing with the rule but the plain weighted sum over zip(points, weights) (structural extraction) -/\n"
             f"def l1LoopPlain : Bool := {'true' if (l1 or {}).get('__loop_plain__') else 'false'}\n")
    for mode, lean in L1_LEAN.items():
        v = l1.get(mode) if l1 else None
        if v is None:
            L.append(f"  | .{lean} => .error .other")
        elif v[0] == "corners":
            L.append(f"  | .{lean} => .ok .corners")
        else:
            L.append(f"  | .{lean} => .ok (.cell " + (".max" if v[1] == "max" else f"(.n {v[1]})") + ")")
    return "\n".join(L) + "\n"


# ---------------------------------------------------------------------------
# evaluation of expressions: 50-digit decimals (validation) and exact rationals where possible

getcontext().prec = 60


def dec(e) -> Decimal:
    t = e[0]
    if t == "rat":
        return Decimal(e[1].numerator) / Decimal(e[1].denominator)
    if t == "neg":
        return -dec(e[1])
    if t == "sqrt":
        return dec(e[1]).sqrt()
    a, b = dec(e[1]), dec(e[2])
    return a + b if t == "add" else a * b if t == "mul" else a / b


def ratval(e):
    """exact rational value if the expression has no sqrt, else None"""
    t = e[0]
    if t == "rat":
        return e[1]
    if t == "sqrt":
        return None
    vs = [ratval(x) for x in e[1:]]
    if any(v is None for v in vs):
        return None
    if t == "neg":
        return -vs[0]
    if t == "div" and vs[1] == 0:
        return None
    return vs[0] + vs[1] if t == "add" else vs[0] * vs[1] if t == "mul" else vs[0] / vs[1]


def squarefree(n: int) -> int:
    out, p = 1, 2
    while p * p <= n:
        k = 0
        while n % p == 0:
            n //= p
            k += 1
        if k % 2:
            out *= p
        p += 1
    return out * n


def radicand_hint(pts, wts) -> int:
    """d = squarefree radicand of the square roots that occur inside another root or in a weight (1 if none)."""
    cands = []

    def walk(e, inside):
        if e[0] == "rat":
            return
        if e[0] == "sqrt":
            r = ratval(e[1])
            if r is not None and r > 0 and inside:
                cands.append(squarefree(r.numerator * r.denominator))
            walk(e[1], True)
            return
        for x in e[1:]:
            walk(x, inside)

    for p in pts:
        for c in p:
            walk(c, False)
    for w in wts:
        walk(w, True)
    cands = [c for c in cands if c != 1]
    return cands[0] if cands else 1


def lean_expr(e) -> str:
    t = e[0]
    if t == "rat":
        f = e[1]
        return f"(.rat {f.numerator})" if f.denominator == 1 and f >= 0 else f"(.rat (({f.numerator} : Rat) / {f.denominator}))"
    if t in ("neg", "sqrt"):
        return f"(.{t} {lean_expr(e[1])})"
    return f"(.{t} {lean_expr(e[1])} {lean_expr(e[2])})"


ERRMAP = {"NotImplementedError": "notImpl", "ValueError": "value", "AssertionError": "assertion", "IndexError": "index",
          "TypeError": "type", "KeyError": "key"}


def tabulate_corners(d):
    out = {}
    for dim in PROBE_DIMS:
        r = call(d.quadrature.reference_cell_corners, dim)
        if isinstance(r, Raised):
            out[dim] = r
            continue
        try:
            c, w = r
            c, w = np.asarray(c, dtype=float), np.asarray(w, dtype=float)
            if c.ndim != 2 or w.ndim != 1:
                raise ValueError
            out[dim] = ([[Fraction(float(x)) for x in row] for row in c], [Fraction(float(x)) for x in w])
        except Exception as e:  # noqa: BLE001
            out[dim] = Raised(TypeError("ret"))
    return out


def tabulate_api(d):
    """G1: what the running gauss() does on the whole probed range: (dim, order) -> error class | (#points, #weights)"""
    out = {}
    for dim in PROBE_DIMS:
        for o in PROBE_ORDERS:
            if o == "max":
                continue
            r = impl_rule(d.quadrature.gauss, dim, o)
            out[(dim, o)] = r if isinstance(r, Raised) else (len(r[0]), len(r[1]))
    return out


def emit_api(api) -> str:
    L = ["/-- the probed range of `gauss(dim, order)` (G1, from the running code) -/",
         "def probed : List (Nat × Nat) := [" + ", ".join(f"({a}, {b})" for a, b in sorted(api)) + "]",
         "/-- the probed pairs the running `gauss` rejects, with the error class -/",
         "def observedRaise : List (Nat × Nat × Err) := [" + ", ".join(f"({a}, {b}, .{v.cls})" for (a, b), v in sorted(api.items()) if isinstance(v, Raised)) + "]",
         "/-- the probed pairs it accepts, with the number of points and weights returned -/",
         "def observedAccept : List (Nat × Nat × Nat × Nat) := [" + ", ".join(f"({a}, {b}, {v[0]}, {v[1]})" for (a, b), v in sorted(api.items()) if not isinstance(v, Raised)) + "]"]
    return "\n".join(L) + "\n"


def emit(ex, corners, l1=None, api=None) -> str:
    L = ["import DarsiaModel.Quadrature", "namespace Darsia.Gen", "open Darsia Darsia.Quad", ""]
    L.append("def maxOrder : Nat → Option Nat")
    for dim, o in sorted(ex["max"].items()):
        L.append(f"  | {dim} => some {o}")
    L += ["  | _ => none", ""]
    acc = []
    for (dim, o), v in sorted(ex["rules"].items()):
        if isinstance(v, str):
            continue
        pts, wts = v
        acc.append((dim, o))
        L.append(f"def rule_{dim}_{o} : Rule :=")
        L.append(f"  ⟨{radicand_hint(pts, wts)},")
        L.append("   [" + ",\n    ".join("[" + ", ".join(lean_expr(c) for c in p) + "]" for p in pts) + "],")
        L.append("   [" + ",\n    ".join(lean_expr(w) for w in wts) + "]⟩")
        L.append("")
    L.append("def rule : Nat → Nat → Except Err Rule")
    for (dim, o), v in sorted(ex["rules"].items()):
        L.append(f"  | {dim}, {o} => " + (f".error .{ERRMAP.get(v, 'other')}" if isinstance(v, str) else f".ok rule_{dim}_{o}"))
    L += [f"  | _, _ => .error .{ERRMAP.get(ex['default'], 'other')}", ""]
    L.append("/-- the (dim, order) pairs for which `gauss` returns a table -/")
    L.append("def accepted : List (Nat × Nat) := [" + ", ".join(f"({a}, {b})" for a, b in acc) + "]")
    L.append("")
    L.append("/-- `reference_cell_corners` tabulated from the running code (dyadic floats, exact) -/")
    L.append("def corners : Nat → Except Err Rule")
    for dim, v in sorted(corners.items()):
        if isinstance(v, Raised):
            if v.cls != ERRMAP.get(ex["default"], "other"):
                L.append(f"  | {dim} => .error .{v.cls}")
            continue
        c, w = v
        L.append(f"  | {dim} => .ok ⟨1, [" + ", ".join("[" + ", ".join(lean_expr(("rat", x)) for x in row) + "]" for row in c)
                 + "], [" + ", ".join(lean_expr(("rat", x)) for x in w) + "]⟩")
    L += [f"  | _ => .error .{ERRMAP.get(ex['default'], 'other')}", ""]
    L.append("def cornerDims : List Nat := [" + ", ".join(str(k) for k, v in sorted(corners.items()) if not isinstance(v, Raised)) + "]")
    L += ["", emit_l1(l1), emit_api(api or {}), "end Darsia.Gen"]
    return "\n".join(L) + "\n"


def parse_committed_l1(text: str):
    import re

    out = {}
    for lean, val in re.findall(r"^  \| \.(\w+) => \.ok (\.corners|\(\.cell [^\n]*\))$", text, re.M):
        mode = next((k for k, v in L1_LEAN.items() if v == lean), None)
        if mode is None:
            continue
        if val == ".corners":
            out[mode] = ("corners",)
        elif ".max" in val:
            out[mode] = ("cell", "max")
        else:
            out[mode] = ("cell", int(re.search(r"\.n (\d+)", val).group(1)))
    return out


def parse_committed(text: str):
    """Read DarsiaGen/QuadratureTables.lean (as emitted by `emit`) back into the extraction dict. Used only when
    the source has left the accepted AST subset: the committed table is then validated against the running code."""
    import re

    inv = {v: k for k, v in ERRMAP.items()}
    mx = {int(a): int(b) for a, b in re.findall(r"^  \| (\d+) => some (\d+)$", text, re.M)}
    rules = {}
    ns = {"R": lambda n, d=1: ("rat", Fraction(n, d)), "A": lambda a, b: ("add", a, b), "M": lambda a, b: ("mul", a, b),
          "D": lambda a, b: ("div", a, b), "N": lambda a: ("neg", a), "S": lambda a: ("sqrt", a), "__builtins__": {}}
    for dim, o, body in re.findall(r"^def rule_(\d+)_(\d+) : Rule :=\n(.*?)⟩$", text, re.M | re.S):
        b = body.strip()
        assert b.startswith("⟨")
        b = b[1:]
        b = re.sub(r"\(\.rat \(\((-?\d+) : Rat\) / (\d+)\)\)", r"R(\1,\2)", b)
        b = re.sub(r"\(\.rat (\d+)\)", r"R(\1)", b)
        for name, fn in (("add", "A"), ("mul", "M"), ("div", "D"), ("neg", "N"), ("sqrt", "S")):
            b = b.replace(f"(.{name} ", f"{fn}(")
        b = re.sub(r"\) (?=[A-Z]\()", "), ", b)
        _, pts, wts = eval("(" + b + ")", ns)  # noqa: S307 - restricted namespace, our own generated file
        rules[(int(dim), int(o))] = (pts, wts)
    default = None
    for a, b, cls in re.findall(r"^  \| (\d+|_), (\d+|_) => \.error \.(\w+)$", text, re.M):
        if a == "_":
            default = inv.get(cls, "Other")
        else:
            rules[(int(a), int(b))] = inv.get(cls, "Other")
    if default is None or not rules:
        raise ExtractError("committed table unreadable")
    return dict(rules=rules, max=mx, default=default)


# ---------------------------------------------------------------------------
# calling the implementation


def impl_rule(fn, *args):
    """call gauss-like fn -> Raised | (pts as list of coordinate lists of float, weights list of float)"""
    r = call(fn, *args)
    if isinstance(r, Raised):
        return r
    try:
        p, w = r
        p, w = np.asarray(p, dtype=float), np.asarray(w, dtype=float)
        if p.ndim == 1:
            p = p.reshape(-1, 1)
        if p.ndim != 2 or w.ndim != 1:
            return Raised(TypeError("shape"))
        return [[float(x) for x in row] for row in p], [float(x) for x in w]
    except Exception:  # noqa: BLE001
        return Raised(TypeError("ret"))


def validate_extraction(ctx, d, ex):
    """the emitted expressions, evaluated with 50 digits, are the floats the real gauss returns; same accepted set."""
    ok = True
    worst = 0.0
    for dim in PROBE_DIMS:
        for o in PROBE_ORDERS:
            r = impl_rule(d.quadrature.gauss, dim, o)
            oo = ex["max"].get(dim) if o == "max" else o
            v = ex["rules"].get((dim, oo), ex["default"]) if oo is not None else ex["default"]
            if isinstance(v, str):
                if not (isinstance(r, Raised) and r.cls == ERRMAP.get(v, "other")):
                    ok = False
                    ctx.mark("TIE-BROKEN", {"gauss": [dim, o], "extracted": v, "impl": repr(r) if isinstance(r, Raised) else "table"})
                continue
            if isinstance(r, Raised):
                ok = False
                ctx.mark("TIE-BROKEN", {"gauss": [dim, o], "extracted": "table", "impl": repr(r)})
                continue
            pts, wts = v
            ip, iw = r
            if [len(p) for p in pts] != [len(p) for p in ip] or len(wts) != len(iw):
                ok = False
                ctx.mark("TIE-BROKEN", {"gauss": [dim, o], "why": "shape of extracted table differs from returned arrays"})
                continue
            for e, f in itertools.chain(zip([c for p in pts for c in p], [c for p in ip for c in p]), zip(wts, iw)):
                err = abs(float(dec(e) - Decimal(f))) / max(1.0, abs(f))
                worst = max(worst, err)
                if not err <= TOL_EXTRACT:
                    ok = False
                    ctx.mark("TIE-BROKEN", {"gauss": [dim, o], "why": "extracted value differs from returned float", "float": f, "symbolic": str(dec(e))[:25]})
                    break
    ctx.cov["g2_validation"] = {"probed": len(PROBE_DIMS) * len(PROBE_ORDERS), "max_rel_err_symbolic_vs_float": worst, "ok": ok}
    return ok


# ---------------------------------------------------------------------------
# correspondence: the Lean model (generated tables + alias resolution + unit-cell map) vs the real functions


def _bits(tok: str) -> float:
    import struct

    return struct.unpack("<d", int(tok).to_bytes(8, "little"))[0]


def parse_model_rule(resp: str):
    if resp.startswith("!"):
        return resp
    head, pts, wts = [x.strip() for x in resp.split("|")]
    P = [[_bits(t) for t in p.split()] for p in pts.split(";")] if pts else []
    return P, [_bits(t) for t in wts.split()]


def numeric_correspondence(ctx, d):
    q = d.quadrature
    reqs, impls = [], []
    for dim in PROBE_DIMS:
        for o in PROBE_ORDERS:
            reqs.append(f"gauss {dim} {o}")
            impls.append(impl_rule(q.gauss, dim, o))
            reqs.append(f"cell {dim} {o}")
            impls.append(impl_rule(q.gauss_reference_cell, dim, o))
        reqs.append(f"corners {dim}")
        impls.append(impl_rule(q.reference_cell_corners, dim))
    got = ctx.model(reqs)
    diffs, worst = [], 0.0
    for rq, g, im in zip(reqs, got, impls):
        ctx.count(("corr", rq), nontrivial=not isinstance(im, Raised))
        try:
            m = parse_model_rule(g)
        except Exception:  # noqa: BLE001
            m = "!unparsable"
        if isinstance(m, str) or isinstance(im, Raised):
            if not (isinstance(m, str) and isinstance(im, Raised) and m == repr(im)):
                diffs.append((rq, g[:80], repr(im) if isinstance(im, Raised) else "table"))
            continue
        (mp, mw), (ip, iw) = m, im
        if [len(p) for p in mp] != [len(p) for p in ip] or len(mw) != len(iw):
            diffs.append((rq, "shape", [len(ip), len(iw)]))
            continue
        flat_m = [c for p in mp for c in p] + mw
        flat_i = [c for p in ip for c in p] + iw
        e = max((abs(a - b) / max(1.0, abs(b)) for a, b in zip(flat_m, flat_i)), default=0.0)
        worst = max(worst, e)
        if not e <= 4e-16:
            diffs.append((rq, "value", e))
    ctx.cov.setdefault("correspondence", {})["model-vs-gauss/cell/corners"] = {
        "cases": len(reqs), "disagreements": len(diffs), "max_rel_diff": worst,
        "tolerance": "4e-16 relative (same operation order in IEEE doubles; 0 observed)"}
    ctx.sample({"corr": reqs[PROBE_ORDERS.index(2) * 2 + len(PROBE_ORDERS) * 2 + 1], "model": got[PROBE_ORDERS.index(2) * 2 + len(PROBE_ORDERS) * 2 + 1][:200]})
    if diffs:
        ctx.mark("CORR-BROKEN", {"correspondence": "model-vs-gauss/cell/corners", "n_diffs": len(diffs), "first": list(map(str, diffs[0]))})
        ctx.log("correspondence: disagreements", diffs[:3])
    return diffs


def consumer(ctx, d):
    """transport_density / l1_dissipation of the real solver object = sum over the MODEL's rule of the mode (driver) of
    ||face_to_cell(flux, pt)||; and the bound the rule facts imply: ||flux at the cell centre|| <= transport density."""
    try:
        from darsia.measure import wasserstein as W
    except Exception as e:  # noqa: BLE001
        ctx.mark("TIE-BROKEN", {"consumer": f"cannot import darsia.measure.wasserstein: {e}"})
        return
    rng = np.random.default_rng(ctx.rng.randrange(2**31))

    class _Tie:
        """C15's statement is about the quadrature rules; transport_density belongs to another module. Everything below is the tie of
        the model's `l1Rule` to that consumer: a difference is a mark (CORR-BROKEN), never a claimed failing input of C15."""
        @staticmethod
        def fail(sig_, what, replay):
            ctx.mark("CORR-BROKEN", {"correspondence": "transport_density-vs-model-rule", "clause": sig_, "what": what, **{k: v for k, v in replay.items() if k in ("call", "cell", "density", "norm_mean_flux", "required", "relative_difference")}})
            ctx.cov.setdefault("consumer_observations", []).append(sig_)

    tie = _Tie
    # single-voxel axes (2-D data embedded in 3-D, strips) are forced: there the flux has no component along that axis
    shapes = {1: [(4,), (1,)], 2: [(3, 3), (3, 2), (1, 4), (3, 1)], 3: [(3, 3, 3), (3, 4, 1), (1, 3, 1)]}
    if ctx.big:
        shapes = {1: [(4,), (1,), (7,), (33,)], 2: [(3, 2), (1, 4), (4, 4), (5, 1), (1, 1), (9, 12), (17, 5)],
                  3: [(2, 3, 2), (1, 2, 3), (3, 3, 4), (3, 1, 3), (1, 1, 4), (1, 1, 1), (5, 6, 4), (9, 3, 3)]}
    reqs = [f"l1rule {m} {dim}" for m in L1_LEAN for dim in DIMS]
    rules = dict(zip(reqs, ctx.model(reqs)))
    worst, n, diffs = 0.0, 0, []
    for mode in L1_LEAN:
        for dim in DIMS:
            try:
                m = parse_model_rule(rules[f"l1rule {mode} {dim}"])
            except Exception:  # noqa: BLE001
                m = "!unparsable"
            for shape in shapes[dim]:
                dims_phys = [0.5 * s_ for s_ in shape]
                im = d.Image(np.zeros(shape), space_dim=dim, dimensions=dims_phys, scalar=True)
                opts = {"l1_mode": W.L1Mode[mode], "linear_solver": "direct", "formulation": "pressure"}
                # both solver classes inherit transport_density; alternate (every class meets every mode and dimension over the shapes)
                klass = W.WassersteinDistanceBregman if (len(shape) + sum(shape) + list(L1_LEAN).index(mode)) % 2 else W.WassersteinDistanceNewton
                solver = call(lambda: klass(d.generate_grid(im), None, opts))
                ctx.count(("consumer", klass.__name__, mode, dim, shape))
                if isinstance(solver, Raised):
                    tie.fail(f"C15:transport_density({mode},dim={dim}):construct", f"solver object cannot be built: {solver!r}", {"call": ["consumer", mode, dim, list(shape)]})
                    continue
                grid = solver.grid
                flux = rng.integers(-8, 9, grid.num_faces).astype(float) / 4.0
                td = call(solver.transport_density, flux.copy(), False, False)
                if isinstance(td, Raised) or np.asarray(td).shape != tuple(shape):
                    tie.fail(f"C15:transport_density({mode},dim={dim}):raises", f"transport_density: {td!r}"[:200], {"call": ["consumer", mode, dim, list(shape)], "flux": flux.tolist()})
                    continue
                centre = np.linalg.norm(d.face_to_cell(grid, flux), 2, axis=-1)
                n += 1
                if not np.all(centre <= td + 1e-12 * max(1.0, float(np.max(td)))):
                    c = int(np.argmax(centre - td))
                    tie.fail(f"C15:transport_density({mode},dim={dim}):below-mean-flux", "transport density of a cell is smaller than the norm of its mean (centre) flux: "
                             "the rule is not exact for linears or has a negative weight",
                             {"call": ["consumer", mode, dim, list(shape)], "flux": flux.tolist(), "cell": c, "density": float(td.ravel()[c]), "norm_mean_flux": float(centre.ravel()[c])})
                # a flux that is constant inside a cell (same value on all faces of an axis; interior cells): the weights sum to 1,
                # so the density must be exactly the norm of that flux
                if all(s_ >= 3 or s_ == 1 for s_ in shape) and any(s_ >= 3 for s_ in shape):
                    fa = rng.integers(-8, 9, dim).astype(float) / 4.0
                    cflux = np.zeros(grid.num_faces)
                    for a in range(dim):
                        cflux[grid.faces[a]] = fa[a]
                    tdc = call(solver.transport_density, cflux.copy(), False, False)
                    inner = tuple(slice(1, -1) if s_ >= 3 else slice(None) for s_ in shape)
                    fa = np.array([fa[a] if shape[a] >= 3 else 0.0 for a in range(dim)])  # no faces across a single-voxel axis
                    if isinstance(tdc, Raised) or not np.allclose(np.asarray(tdc)[inner], np.linalg.norm(fa), rtol=0, atol=1e-13 * max(1.0, np.linalg.norm(fa))):
                        tie.fail(f"C15:transport_density({mode},dim={dim}):constant-flux", "a flux that is constant in a cell must give density = its norm (weights sum to 1)",
                                 {"call": ["consumer", mode, dim, list(shape)], "face_flux_per_axis": fa.tolist(), "required": float(np.linalg.norm(fa)),
                                  "observed": repr(tdc)[:200] if isinstance(tdc, Raised) else np.asarray(tdc)[inner].ravel().tolist()[:5]})
                # the statement of the consumer itself ("the modes merely differ in the integration rule"): the density is the quadrature of
                # ||cell flux|| with the rule the mode selects - evaluated here with the REAL rule functions and the real face_to_cell
                src_rule = (ctx.cov.get("g2_l1_modes") or {}).get(mode)
                if src_rule is None:
                    ctx.notes.append(f"consumer oracle skipped for {mode}: the rule call of the mode could not be extracted")
                else:
                    rr = impl_rule(d.quadrature.reference_cell_corners, dim) if src_rule[0] == "corners" else impl_rule(
                        d.quadrature.gauss_reference_cell, dim, src_rule[1] if src_rule[1] == "max" else int(src_rule[1]))
                    if not isinstance(rr, Raised) and len(rr[0]) == len(rr[1]):
                        refi = np.zeros(shape)
                        for pt, wq in zip(*rr):
                            refi += wq * np.linalg.norm(d.face_to_cell(grid, flux, pt=np.array(pt) if dim > 1 else pt[0]), 2, axis=-1)
                        ei = float(np.max(np.abs(refi - td))) / max(1.0, float(np.max(np.abs(td))))
                        if not ei <= 1e-12:
                            cidx = int(np.argmax(np.abs(refi - td)))
                            tie.fail(f"C15:transport_density({mode},dim={dim}):not-the-quadrature-of-its-rule",
                                     "transport_density differs from the sum over the rule its L1 mode selects of weight * ||face_to_cell(flux, point)|| "
                                     "(the rule in effect is not the proved one: other weights / points)",
                                     {"call": ["consumer", mode, dim, list(shape)], "flux": flux.tolist(), "cell": cidx, "density": float(np.asarray(td).ravel()[cidx]),
                                      "quadrature_with_the_selected_rule": float(refi.ravel()[cidx]), "relative_difference": ei})
                if isinstance(m, str):
                    diffs.append((mode, dim, "model has no rule", m))
                    continue
                pts, w = m
                ref = np.zeros(shape)
                for pt, wq in zip(pts, w):
                    ref += wq * np.linalg.norm(d.face_to_cell(grid, flux, pt=np.array(pt) if dim > 1 else pt[0]), 2, axis=-1)
                e = float(np.max(np.abs(ref - td))) / max(1.0, float(np.max(np.abs(td))))
                worst = max(worst, e)
                if not e <= 1e-13:
                    diffs.append((mode, dim, list(shape), e))
                # the default path weighted=True: without a weight image it is the unweighted density; with a (positive scalar) weight
                # image the cell flux is multiplied by the cell weight before the norm, i.e. the density by that weight
                tdw0 = call(solver.transport_density, flux.copy())
                if isinstance(tdw0, Raised) or not np.array_equal(np.asarray(tdw0), np.ravel(td, "F")):
                    diffs.append((mode, dim, list(shape), "weighted=True without weight differs from weighted=False", repr(tdw0)[:80]))
                wimg = rng.integers(1, 9, shape).astype(float) / 4.0
                wsolver = call(lambda: klass(d.generate_grid(im), d.Image(wimg.copy(), space_dim=dim, dimensions=dims_phys, scalar=True), opts))
                tdw = wsolver if isinstance(wsolver, Raised) else call(wsolver.transport_density, flux.copy(), True, False)
                if isinstance(tdw, Raised) or np.asarray(tdw).shape != tuple(shape):
                    diffs.append((mode, dim, list(shape), "weighted solver", repr(tdw)[:80]))
                else:
                    refw = np.zeros(shape)
                    for pt, wq in zip(pts, w):
                        refw += wq * np.linalg.norm(d.face_to_cell(grid, flux, pt=np.array(pt) if dim > 1 else pt[0]) * wimg[..., None], 2, axis=-1)
                    ew = float(np.max(np.abs(refw - tdw))) / max(1.0, float(np.max(np.abs(tdw))))
                    worst = max(worst, ew)
                    if not ew <= 1e-13:
                        diffs.append((mode, dim, list(shape), "weighted", ew))
                    centre_w = np.linalg.norm(d.face_to_cell(grid, flux) * wimg[..., None], 2, axis=-1)
                    if not np.all(centre_w <= tdw + 1e-12 * max(1.0, float(np.max(tdw)))):
                        c = int(np.argmax(centre_w - tdw))
                        tie.fail(f"C15:transport_density({mode},dim={dim},weighted):below-mean-flux", "weighted transport density of a cell is smaller than the norm of its weighted mean flux",
                                 {"call": ["consumer", mode, dim, list(shape)], "flux": flux.tolist(), "weight": wimg.tolist(), "cell": c,
                                  "density": float(np.asarray(tdw).ravel()[c]), "norm_mean_flux": float(centre_w.ravel()[c])})
                tot = call(solver.l1_dissipation, flux.copy())
                vol = float(np.prod([a / b for a, b in zip(dims_phys, shape)]))
                if isinstance(tot, Raised) or not abs(float(tot) - vol * float(ref.sum())) <= 1e-12 * max(1.0, abs(float(tot))):
                    diffs.append((mode, dim, list(shape), "l1_dissipation", repr(tot)))
    ctx.cov.setdefault("correspondence", {})["transport_density-vs-model-rule"] = {"cases": n, "disagreements": len(diffs), "max_rel_diff": worst, "tolerance": 1e-13}
    if diffs:
        ctx.mark("CORR-BROKEN", {"correspondence": "transport_density-vs-model-rule", "n_diffs": len(diffs), "first": list(map(str, diffs[0]))})
        ctx.log("consumer correspondence: disagreements", diffs[:3])


# ---------------------------------------------------------------------------
# property oracle on the implementation (direct transcription of the statement)


def exponents(dim, m):
    """all exponent tuples with per-variable degree <= m, graded order (constants first)"""
    return sorted(itertools.product(range(m + 1), repeat=dim), key=lambda e: (sum(e), e))


def check_rule(kind, dim, order, r):
    """-> None or (signature_suffix, what, detail). kind in gauss|cell|corners."""
    if isinstance(r, Raised):
        return ("raises", f"raises {r}", {"observed": repr(r)})
    pts, wts = r
    if kind == "corners":
        n, lo, vol, m = 2, 0.0, 1.0, 1
    else:
        # n = points per direction, from what is returned (the statement does not tie n to the order argument)
        n = int(round(len(pts) ** (1.0 / dim))) if pts else 0
        lo, vol = (-1.0, 2.0**dim) if kind == "gauss" else (0.0, 1.0)
        m = max(2 * n - 1, 0)
    first_bad = None
    arr = np.array(pts[: min(len(pts), len(wts))], dtype=float).reshape(-1, len(pts[0]) if pts else dim)
    w = np.array(wts[: arr.shape[0]], dtype=float)
    if arr.shape[1] == dim:
        for es in exponents(dim, m):
            val = float(np.sum(w * np.prod(arr ** np.array(es), axis=1)))
            req = 1.0
            for e in es:
                req *= (1.0 - lo ** (e + 1)) / (e + 1)
            if not abs(val - req) <= TOL_MOMENT * max(1.0, vol):
                first_bad = {"monomial_exponents": list(es), "observed": val, "required": req}
                break
    if len(pts) != len(wts):
        return (f"len(weights)={len(wts)}!=len(points)={len(pts)}", f"{len(pts)} points but {len(wts)} weights (consumers zip and drop the rest)",
                {"points": len(pts), "weights": len(wts), "first_monomial_not_integrated_under_zip": first_bad})
    if any(len(p) != dim for p in pts):
        return ("point-dimension", "points do not have `dim` coordinates", {})
    if len(pts) != n**dim:
        return (f"npoints={len(pts)}-not-a-{dim}th-power", "number of points is not n^dim for any n", {"points": len(pts)})
    if not all(x > 0 for x in wts):
        return ("nonpositive-weight", "a weight is not positive", {"weights": wts})
    if first_bad is not None:
        es = first_bad["monomial_exponents"]
        if sum(es) == 0:
            return (f"sum(weights)={first_bad['observed']:.6g}!={first_bad['required']:.6g}", "weights do not sum to the measure of the cell", first_bad)
        return ("not-exact:monomial=" + "".join(map(str, es)), f"monomial with exponents {es} of per-variable degree <= {m} is not integrated exactly", first_bad)
    return None


def oracle(ctx, d, wide=False):
    q = d.quadrature
    accepted = []
    # in a fallback run (source outside the AST subset: no extraction, hence no obligation for a NEW branch) the order range is widened
    orders = tuple(range(0, 13)) + ("max",) if wide else PROBE_ORDERS
    ctx.cov["oracle_orders_probed"] = [str(o) for o in orders]
    for dim in DIMS:
        for o in orders:
            r = impl_rule(q.gauss, dim, o)
            if isinstance(r, Raised):
                ctx.count(("gauss-raises", dim, o), nontrivial=False)
                if o == "max" and any(a == dim for a, _ in accepted):
                    ctx.mark("TIE-BROKEN", {"correspondence": "max-alias", "why": f"gauss({dim}, 'max') raises {r!r} although numbered orders are accepted"})
                continue
            accepted.append((dim, o))
            oo = o
            if o != "max" and len(r[0]) != (o + 1) ** dim:
                # the model's convention (order k <-> k+1 points per direction) is a tie, not part of the statement
                ctx.mark("TIE-BROKEN", {"correspondence": "order-vs-points", "call": ["gauss", dim, o], "points": len(r[0]), "model": (o + 1) ** dim})
            oo = max(int(round(len(r[0]) ** (1.0 / dim))) - 1, 0)
            for kind, fn in (("gauss", q.gauss), ("cell", q.gauss_reference_cell)):
                rr = r if kind == "gauss" else impl_rule(fn, dim, o)
                fname = "gauss" if kind == "gauss" else "gauss_reference_cell"
                ctx.count((kind, dim, o), n=len(exponents(dim, 2 * oo + 1)))
                bad = check_rule(kind, dim, oo, rr)
                if bad:
                    ctx.fail(f"C15:{fname}(dim={dim},order={o}):{bad[0]}", f"{fname}({dim},{o!r}): {bad[1]}",
                             {"call": [fname, dim, o], "nominal_order": oo, **bad[2]})
        r = impl_rule(q.reference_cell_corners, dim)
        ctx.count(("corners", dim), n=2**dim)
        bad = check_rule("corners", dim, 1, r)
        if bad:
            ctx.fail(f"C15:reference_cell_corners(dim={dim}):{bad[0]}", f"reference_cell_corners({dim}): {bad[1]}",
                     {"call": ["reference_cell_corners", dim], **bad[2]})
    return accepted


def replay(data):
    import darsia as d

    rp = data.get("replay", data)
    if rp["call"][0] == "consumer":
        from darsia.measure import wasserstein as W

        _, mode, dim, shape = rp["call"]
        im = d.Image(np.zeros(shape), space_dim=dim, dimensions=[0.5 * s_ for s_ in shape], scalar=True)
        solver = W.WassersteinDistanceNewton(d.generate_grid(im), None, {"l1_mode": W.L1Mode[mode], "linear_solver": "direct", "formulation": "pressure"})
        grid = solver.grid
        if "flux" in rp:
            flux = np.array(rp["flux"], dtype=float)
            need = np.linalg.norm(d.face_to_cell(grid, flux), 2, axis=-1)
            clause = "density >= norm of the centre flux, every cell"
        else:
            fa = np.array(rp["face_flux_per_axis"], dtype=float)
            flux = np.zeros(grid.num_faces)
            for a in range(dim):
                flux[grid.faces[a]] = fa[a]
            need = None
            clause = "density == norm of the constant flux, interior cells"
        td = call(solver.transport_density, flux.copy(), False, False)
        if isinstance(td, Raised):
            bad = True
        elif need is not None:
            bad = not np.all(need <= td + 1e-12 * max(1.0, float(np.max(td))))
        else:
            inner = tuple(slice(1, -1) if s_ >= 3 else slice(None) for s_ in shape)
            fa = np.array([fa[a] if shape[a] >= 3 else 0.0 for a in range(dim)])
            bad = not np.allclose(np.asarray(td)[inner], np.linalg.norm(fa), rtol=0, atol=1e-13 * max(1.0, np.linalg.norm(fa)))
        print(json.dumps({"call": rp["call"], "clause": clause, "density": repr(td) if isinstance(td, Raised) else np.asarray(td).ravel().tolist(),
                          "norm_centre_flux": None if need is None else need.ravel().tolist(), "still_failing": bool(bad)}, indent=1))
        return 1 if bad else 0
    fname, dim, *rest = rp["call"]
    fn = getattr(d.quadrature, fname)
    r = impl_rule(fn, dim, *rest)
    kind = {"gauss": "gauss", "gauss_reference_cell": "cell", "reference_cell_corners": "corners"}[fname]
    bad = check_rule(kind, dim, rp.get("nominal_order", 1), r)
    print(json.dumps({"call": rp["call"], "still_failing": bool(bad), "now": None if not bad else {"what": bad[1], **bad[2]}}, indent=1, default=str))
    return 1 if bad else 0


def run(ctx):
    import darsia as d

    for f in sorted((Path(__file__).resolve().parents[2] / "corpus" / "C15").glob("*.json")):
        data = json.loads(f.read_text())
        rp = data.get("replay", data)
        if rp["call"][0] == "consumer":
            continue
        fname, dim, *rest = rp["call"]
        kind = {"gauss": "gauss", "gauss_reference_cell": "cell", "reference_cell_corners": "corners"}[fname]
        bad = check_rule(kind, dim, rp.get("nominal_order", 1), impl_rule(getattr(d.quadrature, fname), dim, *rest))
        if bad:
            ctx.fail(f"C15:{fname}(dim={dim},order={rest[0] if rest else ''}):{bad[0]}", bad[1], rp)

    src = REPO / "src" / "darsia" / "utils" / "quadrature.py"
    try:
        l1 = extract_l1((REPO / "src" / "darsia" / "measure" / "wasserstein.py").read_text())
        ctx.cov["g2_l1_modes"] = {k: list(map(str, v)) for k, v in l1.items() if not k.startswith("__")}
        ctx.cov["g2_l1_loop_is_plain_weighted_sum"] = bool(l1.get("__loop_plain__"))
    except (ExtractError, OSError, SyntaxError, AttributeError, IndexError) as e:
        # the consumer left the accepted subset: keep the committed table; the numeric consumer correspondence below decides
        try:
            from ..lib.core import LEAN as _LEAN

            l1 = parse_committed_l1((_LEAN / "DarsiaGen" / "QuadratureTables.lean").read_text())
        except Exception:  # noqa: BLE001
            l1 = {}
        ctx.notes.append(f"transport_density not extractable ({str(e)[:120]}); committed l1Source used and validated numerically")
    try:
        ex = extract(src.read_text())
        ctx.cov["g2_extraction"] = {"branches": len(ex["rules"]), "max_alias": {str(k): v for k, v in ex["max"].items()}}
        fallback = False
    except (ExtractError, OSError, SyntaxError, AttributeError, IndexError) as e:
        # DESIGN 4a: the source left the accepted subset (e.g. a harmless refactor). Use the committed table only if it
        # still is, numerically, what the running code returns (same accepted set, lengths, order, every value to 1e-15).
        fallback = True
        try:
            from ..lib.core import LEAN

            ex = parse_committed((LEAN / "DarsiaGen" / "QuadratureTables.lean").read_text())
        except Exception as e2:  # noqa: BLE001
            ex = None
            ctx.mark("TIE-BROKEN", {"g2": "gauss left the accepted AST subset and no committed table is readable", "error": str(e)[:200], "error2": str(e2)[:200]})
        ctx.notes.append(f"G2 extraction unavailable: {str(e)[:200]}")
    if ex is not None:
        ok = validate_extraction(ctx, d, ex)
        if fallback:
            ctx.cov["tie"] = "G2-unavailable, validated-against-running-code" if ok else "G2-unavailable, committed table does not match the running code"
        else:
            ctx.cov["tie"] = "G2 extraction from the source, validated against the running gauss()"
            ctx.write_gen("QuadratureTables", emit(ex, tabulate_corners(d), l1, tabulate_api(d)))
    ctx.prove("C15")
    if ex is not None:
        # which obligation fails (diagnostics; directs nothing - the oracle is exhaustive anyway)
        acc = sorted(k for k, v in ex["rules"].items() if not isinstance(v, str))
        res = ctx.model([f"check {a} {b}" for a, b in acc] + [f"checkc {k}" for k in DIMS])
        ctx.cov["obligations_by_table"] = {f"{a},{b}": r for (a, b), r in zip(acc, res)} | {f"corners,{k}": r for k, r in zip(DIMS, res[len(acc):])}
        numeric_correspondence(ctx, d)
        consumer(ctx, d)
    accepted = oracle(ctx, d, wide=bool(fallback))
    ctx.cov["exhaustive"] = True
    ctx.cov["accepted_by_api"] = [list(map(str, a)) for a in accepted]
    ctx.cov["rule"] = ("exhaustive over dims 1-3 x orders 0..6 and 'max' for gauss and gauss_reference_cell, dims 1-3 for the corner rule; "
                       "evaluations = monomials of per-variable degree <= 2n-1 evaluated on the returned arrays")
    if ctx.cov.get("tie", "").startswith("G2-unavailable"):
        ctx.assumptions.append("FALLBACK RUN: quadrature.py left the accepted AST subset; the Lean theorems are about the COMMITTED table, which was only "
                               "validated numerically (1e-15) against the running gauss() in this run - not regenerated from the source")
    ctx.assumptions += [
        "numpy evaluates the literal table expressions in IEEE doubles: symbolic value vs float within 1e-15 (measured on every run)",
        "oracle tolerance on float moments 2e-14 * measure (sums of <= 27 terms of size <= 8)",
        "N-D polynomials are term lists (coefficient, exponents); d = 2, 3 against iterated interval integrals",
    ]
