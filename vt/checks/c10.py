"""C10 - every correction honours the copy / in-place / array / series contract.

Tie: the shared workflow BaseCorrection.__call__ is run on real darsia images with a toy correction defined here
(f(arr) = a*arr + b, optional whole-series routine, declared metadata update) and compared exactly with the Lean model
of the workflow. Oracle: every concrete correction that can be built without user interaction or image files x
{array, scalar image, optical image, scalar series, optical series} x {overwrite off/on}: result-is-input identity,
input untouched (deep snapshot), result data == correct_array(raw array) of an identically configured fresh correction,
metadata == input's + declared update, per-slice equality on series, neutral parameters leave pixel values unchanged
(modulo the correction's declared dtype conversion).
"""
from __future__ import annotations

import copy
import json
import os
import tempfile

import numpy as np

from ..lib.impl import Raised, call

LEVEL = "other"
CLAIM = dict(
    category="other",
    text="Proved (Lean, DarsiaProps.C10, all `_partial`): for the shared workflow BaseCorrection.__call__ and ANY pure "
    "correct_array f, optional correct_array_series and declared metadata update g - copy mode leaves the input object "
    "untouched and returns a new object of the same kind with data f(raw) and metadata = input's overridden by g; overwrite "
    "mode returns the very same object with the same data and metadata; a series is corrected slice by slice (the whole-series "
    "routine takes precedence when declared); arrays give f(array) for both flags; f = id leaves pixel data unchanged. The "
    "workflow model is tied exactly to the real BaseCorrection.__call__ through a toy correction run on real images. "
    "Only observed (not proved): that each concrete correction's correct_array is pure (no mutation / aliasing of its "
    "argument, no history dependence) and that neutral parameters make it the identity on pixel values - searched over "
    "type, rotation (2-D/3-D), translation, curvature, drift, colour (inactive and active on a synthetic checker), "
    "illumination, transformation / affine / generalised-perspective corrections x input kinds x overwrite x shapes x dtypes.",
    note="purity and aliasing of numpy / OpenCV / scipy code inside correct_array is runtime behaviour; it is observed on "
    "generated inputs, not proved. The active ColorCorrection is compared at 1e-3 instead of exactly: its swatch extraction "
    "uses cv2.kmeans with random centres (OpenCV's global RNG), so two calls on the same array differ by ~2e-5.",
    technique="Lean 4 proof of the shared workflow + exact differential correspondence (toy correction on real images) + "
    "property oracle over concrete corrections",
)

KINDS = ("array", "scalar", "optical", "series", "optical-series")


# ---------------------------------------------------------------------------- toy correction: workflow correspondence


def toy_classes(d):
    class Toy(d.BaseCorrection):
        def __init__(self, a, b, upd):
            self.a, self.b, self.upd = a, b, upd

        def correct_array(self, img):
            return self.a * img + self.b

        def correct_metadata(self, metadata={}):
            return dict(self.upd)

        def save(self, path):
            raise NotImplementedError

        def load(self, path):
            raise NotImplementedError

    class ToySeries(Toy):
        def correct_array_series(self, img):
            return img[..., ::-1].copy()

    return Toy, ToySeries


META_KEYS = ["name", "dim0", "dim1"]


def corr_workflow(ctx, d):
    Toy, ToySeries = toy_classes(d)
    lines, impl = [], []
    for i in range(ctx.pick(24, 200)):
        ow, series, hasS = bool(i % 2), bool((i // 2) % 2), (i % 8) >= 6
        a, b = ctx.rng.randint(-3, 3), ctx.rng.randint(-5, 5)
        shape = (ctx.rng.randint(1, 3), ctx.rng.randint(1, 3))
        T = ctx.rng.randint(1, 4) if series else 1
        name0, dims0 = ctx.rng.randint(1, 9), [ctx.rng.randint(1, 9), ctx.rng.randint(1, 9)]
        upd = {}
        if ctx.rng.random() < 0.5:
            upd["name"] = str(ctx.rng.randint(10, 19))
        if ctx.rng.random() < 0.5:
            upd["dimensions"] = [float(ctx.rng.randint(10, 19)), float(ctx.rng.randint(10, 19))]
        raw = np.array([[[ctx.rng.randint(-9, 9) for _ in range(T)] for _ in range(shape[1])] for _ in range(shape[0])], dtype=np.int64)
        slices = [raw[..., t] for t in range(T)]
        m = [(0, name0), (1, dims0[0]), (2, dims0[1])]
        u = ([(0, int(upd["name"]))] if "name" in upd else []) + (
            [(1, int(upd["dimensions"][0])), (2, int(upd["dimensions"][1]))] if "dimensions" in upd else [])
        lines.append(f"call {int(ow)} {int(series)} {a} {b} {int(hasS)} {len(m)} " + " ".join(f"{k} {v}" for k, v in m)
                     + f" {len(u)} " + " ".join(f"{k} {v}" for k, v in u) + f" {T} "
                     + " ".join(f"{s.size} " + " ".join(str(int(x)) for x in s.ravel()) for s in slices))

        def run():
            if series:
                img = d.Image(raw.copy(), dimensions=[float(x) for x in dims0], series=True, scalar=True, time=list(range(T)), name=str(name0))
            else:
                img = d.Image(raw[..., 0].copy(), dimensions=[float(x) for x in dims0], scalar=True, name=str(name0))
            c = (ToySeries if hasS else Toy)(a, b, upd)
            res = c(img, overwrite=ow)

            def show(im):
                arr = im.img
                if series:
                    return " ".join("[" + " ".join(str(int(x)) for x in arr[..., t].ravel()) + "]" for t in range(arr.shape[-1]))
                return "[" + " ".join(str(int(x)) for x in arr.ravel()) + "]"

            meta = f"0={int(res.name)} 1={int(res.dimensions[0])} 2={int(res.dimensions[1])}"
            return f"{int(res is img)} | {show(img)} | {show(res)} | {meta}"

        r = call(run)
        impl.append(repr(r) if isinstance(r, Raised) else r)
    return ctx.correspond("BaseCorrection.__call__ workflow (toy correction on real images, exact)", lines, impl)


# ---------------------------------------------------------------------------- concrete corrections


def _asfloat(a):
    import skimage

    return skimage.img_as_float(a)


def make_checker_image(d, scale, dtype, perturb):
    """synthetic 4x6 colour checker (classic reference swatches), each swatch scale x scale pixels"""
    from darsia.corrections.color.colorcorrection import ColorCheckerAfter2014

    ref = ColorCheckerAfter2014().swatches_rgb  # (4, 6, 3) in [0,1]
    A = np.eye(3) + perturb
    img = np.clip(np.kron(ref @ A, np.ones((scale, scale, 1))), 0, 1)
    if np.dtype(dtype) == np.uint8:
        return (img * 255).round().astype(np.uint8)
    return img.astype(dtype)


def configs(d, rng):
    """registry: name -> dict(build(shape_info)->correction, kinds, dtypes, neutral, conv, payload)"""
    regs = []

    def reg(name, build, kinds=KINDS, dtypes=("float64", "uint8", "float32", "uint16", "int64"), neutral=False,
            conv=None, dims=2, channels=(None, 3), min_extent=1, fixed_shape=None, tol=0.0):
        regs.append(dict(name=name, build=build, kinds=kinds, dtypes=dtypes, neutral=neutral, conv=conv, dims=dims, tol=tol,
                         channels=channels, min_extent=min_extent, fixed_shape=fixed_shape))

    # --- type
    for dt, nm in ((np.float64, "float64"), (np.float32, "float32"), (np.uint8, "uint8"), (np.uint16, "uint16"), (float, "float")):
        reg(f"type({nm})", lambda info, dt=dt: d.TypeCorrection(dt), dtypes=("float64", "uint8", "float32", "uint16"))
    reg("type(neutral)", lambda info: d.TypeCorrection({"float64": np.float64, "float32": np.float32, "uint8": np.uint8,
                                                        "uint16": np.uint16}[info["dtype"]]),
        dtypes=("float64", "uint8", "float32", "uint16"), neutral=True)
    # --- rotation
    reg("rotation2d", lambda info: d.RotationCorrection(anchor=[info["shape"][0] // 2, info["shape"][1] // 2], rotations=[info["p"][0]]),
        conv=lambda a: a.astype(np.float64))
    reg("rotation2d(neutral)", lambda info: d.RotationCorrection(anchor=[info["shape"][0] // 2, info["shape"][1] // 2], rotations=[0.0]),
        neutral=True, conv=lambda a: a.astype(np.float64))
    reg("rotation3d", lambda info: d.RotationCorrection(anchor=[1, 1, 1], rotations=[(info["p"][0], "x"), (info["p"][1], "z")]),
        kinds=("array", "scalar", "series"), dims=3, channels=(None,), conv=lambda a: a.astype(np.float64))
    reg("rotation3d(neutral)", lambda info: d.RotationCorrection(anchor=[1, 1, 1], rotations=[(0.0, "x"), (0.0, "y"), (0.0, "z")]),
        kinds=("array", "scalar", "series"), dims=3, channels=(None,), neutral=True, conv=lambda a: a.astype(np.float64))

    # --- translation (cv2.warpAffine): matrix from a temporary .npy file (not an image file)
    def translation(mat):
        def build(info):
            fd, path = tempfile.mkstemp(suffix=".npy")
            os.close(fd)
            try:
                np.save(path, np.array(mat, dtype=np.float64))
                return d.TranslationCorrection(path)
            finally:
                os.remove(path)
        return build

    cvd = ("float64", "uint8", "float32", "uint16")
    reg("translation", translation([[1, 0, 1], [0, 1, 2]]), dtypes=cvd, min_extent=2)
    reg("translation(neutral)", translation([[1, 0, 0], [0, 1, 0]]), dtypes=cvd, neutral=True, min_extent=1)
    reg("translation(inactive)", lambda info: d.TranslationCorrection(None), dtypes=cvd, neutral=True, min_extent=1)
    # --- curvature
    zero_b = {"horizontal_bulge": 0.0, "horizontal_center_offset": 0, "vertical_bulge": 0.0, "vertical_center_offset": 0}
    zero_s = {"horizontal_stretch": 0.0, "horizontal_center_offset": 0, "vertical_stretch": 0.0, "vertical_center_offset": 0}
    reg("curvature(neutral)", lambda info: d.CurvatureCorrection(config={"bulge": dict(zero_b), "stretch": dict(zero_s)}),
        dtypes=cvd, neutral=True, min_extent=1)
    reg("curvature(empty config)", lambda info: d.CurvatureCorrection(config={}), dtypes=cvd, neutral=True, min_extent=1)
    reg("curvature", lambda info: d.CurvatureCorrection(config={"bulge": dict(zero_b, horizontal_bulge=1e-3, vertical_bulge=-5e-4),
                                                                  "stretch": dict(zero_s, horizontal_stretch=1e-3)}),
        dtypes=cvd, min_extent=3)
    # --- drift
    reg("drift(inactive)", lambda info: d.DriftCorrection(base=np.zeros(info["shape"][:2]), config={"active": False}), neutral=True)
    # --- transformation / affine / generalised perspective
    def transf(t):
        def build(info):
            src = d.Image(np.zeros(info["shape"][:2]), dimensions=[1.0, 1.0]).coordinatesystem
            T = d.AffineTransformation(2)
            p = d.make_voxel(np.zeros((2, 2)))
            T.set_dtype(p, p)
            T.set_parameters(np.array(t, dtype=float), 1.0, [0.0])
            return d.TransformationCorrection(src, src, T)
        return build

    reg("transformation(shift)", transf([1, -1]))
    reg("transformation(neutral)", transf([0, 0]), neutral=True)

    def fitted(cls, shift):
        def build(info):
            n0, n1 = info["shape"][:2]
            src = d.Image(np.zeros((n0, n1)), dimensions=[1.0, 1.0]).coordinatesystem
            # destination system: same voxel grid, other physical dimensions / origin (visible in the declared metadata update)
            dst = d.Image(np.zeros((n0, n1)), dimensions=[2.0, 3.0], origin=[-1.0, 4.0]).coordinatesystem
            pts = np.array([[0, 0], [n0, 0], [0, n1], [n0, n1]], dtype=float)
            return cls(src, dst, d.make_voxel(pts), d.make_voxel(pts + np.array(shift, float)), fit_options={"tol": 1e-6, "maxiter": 200})
        return build

    reg("affine(fitted shift)", fitted(d.AffineCorrection, [1, 0]), min_extent=3)
    reg("affine(fitted neutral)", fitted(d.AffineCorrection, [0, 0]), neutral=True, min_extent=3)
    reg("generalized-perspective(fitted neutral)", fitted(d.GeneralizedPerspectiveCorrection, [0, 0]), neutral=True, min_extent=3)
    # --- colour
    inactive_conv = lambda a: _asfloat(a).astype(np.float32)  # noqa: E731
    reg("colour(inactive)", lambda info: d.ColorCorrection(config={"active": False, "roi": [[0, 0], [3, 0], [3, 5], [0, 5]]}),
        kinds=("array", "optical", "optical-series"), dtypes=("uint8", "uint16", "float32", "float64"), channels=(3,), neutral=True,
        conv=inactive_conv)

    def colour_active(mode):
        def build(info):
            n0, n1 = info["shape"][:2]
            return d.ColorCorrection(config={"roi": [[0, 0], [n0 - 1, 0], [n0 - 1, n1 - 1], [0, n1 - 1]], "colorbalancing": mode,
                                             "whitebalancing": True})
        return build

    reg("colour(active,affine)", colour_active("affine"), kinds=("array", "optical", "optical-series"), dtypes=("uint8", "float64"),
        channels=(3,), fixed_shape="checker", tol=1e-3)
    reg("colour(active,linear)", colour_active("linear"), kinds=("array", "optical"), dtypes=("float64",), channels=(3,),
        fixed_shape="checker", tol=1e-3)
    # --- illumination
    def illum(neutral):
        def build(info):
            c = d.IlluminationCorrection()
            c.colorspace = "hsl-scalar"
            n0, n1 = info["shape"][:2]
            s = np.ones((n0, n1)) if neutral else 1.0 + 0.25 * np.linspace(0, 1, n0 * n1).reshape(n0, n1)
            c.local_scaling = [d.ScalarImage(s, dimensions=[1.0, 1.0])]
            return c
        return build

    reg("illumination", illum(False), kinds=("array", "optical", "optical-series"), dtypes=("float64", "float32"), channels=(3,))
    reg("illumination(neutral)", illum(True), kinds=("array", "optical", "optical-series"), dtypes=("float64", "float32", "uint8"),
        channels=(3,), neutral=True)
    return regs


def gen_raw(rng, cfg, kind, dtype, seed):
    r = np.random.default_rng(seed)
    dims = cfg["dims"]
    lo = max(cfg["min_extent"], 1)
    if cfg["fixed_shape"] == "checker":
        scale = rng.choice([6, 8])
        space = (4 * scale, 6 * scale)
    else:
        space = tuple(rng.randint(max(lo, 2), 7) if rng.random() < 0.85 else lo for _ in range(dims))
    optical = kind in ("optical", "optical-series") or (kind == "array" and cfg["channels"] == (3,)) or (
        kind == "array" and 3 in cfg["channels"] and rng.random() < 0.4)
    series = kind in ("series", "optical-series")
    T = rng.randint(2, 3) if series else None
    shape = space + ((T,) if series else ()) + ((3,) if optical else ())
    dt = np.dtype(dtype)
    if cfg["fixed_shape"] == "checker":
        pert = 0.1 * (r.random((3, 3)) - 0.5)
        base = None
        import darsia as d

        base = make_checker_image(d, space[0] // 4, dt, pert)
        if series:
            raw = np.stack([base, base[::1].copy()][:T] + [base] * max(0, T - 2), axis=2)
        else:
            raw = base
    elif dt.kind == "f":
        raw = r.random(shape).astype(dt)
    elif dt.kind == "u":
        raw = r.integers(0, np.iinfo(dt).max, size=shape, endpoint=True).astype(dt)
    else:
        raw = r.integers(-1000, 1000, size=shape).astype(dt)
    return raw, space, optical, series, T


def make_input(d, kind, raw, space, optical, series, T):
    dim = len(space)
    dims = [0.5 * n for n in space]
    if kind == "array":
        return raw.copy()
    kw = dict(dimensions=dims, space_dim=dim, name="c10", origin=[0.25 * (k + 1) for k in range(dim)])
    if series:
        kw.update(series=True, time=[float(t) for t in range(T)])
    if optical:
        return d.OpticalImage(raw.copy(), **kw)
    if kind == "scalar":
        return d.ScalarImage(raw.copy(), **kw)
    return d.Image(raw.copy(), scalar=True, **kw)


def meta_equal(a, b):
    if set(a) != set(b):
        return False, f"keys {sorted(set(a) ^ set(b))}"
    for k in a:
        x, y = a[k], b[k]
        try:
            same = (x is None and y is None) or (x is not None and y is not None and np.array_equal(np.asarray(x), np.asarray(y)))
        except Exception:  # noqa: BLE001
            same = x == y
        if not same:
            return False, f"{k}: {x!r} != {y!r}"
    return True, ""


def data_equal(a, b, tol):
    if tol:
        return a.shape == b.shape and a.dtype == b.dtype and np.allclose(a, b, rtol=0, atol=tol, equal_nan=True)
    return a.shape == b.shape and np.array_equal(a, b, equal_nan=True)


def arr_equal(a, b):
    return isinstance(a, np.ndarray) and isinstance(b, np.ndarray) and a.shape == b.shape and a.dtype == b.dtype and np.array_equal(a, b, equal_nan=True)


def check_case(d, case, cfgs=None, rngmod=None):
    """returns list of (signature, what)"""
    import random

    cfgs = cfgs or {c["name"]: c for c in configs(d, random.Random(0))}
    cfg = cfgs[case["config"]]
    kind, ow, dtype = case["kind"], case["overwrite"], case["dtype"]
    rng = random.Random(case["seed"])
    raw, space, optical, series, T = gen_raw(rng, cfg, kind, dtype, case["seed"])
    info = dict(shape=raw.shape if not series else space + ((3,) if optical else ()), dtype=dtype,
                p=[rng.uniform(-1.0, 1.0) for _ in range(3)])
    info["shape"] = tuple(space) + ((3,) if optical else ())
    name = cfg["name"]
    sig0 = f"C10:{name}:{kind}:overwrite={int(ow)}"
    bad = []
    corr = call(cfg["build"], info)
    ref = call(cfg["build"], info)
    if isinstance(corr, Raised) or isinstance(ref, Raised):
        return [(f"C10:{name}:construct:raises", f"constructing the correction raises {corr}")]
    inp = call(make_input, d, kind, raw, space, optical, series, T)
    if isinstance(inp, Raised):
        return [("C10:harness:make_input", f"{inp} for shape {raw.shape}")]
    is_img = kind != "array"
    snap_meta = copy.deepcopy(inp.metadata()) if is_img else None
    declared = call(corr.correct_metadata, copy.deepcopy(snap_meta)) if is_img else {}
    if isinstance(declared, Raised):
        return [(f"C10:{name}:correct_metadata:raises", f"{declared}")]
    # expected data from an identically configured fresh correction on the raw array
    if series:
        exp_slices = []
        for t in range(T):
            sl = raw[..., t, :] if optical else raw[..., t]
            e = call(ref.correct_array, sl.copy())
            if isinstance(e, Raised):
                return [(f"C10:{name}:correct_array:raises({kind})", f"correct_array raises {e} on a {sl.dtype} slice of shape {sl.shape}")]
            exp_slices.append(e)
    else:
        exp = call(ref.correct_array, raw.copy())
        if isinstance(exp, Raised):
            return [(f"C10:{name}:correct_array:raises({kind})", f"correct_array raises {exp} on a {raw.dtype} array of shape {raw.shape}")]
    res = call(corr, inp, overwrite=ow)
    if isinstance(res, Raised):
        return [(f"{sig0}:raises", f"correction(image, overwrite={ow}) raises {res} although correct_array works on the raw array / slices")]
    # --- kind and identity
    if is_img:
        if type(res) is not type(inp):
            bad.append((f"{sig0}:kind-changed", f"result is {type(res).__name__}, input {type(inp).__name__}"))
            return bad
        if ow and res is not inp:
            bad.append((f"{sig0}:not-same-object", "overwrite=True did not return the very same object"))
        if not ow:
            if res is inp:
                bad.append((f"{sig0}:same-object", "overwrite=False returned the input object"))
            if not arr_equal(inp.img, raw):
                bad.append((f"{sig0}:input-modified", "overwrite=False modified the pixel data of the input image"))
            ok, why = meta_equal(inp.metadata(), snap_meta)
            if not ok:
                bad.append((f"{sig0}:input-metadata-modified", f"overwrite=False modified the input metadata ({why})"))
            if np.shares_memory(res.img, inp.img):
                bad.append((f"{sig0}:result-aliases-input", "result pixel data shares memory with the input image"))
        out = res.img
    else:
        if not isinstance(res, np.ndarray):
            return [(f"{sig0}:kind-changed", f"array in, {type(res).__name__} out")]
        if not ow and not arr_equal(inp, raw):
            bad.append((f"{sig0}:input-modified", "overwrite=False modified the input array"))
        if not ow and np.shares_memory(res, inp):
            bad.append((f"{sig0}:result-aliases-input", "result array shares memory with the input array"))
        out = res
    # --- data
    if series:
        ok = out.ndim == raw.ndim and out.shape[len(space)] == T
        if ok:
            for t in range(T):
                got = out[..., t, :] if optical else out[..., t]
                if not data_equal(got, exp_slices[t], cfg['tol']):
                    ok = False
                    break
        if not ok:
            bad.append((f"{sig0}:series-not-per-slice", f"time slice of the result differs from correct_array(slice); result shape {out.shape}"))
    else:
        if not (out.dtype == exp.dtype and data_equal(out, exp, cfg['tol'])):
            bad.append((f"{sig0}:data≠correct_array(raw)", f"result data {out.dtype}{out.shape} differs from correct_array(raw) {exp.dtype}{exp.shape}"))
    # --- metadata
    if is_img:
        expect = copy.deepcopy(snap_meta)
        expect.update(declared)
        ok, why = meta_equal(res.metadata(), expect)
        if not ok:
            bad.append((f"{sig0}:metadata", f"result metadata is not the input's plus the declared update ({why})"))
    # --- neutral parameters
    if cfg["neutral"]:
        conv = cfg["conv"] or (lambda a: a)
        want = conv(raw)
        if not (out.shape == want.shape and np.allclose(out.astype(np.float64), want.astype(np.float64), rtol=0, atol=1e-6, equal_nan=True)):
            bad.append((f"C10:{name}:{kind}:neutral-changes-pixels",
                        f"neutral parameters changed pixel values / shape: {raw.dtype}{raw.shape} -> {out.dtype}{out.shape}"))
    return bad


def oracle(ctx, d):
    cfgl = configs(d, ctx.rng)
    cfgs = {c["name"]: c for c in cfgl}
    reps = ctx.pick(1, 6)
    skipped = {}
    for cfg in cfgl:
        for kind in cfg["kinds"]:
            if cfg["dims"] == 3 and kind in ("optical", "optical-series"):
                continue
            for ow in (False, True):
                for rep in range(reps):
                    dtype = cfg["dtypes"][(rep + (1 if ow else 0) + KINDS.index(kind)) % len(cfg["dtypes"])] if rep else cfg["dtypes"][0]
                    case = dict(config=cfg["name"], kind=kind, overwrite=ow, dtype=dtype, seed=ctx.rng.randrange(10**9))
                    ctx.count((cfg["name"], kind, ow, dtype, rep))
                    bad = check_case(d, case, cfgs)
                    for sig, what in bad:
                        if sig.startswith("C10:harness"):
                            skipped[sig] = what
                            continue
                        ctx.fail(sig, what, {"case": case, "observed": what})
    ctx.cov["configs"] = [c["name"] for c in cfgl]
    ctx.cov["harness_skips"] = skipped


def replay(data):
    import darsia as d

    case = data.get("replay", {}).get("case", data.get("case"))
    if case is None:
        print(json.dumps(data, indent=1)[:4000])
        return 0
    bad = check_case(d, case)
    print("case:", json.dumps(case))
    for sig, what in bad:
        print("FAILS:", sig, "--", what)
    if not bad:
        print("holds on this input")
    return 1 if bad else 0


def run(ctx):
    import pathlib

    import darsia as d

    for f in sorted((pathlib.Path(__file__).resolve().parents[2] / "corpus" / "C10").glob("*.json")):
        case = json.loads(f.read_text()).get("replay", {}).get("case")
        if case:
            for sig, what in check_case(d, case):
                ctx.fail(sig, what, {"case": case, "observed": what})
    ctx.prove("C10")
    corr_workflow(ctx, d)
    oracle(ctx, d)
    ctx.cov["explanation"] = CLAIM["text"]
    ctx.cov["rule"] = ("every registered correction configuration x supported input kinds x overwrite off/on x (quick 1 / thorough 6) random "
                       "shapes (extents 1..7, forced small) and dtypes; distinct = (configuration, kind, overwrite, dtype, repetition)")
    ctx.assumptions += [
        "an identically configured fresh correction applied to the raw array is the reference for `correct_array(raw)` (purity of correct_array is observed, not proved)",
        "corrections needing user interaction, image files or feature detection on real photographs (active drift, deformation, relative/experimental colour) are outside the quantifier",
    ]
