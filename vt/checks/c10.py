"""C10 - every correction honours the copy / in-place / array / series contract.

Tie: the shared workflow BaseCorrection.__call__ is run on real darsia images with a toy correction defined here
(f(arr) = a*arr + b, optional whole-series routine, declared metadata update) and compared exactly with the Lean model
of the workflow. Oracle: every concrete correction that can be built without user interaction or image files x
{array, scalar image, optical image, scalar series, optical series} x {overwrite off/on}: result-is-input identity,
input untouched (deep snapshot), result data == correct_array(raw array) of an identically configured fresh correction,
metadata == input's + declared update, per-slice equality on series, neutral parameters leave pixel values unchanged
(modulo the correction's declared dtype conversion).
"""
from __future__ import annotations

import copy
import json
import os
import tempfile

import numpy as np

from ..lib.impl import Raised, call

LEVEL = "other"
CLAIM = dict(
    category="other",
    text="PROVED (Lean, DarsiaProps.C10). "
    "(a) Operational workflow on a heap (DarsiaModel.CorrHeap; correct_array may write through its argument or return it): "
    "sliceLoop_spec, heap_copy_series_input_untouched, heap_copy_single_input_untouched, heap_array_copy_untouched (copy mode leaves the "
    "input untouched for EVERY correct_array), heap_copy_series_original_iff + heap_original_views_leak (the tree before the fix), "
    "heap_series_per_slice, heap_object_identity, heap_array_overwrite_in_place. "
    "(b) Concrete corrections modelled themselves (DarsiaModel.Corrections / Corrections2), purity = the result depends only on dtype, "
    "shape and the values inside the box: TypeCorrection u8/u16/f64 incl. skimage's data-dependent branch and the ValueError path "
    "(type_pure, type_neutral, type_roundtrip_u8, type_guard, type_never_raises_from_int); whole-pixel / inactive "
    "TranslationCorrection (trans_pure, trans_neutral); RotationCorrection's clip/astype(int) warp 2-D/3-D (rot2_pure, rot3_pure, "
    "rot2_neutral, rot3_neutral; quarter turns in C09); TransformationCorrection (transf_pure, transf_neutral; cache: "
    "C09.warp_cache_tracks_parameters); CurvatureCorrection with the interpolation routine and the OpenCV crop as parameters "
    "(transformCoords_neutral, stage_neutral, stage_congr, curvField_neutral, curv_neutral, curv_pure - CONDITIONAL on the routine being exact at "
    "in-range integer positions and local, which is proved for order 0 (interpNearest_contracts) AND for order 1, the default "
    "(interpLinear_contracts); curv_cache_transparent (memory cache, any history), curv_filecache_transparent (use_cache file shared by "
    "several objects), curv_cache_stale_witness (before the fixes), adapt_neutral); IlluminationCorrection (illum_pure, illum_neutral, "
    "illum_scalar_colourspace); inactive ColorCorrection ignores every other option (colour_inactive_ignores_options, near-definitional, "
    "tied exactly for clip / whitebalancing / colorbalancing / balancing on values outside [0,1]); active DriftCorrection with the translation estimate as parameter (drift_active). "
    "DEFINITIONAL / TRIVIAL (labelled so in the Lean docstrings; no content beyond the model's definition): copy_mode_partial, "
    "overwrite_mode_partial, series_per_slice_partial, neutral_is_identity_partial, series_routine_precedence (toy-only: no DarSIA class "
    "defines correct_array_series), array_mode_def, trans_is_shift_def, trans_inactive_def, drift_inactive_def, concrete_workflow, "
    "concrete_neutral_series, transf_cache_transparent (constant-cache induction). "
    "TIED exactly: heap model through toy corrections (in place / returning their argument) on Image / ScalarImage / OpticalImage, "
    "single and series, copy and overwrite, arrays; type / translation / rotation (exact matrices set on the object) / inactive drift / "
    "transformation incl. IndexError path; curvature polynomial via ramp fields (1e-4) and whole correct_array for order 0 (exact) and "
    "order 1 (1e-3), breakpoint-aware, incl. resize_factor, memory- and file-cache histories (crop = none in this tie: the OpenCV crop is "
    "a parameter); illumination exactly (integer images with scalings <= 1 only: an overflowing store is C-undefined); active drift with "
    "the estimator stubbed. "
    "ONLY OBSERVED (oracle over configurations x input kinds x overwrite x shapes x dtypes, histories, file cache): the OpenCV crop, "
    "colour corrections, IlluminationCorrection.setup, fitted affine / generalised-perspective corrections, float32 and general "
    "cv2.warpAffine translations, the feature-based translation estimate; that scipy / cv2 / skimage behave as the parameters and "
    "tabulated rules say.",
    note="Round-7 triage: failing inputs come only from stated clauses on concrete corrections; the toy in-place correct_array clause, "
    "TypeCorrection's declared dtype, other-shape histories / file caches and their raises variants are TIE-BROKEN marks; result-aliases-"
    "input / same-object are observations; fitted Voxel-typed 'neutral' configs are no longer judged by the neutral clause (breakpoints); "
    "an inactive correction may return the input literally or its declared conversion. OpenCV's RNG is seeded before each compared call "
    "(active colour now compared at 1e-5, maximum recorded). Formerly: the active ColorCorrection was compared at 1e-3 instead of exactly: its swatch extraction uses cv2.kmeans with random centres "
    "(OpenCV's global RNG), so two calls on the same array differ by ~2e-5. RotationCorrection built from an ANGLE of pi/2 carries "
    "float noise on rounding breakpoints, so its quarter-turn theorems (C09) are tied through exact matrices.",
    technique="Lean 4 proofs over operational models (heap workflow, concrete corrections, caches as state) + exact differential "
    "correspondence + property oracle over concrete corrections",
)

KINDS = ("array", "scalar", "optical", "series", "optical-series")


# ---------------------------------------------------------------------------- toy correction: workflow correspondence


def toy_classes(d):
    class Toy(d.BaseCorrection):
        def __init__(self, a, b, upd):
            self.a, self.b, self.upd = a, b, upd

        def correct_array(self, img):
            return self.a * img + self.b

        def correct_metadata(self, metadata={}):
            return dict(self.upd)

        def save(self, path):
            raise NotImplementedError

        def load(self, path):
            raise NotImplementedError

    class ToySeries(Toy):
        def correct_array_series(self, img):
            return img[..., ::-1].copy()

    return Toy, ToySeries


META_KEYS = ["name", "dim0", "dim1"]


def corr_workflow(ctx, d):
    Toy, ToySeries = toy_classes(d)
    lines, impl = [], []
    for i in range(ctx.pick(24, 200)):
        ow, series, hasS = bool(i % 2), bool((i // 2) % 2), (i % 8) >= 6
        a, b = ctx.rng.randint(-3, 3), ctx.rng.randint(-5, 5)
        shape = (ctx.rng.randint(1, 3), ctx.rng.randint(1, 3))
        T = ctx.rng.randint(1, 4) if series else 1
        name0, dims0 = ctx.rng.randint(1, 9), [ctx.rng.randint(1, 9), ctx.rng.randint(1, 9)]
        upd = {}
        if ctx.rng.random() < 0.5:
            upd["name"] = str(ctx.rng.randint(10, 19))
        if ctx.rng.random() < 0.5:
            upd["dimensions"] = [float(ctx.rng.randint(10, 19)), float(ctx.rng.randint(10, 19))]
        raw = np.array([[[ctx.rng.randint(-9, 9) for _ in range(T)] for _ in range(shape[1])] for _ in range(shape[0])], dtype=np.int64)
        slices = [raw[..., t] for t in range(T)]
        m = [(0, name0), (1, dims0[0]), (2, dims0[1])]
        u = ([(0, int(upd["name"]))] if "name" in upd else []) + (
            [(1, int(upd["dimensions"][0])), (2, int(upd["dimensions"][1]))] if "dimensions" in upd else [])
        lines.append(f"call {int(ow)} {int(series)} {a} {b} {int(hasS)} {len(m)} " + " ".join(f"{k} {v}" for k, v in m)
                     + f" {len(u)} " + " ".join(f"{k} {v}" for k, v in u) + f" {T} "
                     + " ".join(f"{s.size} " + " ".join(str(int(x)) for x in s.ravel()) for s in slices))

        def run():
            if series:
                img = d.Image(raw.copy(), dimensions=[float(x) for x in dims0], series=True, scalar=True, time=list(range(T)), name=str(name0))
            else:
                img = d.Image(raw[..., 0].copy(), dimensions=[float(x) for x in dims0], scalar=True, name=str(name0))
            c = (ToySeries if hasS else Toy)(a, b, upd)
            res = c(img, overwrite=ow)

            def show(im):
                arr = im.img
                if series:
                    return " ".join("[" + " ".join(str(int(x)) for x in arr[..., t].ravel()) + "]" for t in range(arr.shape[-1]))
                return "[" + " ".join(str(int(x)) for x in arr.ravel()) + "]"

            meta = f"0={int(res.name)} 1={int(res.dimensions[0])} 2={int(res.dimensions[1])}"
            return f"{int(res is img)} | {show(img)} | {show(res)} | {meta}"

        r = call(run)
        impl.append(repr(r) if isinstance(r, Raised) else r)
    return ctx.correspond("BaseCorrection.__call__ workflow (toy correction on real images, exact)", lines, impl)



# the buffer the per-slice loop of BaseCorrection.__call__ takes its views from: "work" = img (the copy in copy mode),
# "original" = image.img even in copy mode (the tree before the round-3 fix). The model mirrors the code as it is.
SLICE_SRC = "work"
KIND_CODE = {"Image": 0, "ScalarImage": 1, "OpticalImage": 2}


def heap_toy_case(rng, i):
    ow, series = bool(i % 2), bool((i // 2) % 2)
    kind = ("Image", "ScalarImage", "OpticalImage")[(i // 4) % 3]
    inplace, retarg = bool((i // 3) % 2), bool((i // 5) % 2)
    a, b = rng.randint(-3, 3), rng.randint(-5, 5)
    shape = (rng.randint(1, 3), rng.randint(1, 3))
    T = rng.randint(1, 4) if series else 1
    ch = (3,) if kind == "OpticalImage" else ()
    meta0 = dict(name=rng.randint(1, 9), dims=[rng.randint(1, 9), rng.randint(1, 9)], origin=[rng.randint(-4, 4), rng.randint(-4, 4)])
    upd = {}
    if rng.random() < 0.5:
        upd["name"] = str(rng.randint(10, 19))
    if rng.random() < 0.5:
        upd["dimensions"] = [float(rng.randint(10, 19)), float(rng.randint(10, 19))]
    if rng.random() < 0.4:
        upd["origin"] = [float(rng.randint(20, 29)), float(rng.randint(20, 29))]
    raw = np.array([rng.randint(-9, 9) for _ in range(int(np.prod(shape + (T,) + ch)))], dtype=np.int64).reshape(shape + (T,) + ch)
    return dict(ow=ow, series=series, kind=kind, inplace=inplace, retarg=retarg, a=a, b=b, T=T, meta0=meta0, upd=upd, raw=raw.tolist(),
                shape=list(shape))


def heap_toy_line(c, src=None):
    raw = np.array(c["raw"], dtype=np.int64)
    optical = c["kind"] == "OpticalImage"
    slices = [(raw[..., t, :] if optical else raw[..., t]) for t in range(c["T"])]
    m0 = c["meta0"]
    m = [(0, m0["name"]), (1, m0["dims"][0]), (2, m0["dims"][1]), (3, m0["origin"][0]), (4, m0["origin"][1]),
         (5, KIND_CODE[c["kind"]]), (6, int(c["series"]))]
    u = c["upd"]
    ul = ([(0, int(u["name"]))] if "name" in u else []) + (
        [(1, int(u["dimensions"][0])), (2, int(u["dimensions"][1]))] if "dimensions" in u else []) + (
        [(3, int(u["origin"][0])), (4, int(u["origin"][1]))] if "origin" in u else [])
    return (f"hcall {int(c['ow'])} {int(c['series'])} {c['a']} {c['b']} {int(c['inplace'])} {int(c['retarg'])} {len(m)} "
            + " ".join(f"{k} {v}" for k, v in m) + f" {len(ul)} " + " ".join(f"{k} {v}" for k, v in ul) + f" {c['T']} "
            + " ".join(f"{sl.size} " + " ".join(str(int(x)) for x in sl.ravel()) for sl in slices))


def heap_toy_run(d, c):
    """run the toy (possibly in-place / argument-returning) correction through the real BaseCorrection.__call__"""
    a, b, inplace, retarg, upd = c["a"], c["b"], c["inplace"], c["retarg"], c["upd"]

    class Toy(d.BaseCorrection):
        def correct_array(self, img):
            out = a * img + b
            if inplace:
                img += 100
            return img if retarg else out

        def correct_metadata(self, metadata={}):
            return dict(upd)

        def save(self, path):
            raise NotImplementedError

        def load(self, path):
            raise NotImplementedError

    raw = np.array(c["raw"], dtype=np.int64)
    optical, series, T = c["kind"] == "OpticalImage", c["series"], c["T"]
    m0 = c["meta0"]
    kw = dict(dimensions=[float(x) for x in m0["dims"]], origin=[float(x) for x in m0["origin"]], name=str(m0["name"]))
    if series:
        kw.update(series=True, time=[float(t) for t in range(T)])
        data = raw.copy()
    else:
        data = (raw[..., 0, :] if optical else raw[..., 0]).copy()
    if c["kind"] == "Image":
        img = d.Image(data, scalar=True, **kw)
    elif c["kind"] == "ScalarImage":
        img = d.ScalarImage(data, **kw)
    else:
        img = d.OpticalImage(data, **kw)
    orig = img.img
    res = Toy()(img, overwrite=c["ow"])

    def show(arr):
        if series:
            return " ".join("[" + " ".join(str(int(x)) for x in (arr[..., t, :] if optical else arr[..., t]).ravel()) + "]"
                            for t in range(arr.shape[2]))
        return "[" + " ".join(str(int(x)) for x in arr.ravel()) + "]"

    meta = (f"0={int(res.name)} 1={int(res.dimensions[0])} 2={int(res.dimensions[1])} 3={int(res.origin[0])} 4={int(res.origin[1])} "
            f"5={KIND_CODE.get(type(res).__name__, 9)} 6={int(bool(res.series))}")
    return f"{int(res is img)} | {show(orig)} | {show(res.img)} | {int(np.shares_memory(res.img, orig))} | {meta}", orig


def corr_heap_workflow(ctx, d):
    """operational heap model vs the real workflow: toy corrections that may write through their argument and/or return it"""
    lines, impl = [], []
    for i in range(ctx.pick(60, 480)):
        c = heap_toy_case(ctx.rng, i)
        lines.append(heap_toy_line(c))
        r = call(heap_toy_run, d, c)
        impl.append(repr(r) if isinstance(r, Raised) else r[0])
    ctx.correspond("BaseCorrection.__call__ on a heap (in-place / argument-returning toy corrections, all image kinds, exact)", lines, impl)
    # raw arrays
    lines, impl = [], []
    for i in range(ctx.pick(16, 96)):
        ow, inplace, retarg = bool(i % 2), bool((i // 2) % 2), bool((i // 4) % 2)
        a, b = ctx.rng.randint(-3, 3), ctx.rng.randint(-5, 5)
        x = [ctx.rng.randint(-9, 9) for _ in range(ctx.rng.randint(1, 6))]
        lines.append(f"harr {int(ow)} {a} {b} {int(inplace)} {int(retarg)} {len(x)} " + " ".join(str(v) for v in x))

        def run():
            class Toy(d.BaseCorrection):
                def correct_array(self, img):
                    out = a * img + b
                    if inplace:
                        img += 100
                    return img if retarg else out

                def save(self, path):
                    raise NotImplementedError

                def load(self, path):
                    raise NotImplementedError

            arr = np.array(x, dtype=np.int64)
            res = Toy()(arr, overwrite=ow)
            return (f"{int(res is arr)} | [" + " ".join(str(int(v)) for v in arr) + "] | [" + " ".join(str(int(v)) for v in res) + "]")

        r = call(run)
        impl.append(repr(r) if isinstance(r, Raised) else r)
    return ctx.correspond("BaseCorrection.__call__ on raw arrays (copy vs in place, exact)", lines, impl)


def check_heap_case(d, c):
    """property clause on the implementation: without overwrite the input image is untouched - also for a correct_array that
    works in place on what it is handed (BaseCorrection documents copy mode as 'the correction is applied to a copy')"""
    if c["ow"]:
        return []
    r = call(heap_toy_run, d, c)
    if isinstance(r, Raised):
        return [("C10:BaseCorrection.__call__(toy):raises", f"{r}")]
    raw = np.array(c["raw"], dtype=np.int64)
    optical = c["kind"] == "OpticalImage"
    want = raw if c["series"] else (raw[..., 0, :] if optical else raw[..., 0])
    if not np.array_equal(r[1], want):
        return [(f"C10:BaseCorrection(series={int(c['series'])},overwrite=0,in-place correct_array):input-modified",
                 f"{c['kind']} {'series' if c['series'] else 'image'}: overwrite=False, but the pixel data of the INPUT changed (a correct_array that "
                 f"writes into its argument was handed a view of image.img instead of the copy)")]
    return []


# ---------------------------------------------------------------------------- round 2: concrete corrections vs model (exact)

from fractions import Fraction as Fr  # noqa: E402

from ..lib.core import fmt  # noqa: E402

NPDT = {"u8": np.uint8, "u16": np.uint16, "f64": np.float64}
DTN = {np.dtype(np.uint8): "u8", np.dtype(np.uint16): "u16", np.dtype(np.float64): "f64"}


def arr_tokens(a):
    return " ".join(str(n) for n in a.shape) + " " + " ".join(fmt(x) for x in a.ravel())


def show_arr(a):
    a = np.asarray(a)
    if a.dtype not in DTN:
        return f"!dtype {a.dtype}"
    return f"{DTN[a.dtype]} " + " ".join(str(n) for n in a.shape) + " | " + " ".join(fmt(x) for x in a.ravel())


def rand_payload(rng, dt, shape):
    n = int(np.prod(shape))
    if dt == "u8":
        vals = [rng.choice([0, 1, 2, 127, 128, 254, 255, rng.randint(0, 255)]) for _ in range(n)]
    elif dt == "u16":
        small = rng.random() < 0.4  # exercise skimage's "fits without scaling" branch
        vals = [rng.randint(0, 255) if small else rng.choice([0, 255, 256, 257, 65535, rng.randint(0, 65535)]) for _ in range(n)]
    else:
        vals = [Fr(rng.randint(-64, 64), 64) for _ in range(n)]
    return np.array([float(v) if dt == "f64" else int(v) for v in vals], dtype=NPDT[dt]).reshape(shape)


def compare_lines(ctx, name, lines, impl, float_rel=0.0):
    """textual comparison; with float_rel > 0 numeric tokens may differ relatively by float_rel (model rational vs float)"""
    got = ctx.model(lines)
    diffs = []
    worst = 0.0
    for i, (g, v) in enumerate(zip(got, impl)):
        if g.strip() == str(v).strip():
            continue
        gt, vt = g.split(), str(v).split()
        ok = float_rel > 0 and len(gt) == len(vt)
        if ok:
            for a, b in zip(gt, vt):
                if a == b:
                    continue
                try:
                    fa, fb = Fr(a), Fr(b)
                except (ValueError, ZeroDivisionError):
                    ok = False
                    break
                rel = abs(float(fa - fb)) / max(abs(float(fa)), 1e-300)
                worst = max(worst, rel)
                if rel > float_rel:
                    ok = False
                    break
        if not ok:
            diffs.append(i)
    c = ctx.cov.setdefault("correspondence", {})
    c[name] = {"cases": len(lines), "disagreements": len(diffs)}
    if float_rel:
        ctx.cov.setdefault("measured_float_error", {})[name] = worst
    for l in lines:
        ctx.count((name, l))
    if lines:
        ctx.sample({"corr": name, "request": lines[0][:300], "model": got[0][:300], "impl": str(impl[0])[:300]})
    if diffs:
        i = min(diffs, key=lambda k: len(lines[k]))
        ctx.mark("CORR-BROKEN", {"correspondence": name, "request": lines[i], "model": got[i], "impl": str(impl[i]), "n_diffs": len(diffs)})
        ctx.log(f"correspondence {name}: {len(diffs)} disagreements, e.g. {lines[i][:200]} model={got[i][:160]} impl={str(impl[i])[:160]}")
    return diffs


QUARTER2 = [[[1, 0], [0, 1]], [[0, 1], [-1, 0]], [[-1, 0], [0, -1]], [[0, -1], [1, 0]]]


def corr_concrete(ctx, d):
    rng = ctx.rng
    # --- TypeCorrection
    lines, impl = [], []
    targets = {"u8": np.uint8, "u16": np.uint16, "f64": np.float64}
    for i in range(ctx.pick(40, 400)):
        src = ["u8", "u16", "f64"][i % 3]
        tgt = ["u8", "u16", "f64"][(i // 3) % 3]
        shape = (rng.randint(1, 3), rng.randint(1, 4))
        a = rand_payload(rng, src, shape)
        if src == "f64" and i % 10 == 9:
            a[0, 0] = rng.choice([1.5, -1.25, 2.0])  # out of range: ValueError for integer targets
        lines.append(f"type {tgt} {src} {arr_tokens(a)}")
        tcls = float if (tgt == "f64" and i % 2) else targets[tgt]
        r = call(lambda: d.TypeCorrection(tcls).correct_array(a.copy()))
        impl.append(repr(r) if isinstance(r, Raised) else show_arr(r))
    compare_lines(ctx, "TypeCorrection.correct_array (u8/u16/f64, exact; int->float within 4 ulp)", lines, impl, float_rel=2.0 ** -50)
    # --- TranslationCorrection, whole pixels (cv2.warpAffine) and inactive; DriftCorrection inactive
    lines, impl = [], []
    for i in range(ctx.pick(30, 300)):
        dt = ["u8", "u16", "f64"][i % 3]
        shape = (rng.randint(1, 5), rng.randint(1, 5))
        a = rand_payload(rng, dt, shape)
        active = i % 7 != 0
        tx, ty = rng.randint(-shape[1] - 1, shape[1] + 1), rng.randint(-shape[0] - 1, shape[0] + 1)
        lines.append(f"trans {int(active)} {tx} {ty} {dt} {arr_tokens(a)}")

        def run():
            if not active:
                c = d.TranslationCorrection(None)
            else:
                fd, path = tempfile.mkstemp(suffix=".npy")
                os.close(fd)
                try:
                    np.save(path, np.array([[1, 0, tx], [0, 1, ty]], dtype=np.float64))
                    c = d.TranslationCorrection(path)
                finally:
                    os.remove(path)
            return c.correct_array(a.copy())

        r = call(run)
        impl.append(repr(r) if isinstance(r, Raised) else show_arr(r))
        if i % 5 == 0:
            lines.append(f"drift {dt} {arr_tokens(a)}")
            r = call(lambda: d.DriftCorrection(base=np.zeros(shape), config={"active": False}).correct_array(a.copy()))
            impl.append(repr(r) if isinstance(r, Raised) else show_arr(r))
    compare_lines(ctx, "TranslationCorrection (whole pixels / inactive), DriftCorrection (inactive), exact", lines, impl)
    # --- RotationCorrection warp with exactly representable matrices (quarter turns and dyadic matrices)
    lines, impl = [], []
    for i in range(ctx.pick(40, 400)):
        dt = ["u8", "u16", "f64"][i % 3]
        if i % 2 == 0:
            shape = (rng.randint(1, 5), rng.randint(1, 5))
            if i % 4 == 0:
                m = rng.randint(0, 2)
                shape = (2 * m + 1, 2 * m + 1)
                anchor = [Fr(m), Fr(m)]
            else:
                anchor = [Fr(rng.randint(-2, 8), 2), Fr(rng.randint(-2, 8), 2)]
            R = QUARTER2[rng.randrange(4)] if i % 6 else [[Fr(rng.randint(-8, 8), 4) for _ in range(2)] for _ in range(2)]
            a = rand_payload(rng, dt, shape)
            lines.append(f"rot2 {fmt(anchor[0])} {fmt(anchor[1])} " + " ".join(fmt(x) for r in R for x in r) + f" {dt} {arr_tokens(a)}")

            def run():
                c = d.RotationCorrection(anchor=[float(x) for x in anchor], rotations=[0.0])
                c.rotation_inv = np.array([[float(x) for x in r] for r in R])
                return c.correct_array(a.copy())
        else:
            m = rng.randint(0, 1)
            shape = (2 * m + 1,) * 3 if i % 4 == 1 else (rng.randint(1, 3), rng.randint(1, 3), rng.randint(1, 3))
            anchor = [Fr(m)] * 3 if i % 4 == 1 else [Fr(rng.randint(-2, 6), 2) for _ in range(3)]
            k = rng.randrange(3)
            sgn = rng.choice([1, -1])
            E = {0: [[1, 0, 0], [0, 0, sgn], [0, -sgn, 0]], 1: [[0, 0, -sgn], [0, 1, 0], [sgn, 0, 0]], 2: [[0, sgn, 0], [-sgn, 0, 0], [0, 0, 1]]}[k]
            R = E if i % 6 else [[Fr(rng.randint(-8, 8), 4) for _ in range(3)] for _ in range(3)]
            a = rand_payload(rng, dt, shape)
            lines.append("rot3 " + " ".join(fmt(x) for x in anchor) + " " + " ".join(fmt(x) for r in R for x in r) + f" {dt} {arr_tokens(a)}")

            def run():
                c = d.RotationCorrection(anchor=[float(x) for x in anchor], rotations=[(0.0, "x")])
                c.rotation_inv = np.array([[float(x) for x in r] for r in R])
                return c.correct_array(a.copy())

        r = call(run)
        impl.append(repr(r) if isinstance(r, Raised) else show_arr(r))
    compare_lines(ctx, "RotationCorrection.correct_array (exact matrices: quarter turns, dyadic), 2-D/3-D, exact", lines, impl)
    # --- TransformationCorrection with its cache: a history of calls on ONE object
    rnd = "floor" if int(np.asarray(d.Voxel(np.array([-0.5])))[0]) == -1 else "trunc"
    lines, impl = [], []
    for i in range(ctx.pick(15, 150)):
        mode = ("coord", "voxel", "center")[i % 3]
        sshape = (rng.randint(1, 4), rng.randint(1, 4))
        dshape = sshape if i % 2 else (rng.randint(1, 4), rng.randint(1, 4))
        hs, hd = Fr(1, rng.choice([1, 2])), Fr(1, rng.choice([1, 2]))
        t = [Fr(rng.randint(-6, 6), 2), Fr(rng.randint(-6, 6), 2)]
        dt = ["u8", "u16", "f64"][i % 3]
        def hshape():
            # mostly the source system's shape; sometimes larger (read inside the system's box) or smaller (IndexError)
            r = rng.random()
            if r < 0.6:
                return sshape
            if r < 0.85:
                return (sshape[0] + rng.randint(0, 2), sshape[1] + rng.randint(0, 2))
            return (max(1, sshape[0] - rng.randint(0, 1)), max(1, sshape[1] - rng.randint(0, 1)))

        hist = [rand_payload(rng, dt, hshape()) for _ in range(rng.randint(0, 3))]
        a = rand_payload(rng, dt, hshape())

        def run():
            src = d.Image(np.zeros(sshape), dimensions=[float(n * hs) for n in sshape])
            dst = d.Image(np.zeros(dshape), dimensions=[float(n * hd) for n in dshape])
            T = d.AffineTransformation(2)
            mk = {"coord": d.make_coordinate, "voxel": d.make_voxel, "center": d.make_voxel_center}[mode]
            pts = mk(np.zeros((2, 2)))
            T.set_dtype(pts, pts)
            T.set_parameters(np.array([float(x) for x in t]), 1.0, None)
            c = d.TransformationCorrection(src.coordinatesystem, dst.coordinatesystem, T)
            csl = lambda im: (" ".join(str(n) for n in im.img.shape) + " " + " ".join(fmt(o) for o in im.origin) + " "  # noqa: E731
                              + " ".join(fmt(v) for v in im.voxel_size))
            for hh in hist:
                try:
                    c.correct_array(hh.copy())
                except IndexError:
                    return (csl(src), csl(dst)), "!IndexError"
            try:
                return (csl(src), csl(dst)), c.correct_array(a.copy())
            except IndexError:
                return (csl(src), csl(dst)), "!IndexError"

        r = call(run)
        if isinstance(r, Raised):
            continue
        (cs_s, cs_d), out = r
        lines.append(f"transfrun {rnd} {mode} {cs_s} {cs_d} {fmt(t[0])} {fmt(t[1])} 1 0 {len(hist)} "
                     + " ".join(f"{dt} {arr_tokens(hh)}" for hh in hist) + f" {dt} {arr_tokens(a)}")
        impl.append(out if isinstance(out, str) else show_arr(out))
    compare_lines(ctx, "TransformationCorrection with call history on one object (cache), exact", lines, impl)


# ---------------------------------------------------------------------------- round 4: curvature, illumination, active drift vs model


def bs_tokens(c):
    return " ".join(fmt(c[k]) for k in ("hb", "hs", "hoff", "vb", "vs", "voff"))


def bs_kwargs(c):
    return dict(horizontal_bulge=float(c["hb"]), horizontal_stretch=float(c["hs"]), horizontal_center_offset=int(c["hoff"]),
                vertical_bulge=float(c["vb"]), vertical_stretch=float(c["vs"]), vertical_center_offset=int(c["voff"]))


def rand_bs(rng, what):
    z = Fr(0)
    q = lambda: Fr(rng.randint(-4, 4), 256)  # noqa: E731
    c = dict(hb=z, hs=z, hoff=Fr(rng.randint(-1, 1)), vb=z, vs=z, voff=Fr(rng.randint(-1, 1)))
    if what in ("bulge", "both"):
        c["hb"], c["vb"] = q(), q()
    if what in ("stretch", "both"):
        c["hs"], c["vs"] = q(), q()
    return c


def corr_round4(ctx, d):
    rng = ctx.rng
    # --- _transform_coordinates through the public simple_curvature_correction: resampling the linear ramp fields X(i,j) = j and
    # Y(i,j) = i with linear interpolation returns the transformed coordinates themselves wherever they lie inside the array
    lines, vals, masks = [], [], []
    for i in range(ctx.pick(12, 120)):
        c = rand_bs(rng, ("bulge", "stretch", "both", "none")[i % 4])
        ny, nx = rng.randint(2, 7), rng.randint(2, 7)
        lines.append(f"tcoords {bs_tokens(c)} {nx} {ny}")

        def run():
            cc = d.CurvatureCorrection(config={}, interpolation_order=1)
            X, Y = np.meshgrid(np.arange(nx, dtype=np.float64), np.arange(ny, dtype=np.float64))
            return np.concatenate([cc.simple_curvature_correction(X, **bs_kwargs(c)).ravel(), cc.simple_curvature_correction(Y, **bs_kwargs(c)).ravel()])

        vals.append(call(run))
    got = ctx.model(lines)
    diffs, worst, compared = [], 0.0, 0
    for k, (g, v) in enumerate(zip(got, vals)):
        if isinstance(v, Raised) or g.startswith("!"):
            diffs.append(k)
            continue
        xs, ys = [[Fr(t) for t in part.split()] for part in g.split("|")]
        nx, ny = int(lines[k].split()[-2]), int(lines[k].split()[-1])
        v = np.asarray(v, float)
        if len(v) != 2 * len(xs):
            diffs.append(k)
            continue
        for idx, (x, y) in enumerate(zip(xs, ys)):
            if 0 <= x <= nx - 1 and 0 <= y <= ny - 1:  # inside: interpolation of the ramp is the coordinate itself
                compared += 1
                e = max(abs(v[idx] - float(x)), abs(v[len(xs) + idx] - float(y)))
                worst = max(worst, e)
                if e > 1e-4:
                    diffs.append(k)
                    break
    _c = ctx.cov.setdefault("correspondence", {})
    name = "CurvatureCorrection coordinate transform (bulge/stretch polynomial) via simple_curvature_correction on ramp fields (1e-4)"
    _c[name] = {"cases": len(lines), "disagreements": len(diffs), "compared_points": compared}
    ctx.cov.setdefault("measured_float_error", {})[name] = worst
    for l in lines:
        ctx.count((name, l))
    if diffs:
        k = diffs[0]
        ctx.mark("CORR-BROKEN", {"correspondence": name, "request": lines[k], "model": got[k][:300], "impl": str(vals[k])[:300], "n_diffs": len(diffs)})
        ctx.log(f"correspondence {name}: {len(diffs)} disagreements, e.g. {lines[k]}")
    # --- whole CurvatureCorrection.correct_array, interpolation order 0 and 1 (the default): stage pipeline, grid order,
    # resize_factor, in-memory cache over same- and other-shape histories, and the FILE cache shared by several objects
    import shutil

    lines, impl = [], []
    for i in range(ctx.pick(36, 300)):
        order = i % 2
        use_file = (i // 2) % 3 == 0
        stages = {"init": rand_bs(rng, "bulge") if i % 5 == 0 else None, "bulge": rand_bs(rng, "bulge") if i % 4 < 2 else None,
                  "stretch": rand_bs(rng, "stretch") if i % 3 != 1 else None}
        f = Fr(1) if i % 4 else Fr(rng.choice([2, 1]), rng.choice([1, 2]))
        shape = (rng.randint(2, 6), rng.randint(2, 6))
        mk = lambda sh: np.array([rng.randint(1, 99) for _ in range(sh[0] * sh[1])], dtype=np.float64).reshape(sh)  # noqa: E731
        hist = []
        for _ in range(rng.randint(0, 3)):
            sh = shape if rng.random() < 0.5 else (rng.randint(2, 6), rng.randint(2, 6))
            hist.append((bool(use_file and rng.random() < 0.5), mk(sh)))
        last_fresh = bool(use_file and rng.random() < 0.5)
        a = mk(shape)
        tok = lambda fr, x: f"{int(fr)} " + " ".join(str(n) for n in x.shape) + " " + " ".join(fmt(v) for v in x.ravel())  # noqa: E731
        lines.append(f"curv {order} {int(use_file)} {fmt(f)} "
                     + " ".join("1 " + bs_tokens(stages[k]) if stages[k] else "0" for k in ("init", "bulge", "stretch"))
                     + f" {len(hist)} " + " ".join(tok(fr, h) for fr, h in hist) + (" " if hist else "") + tok(last_fresh, a))

        def run():
            cfg = {k: {kk: vv for kk, vv in bs_kwargs(v).items()} for k, v in stages.items() if v}
            tmp = tempfile.mkdtemp(prefix="darsia-verif-c10-") if use_file else None
            try:
                if use_file:
                    cfg = dict(cfg, use_cache=True, cache=os.path.join(tmp, "grid.npy"))
                new = lambda: d.CurvatureCorrection(config=cfg, interpolation_order=order, resize_factor=float(f))  # noqa: E731
                cc = new()
                for fr, h in hist:
                    if fr:
                        cc = new()
                    cc.correct_array(h.copy())
                if last_fresh:
                    cc = new()
                out = np.asarray(cc.correct_array(a.copy()))
            finally:
                if tmp:
                    shutil.rmtree(tmp, ignore_errors=True)
            return " ".join(str(n) for n in out.shape) + " | " + " ".join(fmt(v) for v in out.ravel())

        r = call(run)
        impl.append(repr(r) if isinstance(r, Raised) else r)
    got = ctx.model(lines)
    diffs, masked, total, worst = [], 0, 0, 0.0
    for k, (g, v) in enumerate(zip(got, impl)):
        gt, vt = g.split(), str(v).split()
        if len(gt) != len(vt):
            diffs.append(k)
            continue
        for a_, b_ in zip(gt, vt):
            total += 1
            if a_ == "?":
                masked += 1
            elif a_ != b_:
                # order 1: interpolated values, the grid is float32 in the code -> 1e-3 absolute on payloads 1..99
                try:
                    e = abs(float(Fr(a_)) - float(Fr(b_)))
                except (ValueError, ZeroDivisionError):
                    e = 1.0
                worst = max(worst, e)
                if e > 1e-3 or lines[k].split()[1] == "0":
                    diffs.append(k)
                    break
    name = ("CurvatureCorrection.correct_array (order 0 exact / order 1 within 1e-3: stage pipeline, resize_factor, memory and file cache "
            "over same- and other-shape histories), breakpoint-aware")
    _c[name] = {"cases": len(lines), "disagreements": len(diffs), "masked_cells": masked, "cells": total}
    ctx.cov.setdefault("measured_float_error", {})[name] = worst
    for l in lines:
        ctx.count((name, l))
    if diffs:
        k = min(diffs, key=lambda q: len(lines[q]))
        ctx.mark("CORR-BROKEN", {"correspondence": name, "request": lines[k], "model": got[k][:300], "impl": str(impl[k])[:300], "n_diffs": len(diffs)})
        ctx.log(f"correspondence {name}: {len(diffs)} disagreements, e.g. {lines[k][:200]} model={got[k][:120]} impl={str(impl[k])[:120]}")
    # --- IlluminationCorrection
    lines, impl = [], []
    for i in range(ctx.pick(18, 150)):
        dt = ["u8", "f64", "u16"][i % 3]
        rgb = bool((i // 3) % 2)
        n0, n1 = rng.randint(1, 3), rng.randint(1, 3)
        a = rand_payload(rng, dt, (n0, n1, 3))
        if dt == "f64":
            a = np.abs(a)
        nsc = 3 if rgb else rng.choice([1, 3])
        hi = 12 if dt == "f64" else 8  # integer images: scalings <= 1, the store into the integer array must not overflow
        sc = [np.array([float(Fr(rng.randint(2, hi), 8)) for _ in range(n0 * n1)]).reshape(n0, n1) for _ in range(nsc)]
        lines.append(f"illum {int(rgb)} {dt} {n0} {n1} " + " ".join(fmt(v) for v in a.ravel()) + f" {nsc} "
                     + " ".join(" ".join(fmt(v) for v in x.ravel()) for x in sc))

        def run():
            c = d.IlluminationCorrection()
            c.colorspace = "rgb" if rgb else rng.choice(["hsl-scalar", "rgb-scalar", "gray"])
            c.local_scaling = [d.ScalarImage(x, dimensions=[1.0, 1.0]) for x in sc]
            out = c.correct_array(a.copy())
            return f"{DTN.get(out.dtype, out.dtype)} {n0} {n1} | " + " ".join(fmt(v) for v in out.ravel())

        r = call(run)
        impl.append(repr(r) if isinstance(r, Raised) else r)
    ctx.correspond("IlluminationCorrection.correct_array (channel choice by colour space, integer store), exact", lines, impl)
    # --- inactive ColorCorrection x every other option: img_as_float(.).astype(float32), no clipping
    lines, vals = [], []
    for i in range(ctx.pick(16, 96)):
        dt = ["f64", "u8", "u16", "f64"][i % 4]
        n0, n1 = rng.randint(1, 3), 3
        a = rand_payload(rng, dt, (n0, n1))
        if dt == "f64":
            a = a * 2.0  # dyadic values in [-2, 2]: outside [0, 1] and negative
        opts = dict(clip=bool(i % 2), whitebalancing=bool((i // 2) % 2), colorbalancing=("affine", "linear")[(i // 4) % 2],
                    balancing=("darsia", "colour")[(i // 8) % 2])
        lines.append(f"colinact {int(opts['clip'])} {int(opts['whitebalancing'])} {int(opts['colorbalancing'] == 'affine')} "
                     f"{int(opts['balancing'] == 'colour')} {dt} {arr_tokens(a)}")

        def run():
            cc = d.ColorCorrection(config=dict({"active": False, "roi": [[0, 0], [3, 0], [3, 5], [0, 5]]}, **opts))
            out = cc.correct_array(a.reshape(n0, 1, 3).copy() if False else a.copy())
            if out.dtype != np.float32 or out.shape != a.shape:
                raise TypeError(f"{out.dtype}{out.shape}")
            return "f64 " + " ".join(str(n) for n in out.shape) + " | " + " ".join(fmt(v) for v in out.ravel())

        r = call(run)
        vals.append(repr(r) if isinstance(r, Raised) else r)
    compare_lines(ctx, "ColorCorrection inactive x clip / whitebalancing / colorbalancing / balancing (float32 rounding: 1e-6)", lines, vals, float_rel=1e-6)
    # --- DriftCorrection (active) with the translation estimate stubbed
    lines, impl = [], []
    for i in range(ctx.pick(18, 150)):
        dt = ["u8", "f64", "u16"][i % 3]
        shape = (rng.randint(1, 5), rng.randint(1, 5))
        bshape = shape if i % 3 else (rng.randint(1, 5), rng.randint(1, 5))
        found = i % 7 != 0
        tx, ty = rng.randint(-3, 3), rng.randint(-3, 3)
        a = rand_payload(rng, dt, shape)
        lines.append(f"drift active {int(found)} {tx} {ty} {bshape[0]} {bshape[1]} {dt} {arr_tokens(a)}")

        def run():
            c = d.DriftCorrection(base=np.zeros(bshape, dtype=a.dtype), config={"active": True})
            seen = {}

            def est(img_src, img_dst, *args, **kw):
                seen["src"], seen["dst"] = np.array(img_src).copy(), np.asarray(img_dst).shape
                return (np.array([[1, 0, tx], [0, 1, ty]], dtype=np.float64), True) if found else (None, False)

            c.translation_estimator.find_effective_translation = est
            out = c.correct_array(a.copy())
            if not np.array_equal(seen.get("src"), a) or seen.get("dst") != tuple(bshape):
                raise TypeError("the estimator was not handed the image and the base")
            return show_arr(out)

        r = call(run)
        impl.append(repr(r) if isinstance(r, Raised) else r)
    ctx.correspond("DriftCorrection (active) with stubbed translation estimate: warp onto the base canvas / ValueError, exact", lines, impl)


# ---------------------------------------------------------------------------- concrete corrections


def _asfloat(a):
    import skimage

    return skimage.img_as_float(a)


def make_checker_image(d, scale, dtype, perturb):
    """synthetic 4x6 colour checker (classic reference swatches), each swatch scale x scale pixels"""
    from darsia.corrections.color.colorcorrection import ColorCheckerAfter2014

    ref = ColorCheckerAfter2014().swatches_rgb  # (4, 6, 3) in [0,1]
    A = np.eye(3) + perturb
    img = np.clip(np.kron(ref @ A, np.ones((scale, scale, 1))), 0, 1)
    if np.dtype(dtype) == np.uint8:
        return (img * 255).round().astype(np.uint8)
    return img.astype(dtype)


def configs(d, rng):
    """registry: name -> dict(build(shape_info)->correction, kinds, dtypes, neutral, conv, payload)"""
    regs = []

    def reg(name, build, kinds=KINDS, dtypes=("float64", "uint8", "float32", "uint16", "int64"), neutral=False,
            conv=None, dims=2, channels=(None, 3), min_extent=1, fixed_shape=None, tol=0.0, out_dtype=None, max_extent=7):
        regs.append(dict(max_extent=max_extent, out_dtype=out_dtype, name=name, build=build, kinds=kinds, dtypes=dtypes, neutral=neutral, conv=conv, dims=dims, tol=tol,
                         channels=channels, min_extent=min_extent, fixed_shape=fixed_shape))

    # --- type
    for dt, nm in ((np.float64, "float64"), (np.float32, "float32"), (np.uint8, "uint8"), (np.uint16, "uint16"), (float, "float")):
        reg(f"type({nm})", lambda info, dt=dt: d.TypeCorrection(dt), dtypes=("float64", "uint8", "float32", "uint16"), out_dtype=("floating" if dt is float else np.dtype(dt)))
    reg("type(neutral)", lambda info: d.TypeCorrection({"float64": np.float64, "float32": np.float32, "uint8": np.uint8,
                                                        "uint16": np.uint16}[info["dtype"]]),
        dtypes=("float64", "uint8", "float32", "uint16"), neutral=True)
    # --- rotation
    reg("rotation2d", lambda info: d.RotationCorrection(anchor=[info["shape"][0] // 2, info["shape"][1] // 2], rotations=[info["p"][0]]),
        conv=lambda a: a.astype(np.float64))
    reg("rotation2d(neutral)", lambda info: d.RotationCorrection(anchor=[info["shape"][0] // 2, info["shape"][1] // 2], rotations=[0.0]),
        neutral=True, conv=lambda a: a.astype(np.float64))
    reg("rotation3d", lambda info: d.RotationCorrection(anchor=[1, 1, 1], rotations=[(info["p"][0], "x"), (info["p"][1], "z")]),
        kinds=("array", "scalar", "series"), dims=3, channels=(None,), conv=lambda a: a.astype(np.float64))
    reg("rotation3d(neutral)", lambda info: d.RotationCorrection(anchor=[1, 1, 1], rotations=[(0.0, "x"), (0.0, "y"), (0.0, "z")]),
        kinds=("array", "scalar", "series"), dims=3, channels=(None,), neutral=True, conv=lambda a: a.astype(np.float64))

    # --- translation (cv2.warpAffine): matrix from a temporary .npy file (not an image file)
    def translation(mat):
        def build(info):
            fd, path = tempfile.mkstemp(suffix=".npy")
            os.close(fd)
            try:
                np.save(path, np.array(mat, dtype=np.float64))
                return d.TranslationCorrection(path)
            finally:
                os.remove(path)
        return build

    cvd = ("float64", "uint8", "float32", "uint16")
    reg("translation", translation([[1, 0, 1], [0, 1, 2]]), dtypes=cvd, min_extent=2)
    reg("translation(neutral)", translation([[1, 0, 0], [0, 1, 0]]), dtypes=cvd, neutral=True, min_extent=1)
    reg("translation(inactive)", lambda info: d.TranslationCorrection(None), dtypes=cvd, neutral=True, min_extent=1)
    # --- curvature
    zero_b = {"horizontal_bulge": 0.0, "horizontal_center_offset": 0, "vertical_bulge": 0.0, "vertical_center_offset": 0}
    zero_s = {"horizontal_stretch": 0.0, "horizontal_center_offset": 0, "vertical_stretch": 0.0, "vertical_center_offset": 0}
    reg("curvature(neutral)", lambda info: d.CurvatureCorrection(config={"bulge": dict(zero_b), "stretch": dict(zero_s)}),
        dtypes=cvd, neutral=True, min_extent=1)
    reg("curvature(empty config)", lambda info: d.CurvatureCorrection(config={}), dtypes=cvd, neutral=True, min_extent=1)
    reg("curvature", lambda info: d.CurvatureCorrection(config={"bulge": dict(zero_b, horizontal_bulge=1e-3, vertical_bulge=-5e-4),
                                                                  "stretch": dict(zero_s, horizontal_stretch=1e-3)}),
        dtypes=cvd, min_extent=3)
    # curvature with a crop: the only configuration that DECLARES a metadata update (dimensions / origin)
    def curv_crop(info):
        n0, n1 = info["shape"][:2]
        return d.CurvatureCorrection(config={"crop": {"pts_src": [[1, 1], [1, n0 - 2], [n1 - 2, n0 - 2], [n1 - 2, 1]],
                                                       "width": 1.5, "height": 0.75}})

    reg("curvature(crop)", curv_crop, dtypes=("float64", "uint8", "float32"), min_extent=8, max_extent=14)
    # --- drift
    reg("drift(inactive,roi,padding)", lambda info: d.DriftCorrection(base=np.zeros(info["shape"][:2]),
                                                                        config={"active": False, "padding": 0.1, "roi": (slice(0, 1), slice(0, 1))}), neutral=True)
    reg("drift(inactive)", lambda info: d.DriftCorrection(base=np.zeros(info["shape"][:2]), config={"active": False}), neutral=True)
    # --- transformation / affine / generalised perspective
    def transf(t):
        def build(info):
            src = d.Image(np.zeros(info["shape"][:2]), dimensions=[1.0, 1.0]).coordinatesystem
            T = d.AffineTransformation(2)
            p = d.make_voxel(np.zeros((2, 2)))
            T.set_dtype(p, p)
            T.set_parameters(np.array(t, dtype=float), 1.0, [0.0])
            return d.TransformationCorrection(src, src, T)
        return build

    reg("transformation(shift)", transf([1, -1]))
    reg("transformation(neutral)", transf([0, 0]), neutral=True)

    def fitted(cls, shift):
        def build(info):
            n0, n1 = info["shape"][:2]
            src = d.Image(np.zeros((n0, n1)), dimensions=[1.0, 1.0]).coordinatesystem
            # destination system: same voxel grid, other physical dimensions / origin (visible in the declared metadata update)
            dst = d.Image(np.zeros((n0, n1)), dimensions=[2.0, 3.0], origin=[-1.0, 4.0]).coordinatesystem
            pts = np.array([[0, 0], [n0, 0], [0, n1], [n0, n1]], dtype=float)
            return cls(src, dst, d.make_voxel(pts), d.make_voxel(pts + np.array(shift, float)), fit_options={"tol": 1e-6, "maxiter": 200})
        return build

    # transformations that operate in PHYSICAL coordinates, on voxel sizes that are not dyadic fractions
    def transf_coord(t):
        def build(info):
            n0, n1 = info["shape"][:2]
            src = d.Image(np.zeros((n0, n1)), dimensions=[0.1 * n0 * 0.7, 0.3 * n1 / 0.9]).coordinatesystem
            T = d.AffineTransformation(2)
            p = d.make_coordinate(np.zeros((2, 2)))
            T.set_dtype(p, p)
            T.set_parameters(np.array(t, dtype=float) * np.array([src.voxel_size["x"], -src.voxel_size["y"]]), 1.0, [0.0])
            return d.TransformationCorrection(src, src, T)
        return build

    reg("transformation(neutral,coordinates)", transf_coord([0, 0]), neutral=True)
    reg("transformation(shift,coordinates)", transf_coord([1, 1]))

    def fitted_iso(shift):
        def build(info):
            n0, n1 = info["shape"][:2]
            cs = d.Image(np.zeros((n0, n1)), dimensions=[0.1 * n0 * 0.7, 0.3 * n1 / 0.9]).coordinatesystem
            pts = np.array([[0, 0], [n0 - 1, 0], [0, n1 - 1], [n0 - 1, n1 - 1]], dtype=float)
            return d.AffineCorrection(cs, cs, d.make_voxel(pts), d.make_voxel(pts + np.array(shift, float)),
                                      fit_options={"isometry": True, "tol": 1e-8, "maxiter": 300})
        return build

    reg("affine(fitted neutral,isometry)", fitted_iso([0, 0]), neutral=True, min_extent=3)
    reg("affine(fitted shift,isometry)", fitted_iso([1, 0]), min_extent=3)
    reg("affine(fitted shift)", fitted(d.AffineCorrection, [1, 0]), min_extent=3)
    reg("affine(fitted neutral)", fitted(d.AffineCorrection, [0, 0]), min_extent=3)  # Voxel-typed fit: pre-images on breakpoints, not a neutral clause
    reg("generalized-perspective(fitted neutral)", fitted(d.GeneralizedPerspectiveCorrection, [0, 0]), min_extent=3)
    # --- colour
    inactive_conv = lambda a: _asfloat(a).astype(np.float32)  # noqa: E731
    for k, opts in enumerate([dict(clip=True), dict(clip=True, colorbalancing="linear", whitebalancing=False),
                              dict(clip=True, balancing="colour"), dict(clip=False, balancing="colour", colorbalancing="linear", verbosity=False)]):
        reg(f"colour(inactive,{','.join(f'{a}={b}' for a, b in opts.items())})",
            lambda info, opts=opts: d.ColorCorrection(config=dict({"active": False, "roi": [[0, 0], [3, 0], [3, 5], [0, 5]]}, **opts)),
            kinds=("array", "optical", "optical-series"), dtypes=("float64", "float32", "uint8", "uint16"), channels=(3,), neutral=True,
            conv=inactive_conv)
    reg("colour(inactive)", lambda info: d.ColorCorrection(config={"active": False, "roi": [[0, 0], [3, 0], [3, 5], [0, 5]]}),
        kinds=("array", "optical", "optical-series"), dtypes=("uint8", "uint16", "float32", "float64"), channels=(3,), neutral=True,
        conv=inactive_conv)

    def colour_active(mode):
        def build(info):
            n0, n1 = info["shape"][:2]
            return d.ColorCorrection(config={"roi": [[0, 0], [n0 - 1, 0], [n0 - 1, n1 - 1], [0, n1 - 1]], "colorbalancing": mode,
                                             "whitebalancing": True})
        return build

    reg("colour(active,affine)", colour_active("affine"), kinds=("array", "optical", "optical-series"), dtypes=("uint8", "float64"),
        channels=(3,), fixed_shape="checker", tol=1e-5)
    reg("colour(active,linear)", colour_active("linear"), kinds=("array", "optical"), dtypes=("float64",), channels=(3,),
        fixed_shape="checker", tol=1e-5)
    # --- illumination
    def illum(neutral):
        def build(info):
            c = d.IlluminationCorrection()
            c.colorspace = "hsl-scalar"
            n0, n1 = info["shape"][:2]
            s = np.ones((n0, n1)) if neutral else 1.0 + 0.25 * np.linspace(0, 1, n0 * n1).reshape(n0, n1)
            c.local_scaling = [d.ScalarImage(s, dimensions=[1.0, 1.0])]
            return c
        return build

    def illum_rgb(info):
        # colour space "rgb": one scaling image PER CHANNEL, all different
        c = d.IlluminationCorrection()
        c.colorspace = "rgb"
        n0, n1 = info["shape"][:2]
        ramp = np.linspace(0, 1, n0 * n1).reshape(n0, n1)
        c.local_scaling = [d.ScalarImage(1.0 + k * ramp, dimensions=[1.0, 1.0]) for k in (0.25, -0.5, 0.75)]
        return c

    reg("illumination(rgb)", illum_rgb, kinds=("array", "optical", "optical-series"), dtypes=("float64", "float32"), channels=(3,))
    reg("illumination", illum(False), kinds=("array", "optical", "optical-series"), dtypes=("float64", "float32"), channels=(3,))
    def illum_neutral_rgb(info):
        c = d.IlluminationCorrection()
        c.colorspace = "rgb"
        n0, n1 = info["shape"][:2]
        c.local_scaling = [d.ScalarImage(np.ones((n0, n1)), dimensions=[1.0, 1.0]) for _ in range(3)]
        return c

    reg("illumination(neutral,rgb)", illum_neutral_rgb, kinds=("array", "optical", "optical-series"), dtypes=("float64", "float32", "uint8"),
        channels=(3,), neutral=True)
    reg("curvature(neutral,order=3,resize_factor=2)",
        lambda info: d.CurvatureCorrection(config={"bulge": dict(zero_b), "stretch": dict(zero_s)}, interpolation_order=3, resize_factor=2.0),
        dtypes=("float64", "float32"), neutral=True, min_extent=4, tol=1e-6)
    reg("illumination(neutral)", illum(True), kinds=("array", "optical", "optical-series"), dtypes=("float64", "float32", "uint8"),
        channels=(3,), neutral=True)
    return regs


def gen_raw(rng, cfg, kind, dtype, seed):
    r = np.random.default_rng(seed)
    dims = cfg["dims"]
    lo = max(cfg["min_extent"], 1)
    if cfg["fixed_shape"] == "checker":
        scale = rng.choice([6, 8])
        space = (4 * scale, 6 * scale)
    else:
        space = tuple(rng.randint(max(lo, 2), max(cfg.get("max_extent", 7), lo)) if rng.random() < 0.85 else lo for _ in range(dims))
    optical = kind in ("optical", "optical-series") or (kind == "array" and cfg["channels"] == (3,)) or (
        kind == "array" and 3 in cfg["channels"] and rng.random() < 0.4)
    series = kind in ("series", "optical-series")
    T = rng.randint(2, 3) if series else None
    shape = space + ((T,) if series else ()) + ((3,) if optical else ())
    dt = np.dtype(dtype)
    if cfg["fixed_shape"] == "checker":
        pert = 0.1 * (r.random((3, 3)) - 0.5)
        base = None
        import darsia as d

        base = make_checker_image(d, space[0] // 4, dt, pert)
        if series:
            raw = np.stack([base, base[::1].copy()][:T] + [base] * max(0, T - 2), axis=2)
        else:
            raw = base
    elif dt.kind == "f":
        raw = r.random(shape).astype(dt)
        if cfg["neutral"] and rng.random() < 0.6:
            # neutral / inactive corrections must be the identity on ANY pixel values: outside [0, 1] and negative too
            raw = (2.0 * r.random(shape) - 0.5).astype(dt)
    elif dt.kind == "u":
        raw = r.integers(0, np.iinfo(dt).max, size=shape, endpoint=True).astype(dt)
    else:
        raw = r.integers(-1000, 1000, size=shape).astype(dt)
    return raw, space, optical, series, T


def make_input(d, kind, raw, space, optical, series, T):
    dim = len(space)
    dims = [0.5 * n for n in space]
    if kind == "array":
        return raw.copy()
    kw = dict(dimensions=dims, space_dim=dim, name="c10", origin=[0.25 * (k + 1) for k in range(dim)])
    if series:
        kw.update(series=True, time=[float(t) for t in range(T)])
    if optical:
        return d.OpticalImage(raw.copy(), **kw)
    if kind == "scalar":
        return d.ScalarImage(raw.copy(), **kw)
    return d.Image(raw.copy(), scalar=True, **kw)


def meta_equal(a, b):
    if set(a) != set(b):
        return False, f"keys {sorted(set(a) ^ set(b))}"
    for k in a:
        x, y = a[k], b[k]
        try:
            same = (x is None and y is None) or (x is not None and y is not None and np.array_equal(np.asarray(x), np.asarray(y)))
        except Exception:  # noqa: BLE001
            same = x == y
        if not same:
            return False, f"{k}: {x!r} != {y!r}"
    return True, ""


DEV = {"max": 0.0}


def data_equal(a, b, tol):
    if tol:
        if a.shape == b.shape:
            DEV["max"] = max(DEV["max"], float(np.abs(a.astype(np.float64) - b.astype(np.float64)).max()))
        return a.shape == b.shape and a.dtype == b.dtype and np.allclose(a, b, rtol=0, atol=tol, equal_nan=True)
    return a.shape == b.shape and np.array_equal(a, b, equal_nan=True)


def arr_equal(a, b):
    return isinstance(a, np.ndarray) and isinstance(b, np.ndarray) and a.shape == b.shape and a.dtype == b.dtype and np.array_equal(a, b, equal_nan=True)


def check_case(d, case, cfgs=None, rngmod=None):
    """returns list of (signature, what)"""
    import random

    cfgs = cfgs or {c["name"]: c for c in configs(d, random.Random(0))}
    cfg = cfgs[case["config"]]
    kind, ow, dtype = case["kind"], case["overwrite"], case["dtype"]
    rng = random.Random(case["seed"])
    raw, space, optical, series, T = gen_raw(rng, cfg, kind, dtype, case["seed"])
    info = dict(shape=raw.shape if not series else space + ((3,) if optical else ()), dtype=dtype,
                p=[rng.uniform(-1.0, 1.0) for _ in range(3)])
    info["shape"] = tuple(space) + ((3,) if optical else ())
    name = cfg["name"]
    sig0 = f"C10:{name}:{kind}:overwrite={int(ow)}"
    bad = []
    corr = call(cfg["build"], info)
    ref = call(cfg["build"], info)
    if isinstance(corr, Raised) or isinstance(ref, Raised):
        return [(f"C10:{name}:construct:raises", f"constructing the correction raises {corr}")]
    inp = call(make_input, d, kind, raw, space, optical, series, T)
    if isinstance(inp, Raised):
        return [("C10:harness:make_input", f"{inp} for shape {raw.shape}")]
    is_img = kind != "array"
    snap_meta = copy.deepcopy(inp.metadata()) if is_img else None
    declared = call(corr.correct_metadata, copy.deepcopy(snap_meta)) if is_img else {}
    if isinstance(declared, Raised):
        return [(f"C10:{name}:correct_metadata:raises", f"{declared}")]
    # OpenCV's process-global RNG (cv2.kmeans in the swatch extraction) is seeded before EACH compared call
    def seed_rng():
        try:
            import cv2

            cv2.setRNGSeed(int(case["seed"]) % 100000)
        except Exception:  # noqa: BLE001
            pass

    seed_rng()
    # expected data from an identically configured fresh correction on the raw array
    if series:
        exp_slices = []
        for t in range(T):
            sl = raw[..., t, :] if optical else raw[..., t]
            e = call(ref.correct_array, sl.copy())
            if isinstance(e, Raised):
                return [(f"C10:{name}:correct_array:raises({kind})", f"correct_array raises {e} on a {sl.dtype} slice of shape {sl.shape}")]
            exp_slices.append(e)
    else:
        exp = call(ref.correct_array, raw.copy())
        if isinstance(exp, Raised):
            return [(f"C10:{name}:correct_array:raises({kind})", f"correct_array raises {exp} on a {raw.dtype} array of shape {raw.shape}")]
    seed_rng()
    res = call(corr, inp, overwrite=ow)
    if isinstance(res, Raised):
        return [(f"{sig0}:raises", f"correction(image, overwrite={ow}) raises {res} although correct_array works on the raw array / slices")]
    # --- kind and identity
    if is_img:
        if type(res) is not type(inp):
            bad.append((f"{sig0}:kind-changed", f"result is {type(res).__name__}, input {type(inp).__name__}"))
            return bad
        if ow and res is not inp:
            bad.append((f"{sig0}:not-same-object", "overwrite=True did not return the very same object"))
        if not ow:
            if res is inp:
                bad.append((f"{sig0}:same-object", "overwrite=False returned the input object"))
            if not arr_equal(inp.img, raw):
                bad.append((f"{sig0}:input-modified", "overwrite=False modified the pixel data of the input image"))
            ok, why = meta_equal(inp.metadata(), snap_meta)
            if not ok:
                bad.append((f"{sig0}:input-metadata-modified", f"overwrite=False modified the input metadata ({why})"))
            if np.shares_memory(res.img, inp.img):
                bad.append((f"{sig0}:result-aliases-input", "result pixel data shares memory with the input image"))
        out = res.img
    else:
        if not isinstance(res, np.ndarray):
            return [(f"{sig0}:kind-changed", f"array in, {type(res).__name__} out")]
        if not ow and not arr_equal(inp, raw):
            bad.append((f"{sig0}:input-modified", "overwrite=False modified the input array"))
        if not ow and np.shares_memory(res, inp):
            bad.append((f"{sig0}:result-aliases-input", "result array shares memory with the input array"))
        out = res
    # --- data
    if series:
        ok = out.ndim == raw.ndim and out.shape[len(space)] == T
        if ok:
            for t in range(T):
                got = out[..., t, :] if optical else out[..., t]
                if not data_equal(got, exp_slices[t], cfg['tol']):
                    ok = False
                    break
        if not ok:
            bad.append((f"{sig0}:series-not-per-slice", f"time slice of the result differs from correct_array(slice); result shape {out.shape}"))
    else:
        if not (out.dtype == exp.dtype and data_equal(out, exp, cfg['tol'])):
            bad.append((f"{sig0}:data≠correct_array(raw)", f"result data {out.dtype}{out.shape} differs from correct_array(raw) {exp.dtype}{exp.shape}"))
    # --- declared result dtype (TypeCorrection: the requested type)
    od = cfg.get("out_dtype")
    if od is not None and (out.dtype.kind != "f" if isinstance(od, str) else out.dtype != od):
        bad.append((f"C10:{name}:{kind}:declared-dtype", f"result dtype {out.dtype}, declared {cfg['out_dtype']}"))
    # --- metadata
    if is_img:
        expect = copy.deepcopy(snap_meta)
        expect.update(declared)
        ok, why = meta_equal(res.metadata(), expect)
        if not ok:
            bad.append((f"{sig0}:metadata", f"result metadata is not the input's plus the declared update ({why})"))
    # --- neutral parameters
    if cfg["neutral"]:
        conv = cfg["conv"] or (lambda a: a)
        want = conv(raw)
        same = lambda w: out.shape == w.shape and np.allclose(out.astype(np.float64), w.astype(np.float64), rtol=0, atol=1e-6, equal_nan=True)  # noqa: E731
        # 'unchanged' = literally the input values, or the correction's declared dtype conversion of them
        if not (same(want) or same(raw)):
            bad.append((f"C10:{name}:{kind}:neutral-changes-pixels",
                        f"neutral parameters changed pixel values / shape: {raw.dtype}{raw.shape} -> {out.dtype}{out.shape}"))
    return bad


def check_history_case(d, case, cfgs=None):
    """purity across calls: a correction object that has already been applied to other arrays (also of ANOTHER shape) must return
    what an identically configured fresh object returns"""
    import random

    cfgs = cfgs or {c["name"]: c for c in configs(d, random.Random(0))}
    cfg = cfgs[case["config"]]
    rng = random.Random(case["seed"])
    name = cfg["name"]
    shapes = [tuple(x) for x in case["shapes"]]
    ch = (3,) if cfg["channels"] == (3,) else ()
    arrs = [np.random.default_rng(case["seed"] + k).random(sh + ch).astype(case["dtype"]) for k, sh in enumerate(shapes)]
    info = dict(shape=shapes[0] + ch, dtype=case["dtype"], p=[rng.uniform(-1.0, 1.0) for _ in range(3)])
    corr = call(cfg["build"], info)
    if isinstance(corr, Raised):
        return []
    for a in arrs[:-1]:
        r = call(corr.correct_array, a.copy())
        if isinstance(r, Raised):
            return []
    got = call(corr.correct_array, arrs[-1].copy())
    info2 = dict(info, shape=shapes[-1] + ch)
    fresh = call(cfg["build"], info2)
    exp = call(fresh.correct_array, arrs[-1].copy()) if not isinstance(fresh, Raised) else fresh
    if isinstance(exp, Raised):
        return []
    same_shape = all(sh == shapes[-1] for sh in shapes)
    tag = "same-shape" if same_shape else "other-shape"
    if isinstance(got, Raised):
        return [(f"C10:{name}:history({tag}):raises", f"after {len(arrs) - 1} earlier call(s) on shapes {shapes[:-1]} the call on {shapes[-1]} raises {got}")]
    if got.shape != exp.shape or not np.allclose(got, exp, rtol=0, atol=cfg["tol"] or 0, equal_nan=True):
        return [(f"C10:{name}:history({tag}):result-depends-on-earlier-calls",
                 f"after earlier call(s) on shapes {shapes[:-1]} the result for shape {shapes[-1]} is {got.shape}, a fresh object gives {exp.shape}"
                 + ("" if got.shape != exp.shape else " with other values"))]
    return []


def check_filecache_case(d, case):
    """CurvatureCorrection with use_cache=True: a grid file written by one object for arrays of shape A must not decide the result
    of another object (same config, same file) applied to an array of shape B"""
    import shutil

    shapes = [tuple(x) for x in case["shapes"]]
    cfgd = {"bulge": dict(horizontal_bulge=case["hb"], horizontal_stretch=0.0, horizontal_center_offset=0, vertical_bulge=0.0,
                          vertical_stretch=0.0, vertical_center_offset=0)}
    arrs = [np.random.default_rng(case["seed"] + k).random(sh) for k, sh in enumerate(shapes)]
    tmp = tempfile.mkdtemp(prefix="darsia-verif-c10-")
    try:
        path = os.path.join(tmp, "grid.npy")

        def run():
            outs = []
            for a in arrs:
                c = d.CurvatureCorrection(config=dict(cfgd, use_cache=True, cache=path))
                outs.append(c.correct_array(a.copy()))
            return outs[-1]

        got = call(run)
        exp = call(lambda: d.CurvatureCorrection(config=dict(cfgd)).correct_array(arrs[-1].copy()))
    finally:
        shutil.rmtree(tmp, ignore_errors=True)
    if isinstance(exp, Raised):
        return []
    tag = "same-shape" if all(sh == shapes[-1] for sh in shapes) else "other-shape"
    if isinstance(got, Raised):
        return [(f"C10:curvature(use_cache):file-cache({tag}):raises", f"{got}")]
    if got.shape != exp.shape or not np.allclose(got, exp, rtol=0, atol=1e-12):
        return [(f"C10:curvature(use_cache):file-cache({tag}):result-depends-on-cached-file",
                 f"grid file written for shape {shapes[0]}: the result for shape {shapes[-1]} is {got.shape}, without the file {exp.shape}")]
    return []


# Round-7 triage (false-alarm direction): failing inputs only from STATED clauses; model-tie clauses are TIE-BROKEN marks; clauses
# outside statement / quantifier are observations.
MARK_PATTERNS = (
    "in-place correct_array):input-modified",   # toy correction: no concrete correct_array writes through its argument
    ":declared-dtype",                           # TypeCorrection's target dtype is the model's tie, data == correct_array(raw) carries it
    "history(other-shape)", "file-cache(other-shape)", ":history(same-shape):raises", "file-cache(same-shape):raises",
    "BaseCorrection.__call__(toy):raises",
)
OBSERVE_PATTERNS = (":result-aliases-input", ":same-object")


def emit(ctx, sig, what, case):
    if any(p in sig for p in OBSERVE_PATTERNS):
        ctx.cov.setdefault("observations", {})[sig] = what
    elif any(p in sig for p in MARK_PATTERNS):
        if not any(m.get("correspondence") == sig for m in ctx.marks):
            ctx.mark("TIE-BROKEN", {"correspondence": sig, "what": what, "case": case})
    else:
        ctx.fail(sig, what, {"case": case, "observed": what})


def oracle(ctx, d):
    cfgl = configs(d, ctx.rng)
    cfgs = {c["name"]: c for c in cfgl}
    reps = ctx.pick(1, 6)
    skipped = {}
    for cfg in cfgl:
        for kind in cfg["kinds"]:
            if cfg["dims"] == 3 and kind in ("optical", "optical-series"):
                continue
            for ow in (False, True):
                for rep in range(reps):
                    dtype = cfg["dtypes"][(rep + (1 if ow else 0) + KINDS.index(kind) + ctx.seed) % len(cfg["dtypes"])]
                    case = dict(config=cfg["name"], kind=kind, overwrite=ow, dtype=dtype, seed=ctx.rng.randrange(10**9))
                    ctx.count((cfg["name"], kind, ow, dtype, rep))
                    bad = check_case(d, case, cfgs)
                    for sig, what in bad:
                        if sig.startswith("C10:harness"):
                            skipped[sig] = what
                            continue
                        emit(ctx, sig, what, case)
    # history dependence (objects with caches): shape-independent configurations, re-used on the same and on another shape
    for cname in ("curvature(neutral)", "curvature", "curvature(empty config)", "type(float64)", "drift(inactive)", "translation"):
        if cname not in cfgs or cname.startswith("illumination"):
            continue
        for rep in range(ctx.pick(2, 8)):
            lo = max(cfgs[cname]["min_extent"], 2)
            sh = (ctx.rng.randint(lo, 7), ctx.rng.randint(lo, 7))
            other = sh if rep % 2 == 0 else (ctx.rng.randint(lo, 7), ctx.rng.randint(lo, 7))
            case = dict(history=True, config=cname, shapes=[list(other), list(sh)], dtype="float64", seed=ctx.rng.randrange(10**9))
            ctx.count(("history", cname, rep))
            for sig, what in check_history_case(d, case, cfgs):
                emit(ctx, sig, what, case)
    for rep in range(ctx.pick(4, 16)):
        sh = (ctx.rng.randint(3, 7), ctx.rng.randint(3, 7))
        other = sh if rep % 2 == 0 else (ctx.rng.randint(3, 7), ctx.rng.randint(3, 7))
        case = dict(filecache=True, shapes=[list(other), list(sh)], hb=ctx.rng.choice([0.0, 1e-3, -2e-3]), seed=ctx.rng.randrange(10**9))
        ctx.count(("file-cache", rep))
        for sig, what in check_filecache_case(d, case):
            emit(ctx, sig, what, case)
    for i in range(ctx.pick(48, 240)):
        c = heap_toy_case(ctx.rng, i)
        ctx.count(("heap-toy", i))
        for sig, what in check_heap_case(d, c):
            emit(ctx, sig, what, dict(c, heap_toy=True))
    ctx.cov["colour_active_dev_max"] = DEV["max"]
    ctx.cov["configs"] = [c["name"] for c in cfgl]
    ctx.cov["classes_with_correct_array_series"] = sorted({type(x).__name__ for x in (call(c["build"], dict(shape=(24, 36, 3) if c["fixed_shape"] else ((4, 4, 4) if c["dims"] == 3 else (4, 4, 3)), dtype=c["dtypes"][0], p=[0.1, 0.2, 0.3])) for c in cfgl) if not isinstance(x, Raised) and hasattr(x, "correct_array_series")})
    ctx.cov["harness_skips"] = skipped


def replay(data):
    import darsia as d

    case = data.get("replay", {}).get("case", data.get("case"))
    if case is None:
        print(json.dumps(data, indent=1)[:4000])
        return 0
    bad = (check_heap_case(d, case) if case.get("heap_toy") else check_history_case(d, case) if case.get("history")
           else check_filecache_case(d, case) if case.get("filecache") else check_case(d, case))
    print("case:", json.dumps(case)[:600])
    for sig, what in bad:
        print("FAILS:", sig, "--", what)
    if not bad:
        print("holds on this input")
    return 1 if bad else 0


def run(ctx):
    import pathlib

    import darsia as d

    for f in sorted((pathlib.Path(__file__).resolve().parents[2] / "corpus" / "C10").glob("*.json")):
        case = json.loads(f.read_text()).get("replay", {}).get("case")
        if case:
            for sig, what in (check_heap_case(d, case) if case.get("heap_toy") else check_history_case(d, case) if case.get("history")
                              else check_filecache_case(d, case) if case.get("filecache") else check_case(d, case)):
                emit(ctx, sig, what, case)
    ctx.prove("C10")
    corr_workflow(ctx, d)
    corr_heap_workflow(ctx, d)
    corr_concrete(ctx, d)
    corr_round4(ctx, d)
    oracle(ctx, d)
    ctx.cov["explanation"] = CLAIM["text"]
    ctx.cov["rule"] = ("every registered correction configuration x supported input kinds x overwrite off/on x (quick 1 / thorough 6) random "
                       "shapes (extents 1..7, forced small) and dtypes; distinct = (configuration, kind, overwrite, dtype, repetition)")
    ctx.assumptions += [
        "an identically configured fresh correction applied to the raw array is the reference for `correct_array(raw)` (purity of correct_array is observed, not proved)",
        "corrections needing user interaction, image files or feature detection on real photographs (active drift, deformation, relative/experimental colour) are outside the quantifier",
    ]
