"""C14 - signal-to-data models obey their defining algebra.

Tie: (G1) the exponent enumeration and size of PolynomialApproximationSpace for d <= 8 (decoded from the real
basis functions evaluated at (2, 3)) and the dof dispatch of every model class over all dof subsets are tabulated
into DarsiaGen.SignalTables and compared with the Lean model by `decide`; random differential correspondence
(dyadic signals / parameters, exact) of ClipModel, ScalingModel, LinearModel, HeterogeneousLinearModel,
CombinedModel (call + parameter routing incl. error classes) and StaticThresholdModel against the Lean model.
Kernel interpolation is observed only (float32, exp, np.linalg.inv).
"""
from __future__ import annotations

import itertools
import json
import os
import tempfile
from fractions import Fraction
from pathlib import Path

_NUMBA_TMP = tempfile.mkdtemp(prefix="darsia-verif-numba-")
os.environ.setdefault("NUMBA_CACHE_DIR", _NUMBA_TMP)  # numba cache=True must not write next to the sources

import numpy as np  # noqa: E402

from ..lib.core import fmt, fmts  # noqa: E402
from ..lib.impl import Raised, call  # noqa: E402

LEVEL = "proof"
CLAIM = dict(
    category="proof",
    text="DarsiaProps.C14 over exact rationals, all inputs. Theorems with content: clip bounds / idempotence; scaling / linear affine, the "
    "isclose shortcut as an explicit guard |s-1| <= 1e-8+1e-5 with a theorem on either side; CombinedModel = sequential composition, stated on "
    "the executed model callAll, incl. the extra-argument branch of __call__ (callStages: a StaticThresholdModel part gets the mask, "
    "parameter models no extra argument); "
    "parameter routing for 'all' and every list of (position, dofs) entries as global consecutive slices (routing_all, "
    "routing_subset_slices); the label LOOP over np.unique(labels) with mask assignment as coded - HeterogeneousLinearModel, "
    "(over the unique labels of the ORIGINAL map, on the label map in force: a label dropped by a resize does not shift the others; "
    "hetero_call_after_any_history composes it with the label cache), label-wise StaticThresholdModel incl. the mask / return_float tail, "
    "the HeterogeneousModel wrapper - proved equal to the "
    "per-label homogeneous model / the clause 'strictly between the bounds inside the mask' (hetero_loop_eq_homog_on_label, "
    "threshold_ops_eq_clause, wrapper_loop_eq_model); the label map in force after any call sequence = nearest-neighbour resize of the "
    "ORIGINAL labels for OpenCV's index rule (exact floor, one below at tabulated double-rounding breakpoints); poly_span for all d; "
    "KernelInterpolation as a state machine: for ALL update sequences cached inverse and weights belong to the current kernel / "
    "supports / values, hence reproduction at the current supports when the current kernel matrix is invertible (abstract kernel, any "
    "field); the accumulation loop of linear_combination = plain kernel sum for every kernel function and the three signal shapes "
    "(guard: one weight per support, at least one support). "
    "Definitional (unfold the pointwise model, kept as clause forms): hetero_eq_homog_on_label, threshold_strict, threshold_hetero, "
    "wrapper_eq_model_on_label, hetero_result_type; routing_one / routing_subset restate the class dispatch restricted to one slice; "
    "dispatch_matches_code, poly_matches_code, resize_matches_code, cv2_rounding_points_ok are tie checks (generated table vs model). "
    "Tie: exact differential correspondence of the OPERATIONAL models on dyadic inputs for float64, float32, uint8, uint16 and int64 "
    "signals (values and element type of the result), error classes, update sequences; G1 tables (dof dispatch, exponents d <= 8, "
    "cv2 rounding points n,N <= 64, index maps <= 16); LinearKernel numba / plain loop exactly on dyadic float32.",
    note="oracle = stated clauses only: span by rank for degrees 0..4 (monomial order is a tie), per-label agreement exactly at the label map's shape "
    "(foreign shapes: some label's model per pixel; OpenCV regions are a tie), kernel reproduction through obj(x) along update sequences (fresh-object "
    "equality observed), failing inputs only for float64/float32/uint8/uint16 signals (other element types observed), update_model_parameters only "
    "(keyword update() observed). OBSERVED ONLY: exp (GaussianKernel), np.linalg.inv, float32 rounding and fastmath on non-dyadic data (reproduction 1e-4, numba vs "
    "plain sum 1e-5, on fresh objects and along update sequences incl. AdvancedKernelInterpolation); the kernel state machine's weights "
    "are compared with inv(K(key)) @ values for the key the model predicts (1e-6 cond). Not modelled: 3-D label volumes; Image inputs "
    "other than for ClipModel (behaviour recorded in the evidence); states after a raising update (recorded as observations); cv2 index rule beyond n,N = 64 (theorems "
    "hold for any rounding table of the stated form, the tie stops at 64). Known finding: KernelInterpolation.update_model_parameters "
    "with the kernel dof / default dofs.",
    technique="Lean 4 proof + G1 tabulation + differential correspondence + property oracle",
)

DOFS = ["min_value", "max_value", "scaling", "offset"]
LEAN_DOF = {"min_value": ".minValue", "max_value": ".maxValue", "scaling": ".scaling", "offset": ".offset"}
TOK_DOF = {"min_value": "min", "max_value": "max", "scaling": "sc", "offset": "off"}
KINDS = ["clip", "scaling", "linear", "het"]
KIND_DOFS = {"clip": ["min_value", "max_value"], "scaling": ["scaling"], "linear": ["scaling", "offset"], "het": ["scaling", "offset"]}
POLY_MAX = 8


# ---------------------------------------------------------------------------
# building real models from a description


F = Fraction


def dy(rng, lo=-16, hi=16, den=8):
    return Fraction(rng.randint(lo, hi), den)


def dz(rng):
    """update parameter: exactly 0 is a forced value (a falsy parameter must still be stored)"""
    return Fraction(0) if rng.random() < 0.2 else dy(rng)


def build(d, desc, labels):
    k = desc[0]
    if k == "clip":
        kw = {"min value": float(desc[1])}
        if desc[2] is not None:
            kw["max value"] = float(desc[2])
        return d.ClipModel(**kw)
    if k == "scaling":
        return d.ScalingModel(scaling=float(desc[1]))
    if k == "linear":
        return d.LinearModel(scaling=float(desc[1]), offset=float(desc[2]))
    if k == "het":
        return d.HeterogeneousLinearModel(labels, scaling=[float(x) for x in desc[2]], offset=[float(x) for x in desc[3]])
    raise ValueError(k)


def tok_model(desc):
    k = desc[0]
    if k == "clip":
        return f"clip {fmt(desc[1])} {'none' if desc[2] is None else fmt(desc[2])}"
    if k == "scaling":
        return f"scal {fmt(desc[1])}"
    if k == "linear":
        return f"lin {fmt(desc[1])} {fmt(desc[2])}"
    return f"het {desc[1]} {fmts(desc[2])} {fmts(desc[3])}"


def tok_spec(spec):
    if spec is None or spec == "all":
        return "all"
    names = [spec] if isinstance(spec, str) else list(spec)
    return f"names {len(names)} " + " ".join(TOK_DOF[n] for n in names)


def tok_upd(upd):
    if upd is None:
        return "skip"
    kind, dofs, ps = upd
    if kind == "all":
        return f"all {len(ps)} {fmts(ps)}".strip()
    return (f"sub {len(dofs)} " + " ".join(f"{p} {tok_spec(s)}" for p, s in dofs) + f" {len(ps)} {fmts(ps)}").strip()


NP_OF = {"f64": np.float64, "f32": np.float32, "f16": np.float16, "u8": np.uint8, "u16": np.uint16, "u32": np.uint32, "u64": np.uint64,
         "i8": np.int8, "i16": np.int16, "i32": np.int32, "i64": np.int64}
TOK_OF_NP = {"float64": "f64", "float32": "f32", "float16": "f16", "uint8": "u8", "uint16": "u16", "uint32": "u32", "uint64": "u64",
             "int8": "i8", "int16": "i16", "int32": "i32", "int64": "i64", "bool": "bool"}
INT_DTYPES = ("u8", "u16", "u32", "u64", "i8", "i16", "i32", "i64")
CORE_DTYPES = ("f64", "f32", "u8", "u16")  # "random signals ... Images": float arrays and raw 8/16-bit pixel data; the other element types are observed only
ALL_DTYPES = ["f64", "f64", "f32", "f16", "u8", "u16", "u32", "u64", "i8", "i16", "i32", "i64"]


def dtok(arr):
    return TOK_OF_NP.get(str(np.asarray(arr).dtype), "?" + str(np.asarray(arr).dtype))


def gen_value(rng, dt):
    """a signal value representable in the element type (integers for integer images, small dyadics otherwise)"""
    if dt == "u8":
        return Fraction(rng.choice([rng.randint(0, 255), rng.randint(0, 12), 201, 255]))
    if dt == "u16":
        return Fraction(rng.choice([rng.randint(0, 1000), rng.randint(0, 12), 65535]))
    if dt in ("u32", "u64"):
        # values stay below 2^17 so that chains of up to four dyadic models remain exact in float64 (2^31+5 made the model-vs-code
        # correspondence differ in the last bit on the unchanged tree for some seeds)
        return Fraction(rng.choice([rng.randint(0, 1000), rng.randint(0, 12), 70000]))
    if dt == "i8":
        return Fraction(rng.randint(-128, 127))
    if dt in ("i16", "i32", "i64"):
        return Fraction(rng.randint(-40, 300))
    if dt == "f16":
        return Fraction(rng.randint(-32, 32), 4)  # 11 mantissa bits
    return dy(rng, -32, 32, 16)


class Case:
    """models + optional update + signal (pixels with the index of their label; the request line carries label VALUES and the
    element type, the response the element type of the result and its values)"""

    def __init__(self, mode, models, upd, pix, label_values, shape, dtype="f64", channels=1):
        self.mode, self.models, self.upd, self.pix, self.label_values, self.shape = mode, models, upd, pix, label_values, shape
        self.dtype = dtype
        self.channels = channels  # > 1: signal of shape (H, W, C) with a 2-D label map; pix lists the C values of a pixel consecutively

    def line(self):
        return (f"run {self.mode} {self.dtype} {len(self.models)} " + " ".join(tok_model(m) for m in self.models) + " | " + tok_upd(self.upd)
                + f" | {len(self.pix)} " + " ".join(f"{self.label_values[l] if l < len(self.label_values) else l} {fmt(v)}" for l, v in self.pix))

    def arrays(self):
        lab = np.array([self.label_values[l] for l, _ in self.pix[:: self.channels]], dtype=np.int64).reshape(self.shape)
        full = tuple(self.shape) + ((self.channels,) if self.channels > 1 else ())
        sig = np.array([float(v) for _, v in self.pix], dtype=float).reshape(full).astype(NP_OF[self.dtype])
        return lab, sig

    def run_impl(self, d):
        lab, sig = self.arrays()
        objs = [build(d, m, lab) for m in self.models]
        target = d.CombinedModel(objs) if self.mode == "comb" else objs[0]
        if self.upd is not None:
            kind, dofs, ps = self.upd
            arr = np.array([float(p) for p in ps], dtype=float)
            if self.mode == "comb":
                r = call(target.update_model_parameters, arr) if kind == "all" and dofs is None else call(
                    target.update_model_parameters, arr, "all" if kind == "all" else [(p, s) for p, s in dofs])
            else:
                r = call(target.update_model_parameters, arr, None if dofs is None and kind == "all" else ("all" if kind == "all" else dofs[0][1]))
            if isinstance(r, Raised):
                return repr(r)  # the state after a raising update is not part of C14: only the error class is compared
        out = call(target, sig.copy())
        if isinstance(out, Raised):
            return repr(out)
        out = np.asarray(out)
        if out.shape != sig.shape:
            return "!shape"
        return dtok(out) + " " + fmts(out.ravel())


def gen_models(rng, n, L, near_one=True):
    ms = []
    for _ in range(n):
        k = rng.choice(KINDS)
        if k == "clip":
            lo = dy(rng)
            hi = rng.choice([None, lo + dy(rng, 0, 24), lo + dy(rng, 0, 24), lo + dy(rng, 4, 24), dy(rng)])
            ms.append(("clip", lo, hi))
        elif k == "scaling":
            # values inside the isclose(scaling, 1) band exercise the shortcut (model = code as it is); the oracle
            # stays outside the band, where returning x and returning scaling * x are distinguishable and both affine
            band = [F(1) + F(1, 2**20), F(1) - F(1, 2**17)] if near_one else []
            ms.append(("scaling", rng.choice([dy(rng), dy(rng), F(1), F(1) + F(1, 2**16)] + band)))
        elif k == "linear":
            # unit slope with a non-zero offset is a forced value (a shortcut for scaling == 1 must still add the offset out of place)
            ms.append(("linear", Fraction(1) if rng.random() < 0.2 else dy(rng), dy(rng) if rng.random() < 0.8 else Fraction(rng.choice([1, -3, 5]), 4)))
        else:
            ms.append(("het", L, [dy(rng) for _ in range(L)], [dy(rng) for _ in range(L)]))
    return ms


def f32_safe(rng, models):
    """float32 (24 mantissa bits): keep every parameter a small dyadic so that two models in a row stay exact"""
    return [("scaling", dy(rng)) if m[0] == "scaling" and m[1].denominator > 16 else m for m in models]


def n_params(m):
    return {"clip": 2, "scaling": 1, "linear": 2}.get(m[0]) or 2 * m[1]


def n_selected(m, names):
    per = m[1] if m[0] == "het" else 1
    return per * len(set(names))


def gen_case(rng, malformed=False):
    L = rng.randint(1, 5)
    shape = (rng.randint(1, 3), rng.randint(max(1, (L + 2) // 3), 4))
    while shape[0] * shape[1] < L:
        shape = (shape[0] + 1, shape[1])
    npx = shape[0] * shape[1]
    labs = list(range(L)) + [rng.randrange(L) for _ in range(npx - L)]
    rng.shuffle(labs)
    label_values = sorted(rng.sample(range(0, 40), L))
    dtype = rng.choice(ALL_DTYPES)
    pix = [(l, gen_value(rng, dtype)) for l in labs]
    mode = rng.choice(["comb", "comb", "comb", "single"])
    # float32 has 24 mantissa bits: at most two models in a row keep every intermediate value exact
    models = gen_models(rng, 1 if mode == "single" or dtype == "f16" else rng.randint(1, 2 if dtype == "f32" else 4), L)
    if dtype in ("f32", "f16"):
        models = f32_safe(rng, models)
    if not any(m[0] == "het" for m in models) and rng.random() < 0.6:
        # label-free models take signals of any dimensionality: 1-D pixel lists and 3-D arrays
        shape = rng.choice([(rng.randint(1, 7),), (rng.randint(1, 3), rng.randint(1, 3), rng.randint(1, 3))])
        npx = int(np.prod(shape))
        pix = [(0, gen_value(rng, dtype)) for _ in range(npx)]
        label_values = [0]
    choice = rng.random()
    upd = None
    if choice < 0.25:
        upd = None
    elif choice < 0.5 or mode == "single" and choice < 0.6:
        need = sum(n_params(m) for m in models)
        extra = rng.choice([0, 0, 1, 3])
        if malformed:
            need = max(0, need - rng.randint(1, 2))
            extra = 0
        upd = ("all", None if rng.random() < 0.5 else "all", [dz(rng) for _ in range(need + extra)])
    else:
        entries = []
        poss = list(range(len(models)))
        for pos in ([0] if mode == "single" else sorted(rng.sample(poss, rng.randint(1, len(poss))))):
            kd = KIND_DOFS[models[pos][0]]
            names = rng.sample(kd, rng.randint(1, len(kd)))
            if malformed and rng.random() < 0.5:
                names = rng.sample(DOFS, rng.randint(0, 3))
            spec = names[0] if len(names) == 1 and rng.random() < 0.3 and mode == "comb" else names
            if rng.random() < 0.1:
                spec = "all"
            entries.append((pos, spec))
        if mode == "comb" and rng.random() < 0.3:
            rng.shuffle(entries)
        if malformed and mode == "comb" and rng.random() < 0.3:
            entries.append((len(models) + rng.randint(0, 1), "all"))
        need = 0
        for pos, spec in entries:
            if pos < len(models):
                need += n_params(models[pos]) if spec == "all" else n_selected(models[pos], [spec] if isinstance(spec, str) else spec)
        extra = rng.choice([0, 0, 2])
        if malformed and rng.random() < 0.5:
            need, extra = max(0, need - 1), 0
        upd = ("sub", entries, [dz(rng) for _ in range(need + extra)])
    channels = 1
    if any(m[0] == "het" for m in models) and rng.random() < 0.3:
        channels = rng.choice([2, 3])  # (H, W, C) signal, 2-D labels: the mask of a label selects all channels of its pixels
        pix = [(l, gen_value(rng, dtype)) for l, _ in pix for _ in range(channels)]
    return Case(mode, models, upd, pix, label_values, shape, dtype, channels)


# ---------------------------------------------------------------------------
# thresholding lines


def gen_thr(rng, d):
    L = rng.randint(1, 5)
    shape = (rng.randint(1, 3), rng.randint(2, 4))
    while shape[0] * shape[1] < L:
        shape = (shape[0] + 1, shape[1])
    npx = shape[0] * shape[1]
    labs = list(range(L)) + [rng.randrange(L) for _ in range(npx - L)]
    rng.shuffle(labs)
    label_values = sorted(rng.sample(range(0, 40), L))
    sdt = rng.choice(ALL_DTYPES)
    vals = [dy(rng, -8, 24, 16) if sdt in ("f64", "f32", "f16") else Fraction(rng.randint(0, 3)) for _ in range(npx)]
    mask = None if rng.random() < 0.4 else [rng.random() < 0.6 for _ in range(npx)]
    het = rng.random() < 0.6
    as_float = rng.random() < 0.4  # return_float may change the dtype, never the selection - with or without a mask
    lab = np.array([label_values[l] for l in labs]).reshape(shape)
    sig = np.array([float(v) for v in vals]).reshape(shape).astype(NP_OF[sdt])
    if het:
        lo = [dy(rng, 0, 8, 16) for _ in range(L)]
        # include bounds equal to pixel values so strictness is exercised
        for i in range(L):
            if rng.random() < 0.4:
                lo[i] = rng.choice(vals)
        hi = None if rng.random() < 0.3 else [rng.choice([l + dy(rng, 0, 16, 16), rng.choice(vals)]) for l in lo]
        line = f"thr het {L} {fmts(lo)} " + ("none" if hi is None else "some " + fmts(hi)) + (" 1" if as_float else " 0")
        model = call(d.StaticThresholdModel, [float(x) for x in lo], None if hi is None else [float(x) for x in hi], lab, as_float)
    else:
        lo = rng.choice([dy(rng, 0, 8, 16), rng.choice(vals)])
        hi = rng.choice([None, lo + dy(rng, 0, 16, 16), rng.choice(vals)])
        line = f"thr hom {fmt(lo)} {'none' if hi is None else fmt(hi)} {1 if as_float else 0}"
        model = call(d.StaticThresholdModel, float(lo), None if hi is None else float(hi), None, as_float)
    line += " | " + ("nomask" if mask is None else "mask " + " ".join("1" if b else "0" for b in mask))
    line += f" | {npx} " + " ".join(f"{label_values[l]} {fmt(v)}" for l, v in zip(labs, vals))
    if isinstance(model, Raised):
        return line, repr(model), dict(lo=lo, hi=hi, het=het)
    out = call(model, sig) if mask is None else call(model, sig, np.array(mask).reshape(shape))
    if isinstance(out, Raised):
        impl = repr(out)
    else:
        out = np.asarray(out)
        if out.dtype.kind not in "fbiu" or not np.all((out == 0) | (out == 1)):
            impl = "!values"
        else:
            impl = "!shape" if out.shape != shape else dtok(out) + " " + " ".join("1" if b else "0" for b in out.ravel())
    # the statement itself, evaluated directly
    want = []
    for i, (l, v) in enumerate(zip(labs, vals)):
        a = lo[l] if het else lo
        b = None if hi is None else (hi[l] if het else hi)
        want.append(a < v and (b is None or v < b) and (mask is None or mask[i]))
    return line, impl, dict(want=" ".join("1" if b else "0" for b in want), shape=shape, het=het, return_float=as_float, masked=mask is not None)


# ---------------------------------------------------------------------------
# G1 tables


def decode_exponent(v):
    """value of x^i y^j at (2, 3) -> (i, j)"""
    n = int(round(float(v)))
    if n <= 0 or float(v) != n:
        return None
    i = j = 0
    while n % 2 == 0:
        n //= 2
        i += 1
    while n % 3 == 0:
        n //= 3
        j += 1
    return (i, j) if n == 1 else None


def tabulate_poly(d):
    tab, sizes = {}, {}
    for deg in range(POLY_MAX + 1):
        sp = call(d.PolynomialApproximationSpace, deg)
        size = call(lambda: int(sp.size)) if not isinstance(sp, Raised) else sp
        sizes[deg] = size
        if isinstance(size, Raised):
            tab[deg] = size
            continue
        ex = []
        for k in range(size):
            v = call(sp.basis, np.array([[2.0, 3.0]]), k)
            e = None if isinstance(v, Raised) else decode_exponent(np.asarray(v).ravel()[0])
            ex.append(e)
        tab[deg] = ex
    return tab, sizes


def sample_model(d, kind):
    lab = np.array([[3, 7], [7, 3]])
    return {"clip": lambda: d.ClipModel(), "scaling": lambda: d.ScalingModel(), "linear": lambda: d.LinearModel(),
            "het": lambda: d.HeterogeneousLinearModel(lab)}[kind]()


def tabulate_dispatch(d):
    """return value / error class of update_model_parameters for every model class x dof subset (enough parameters)"""
    tab = {}
    subsets = [list(c) for r in range(len(DOFS) + 1) for c in itertools.combinations(DOFS, r)]
    for kind in KINDS:
        for spec in [None, "all"] + subsets:
            m = sample_model(d, kind)
            r = call(m.update_model_parameters, np.arange(1.0, 9.0), spec)
            if not isinstance(r, Raised):
                r = int(r) if isinstance(r, (int, np.integer)) and not isinstance(r, bool) else None
            tab[(kind, "none" if spec is None else spec if isinstance(spec, str) else tuple(spec))] = r
    return tab, subsets


NEAR_MAX = 16   # full index maps (Lean cross-check table)
NEAR_DEV_MAX = 64   # rounding points tabulated for all sizes up to this


def tabulate_nearest():
    """index maps of cv2.resize(INTER_NEAREST) along columns and along rows, for all sizes n -> N up to NEAR_MAX"""
    import cv2

    tab = []
    for n in range(1, NEAR_MAX + 1):
        for N in range(1, NEAR_MAX + 1):
            a = np.arange(n, dtype=np.int32)
            cols = call(lambda: cv2.resize(a.reshape(1, n), (N, 1), interpolation=cv2.INTER_NEAREST)[0].tolist())
            rows = call(lambda: cv2.resize(a.reshape(n, 1), (1, N), interpolation=cv2.INTER_NEAREST)[:, 0].tolist())
            tab.append((n, N, [] if isinstance(cols, Raised) else cols, [] if isinstance(rows, Raised) else rows))
    return tab


def tabulate_near_dev(ctx=None):
    """rounding points (n, N, x) where cv2's index is the exact floor(x n / N) minus one; everything else must be the exact index"""
    import cv2

    dev, bad = [], []
    for n in range(1, NEAR_DEV_MAX + 1):
        a = np.arange(n, dtype=np.int32)
        for N in range(1, NEAR_DEV_MAX + 1):
            cols = call(lambda: cv2.resize(a.reshape(1, n), (N, 1), interpolation=cv2.INTER_NEAREST)[0].tolist())
            rows = call(lambda: cv2.resize(a.reshape(n, 1), (1, N), interpolation=cv2.INTER_NEAREST)[:, 0].tolist())
            if isinstance(cols, Raised) or isinstance(rows, Raised) or cols != rows:
                bad.append((n, N, "rows != cols / raises"))
                continue
            for x, got in enumerate(cols):
                ex = min(x * n // N, n - 1)
                if got == ex - 1:
                    dev.append((n, N, x))
                elif got != ex:
                    bad.append((n, N, x, got, ex))
    if bad and ctx is not None:
        ctx.mark("TIE-BROKEN", {"cv2_nearest": "index map is neither the exact floor nor one below it", "first": list(map(str, bad[:3])), "n": len(bad)})
    return dev


def emit(poly, sizes, disp, subsets, near=(), dev=()):
    L = ["import DarsiaModel.SignalModels", "namespace Darsia.Gen", "open Darsia Darsia.Sig", ""]
    L.append(f"def polyDegrees : List Nat := [{', '.join(str(k) for k in sorted(poly))}]")
    L.append("/-- exponents of basis function k of PolynomialApproximationSpace(d), decoded from basis((2,3), k); `none`: undecodable -/")
    L.append("def polyTable : Nat → List (Option (Nat × Nat))")
    for deg, ex in sorted(poly.items()):
        if isinstance(ex, Raised):
            L.append(f"  | {deg} => [none]")
        else:
            L.append(f"  | {deg} => [" + ", ".join("none" if e is None else f"some ({e[0]}, {e[1]})" for e in ex) + "]")
    L += ["  | _ => []", "", "def polySizeTable : Nat → Option Nat"]
    for deg, s in sorted(sizes.items()):
        L.append(f"  | {deg} => " + ("none" if isinstance(s, Raised) else f"some {s}"))
    L += ["  | _ => none", ""]
    L.append("def dofSubsets : List (List Dof) := [" + ", ".join("[" + ", ".join(LEAN_DOF[n] for n in s) + "]" for s in subsets) + "]")
    L.append("")
    L.append("/-- `update_model_parameters(arange(1,9), dofs)` per model class: returned count of consumed parameters / error class -/")
    L.append("def dispatchTable : Kind → Option (List Dof) → Except Err (Option Nat)")
    for (kind, spec), r in disp.items():
        if spec == "all":
            continue  # "all" and None are emitted together below
        key = "none" if spec == "none" else "(some [" + ", ".join(LEAN_DOF[n] for n in spec) + "])"
        val = f".error .{r.cls}" if isinstance(r, Raised) else (".ok none" if r is None else f".ok (some {r})")
        L.append(f"  | .{kind}, {key} => {val}")
    L += ["  | _, _ => .error .other", ""]
    L.append('/-- the spelling `dofs="all"` -/')
    L.append("def dispatchAll : Kind → Except Err (Option Nat)")
    for kind in KINDS:
        r = disp[(kind, "all")]
        L.append(f"  | .{kind} => " + (f".error .{r.cls}" if isinstance(r, Raised) else (".ok none" if r is None else f".ok (some {r})")))
    L += ["", "/-- (n, N, source index per destination index along columns, along rows) of cv2.resize INTER_NEAREST -/",
          "def nearTable : List (Nat × Nat × List Nat × List Nat) := ["]
    L.append(",\n".join(f"  ({n}, {N}, {c}, {r})" for n, N, c, r in near))
    L += ["]", "", f"/-- rounding points (n, N, x) of cv2.resize INTER_NEAREST for all n, N <= {NEAR_DEV_MAX}: index = exact floor(x n / N) - 1 there -/",
          "def nearDev : Dev := [" + ", ".join(f"({n}, {N}, {x})" for n, N, x in dev) + "]"]
    L += ["", "end Darsia.Gen"]
    return "\n".join(L) + "\n"


# ---------------------------------------------------------------------------
# oracle: the statement evaluated on the implementation


def ref_apply(models, pix, shortcut=True):
    """direct transcription of the models' defining formulas on exact rationals"""
    out = []
    for l, v in pix:
        for m in models:
            if m[0] == "clip":
                v = max(v, m[1])
                if m[2] is not None:
                    v = min(v, m[2])
            elif m[0] == "scaling":
                v = v if shortcut and abs(m[1] - 1) <= Fraction(1001, 10**8) else m[1] * v
            elif m[0] == "linear":
                v = m[1] * v + m[2]
            else:
                v = m[2][l] * v + m[3][l]
        out.append(v)
    return out


def ref_route(models, entries, ps):
    """specification of routing: entry t receives the next k_t parameters; canonical order inside a model"""
    models = [list(m) for m in models]
    off = 0
    for pos, spec in entries:
        m = models[pos]
        names = KIND_DOFS[m[0]] if spec in (None, "all") else ([spec] if isinstance(spec, str) else list(spec))
        per = m[1] if m[0] == "het" else 1
        for n in [x for x in KIND_DOFS[m[0]] if x in names]:
            sl = ps[off: off + per]
            off += per
            if m[0] == "clip":
                m[1 if n == "min_value" else 2] = sl[0]
            elif m[0] == "scaling":
                m[1] = sl[0]
            elif m[0] == "linear":
                m[1 if n == "scaling" else 2] = sl[0]
            else:
                m[2 if n == "scaling" else 3] = list(sl)
    return [tuple(m) for m in models]


def oracle_models(ctx, d):
    rng = ctx.rng
    probe_vals = [Fraction(k, 4) for k in range(-12, 13)]

    def mk_case(models, upd, L, dtype="f64"):
        labs = [i % L for i in range(len(probe_vals))]
        if dtype in ("f64", "f32", "f16"):
            vals = probe_vals
        elif dtype == "i8":
            vals = [Fraction(v) for v in range(-12, 13)]
        else:
            vals = [Fraction(v) for v in (list(range(0, 22)) + [100, 201, 255])]
        return Case("comb", models, upd, list(zip(labs, vals)), [5 * (i + 1) for i in range(L)], (5, 5), dtype)

    # (a) clip bounds / idempotence / Image in -> Image out, argument untouched
    for _ in range(ctx.pick(20, 200)):
        lo = dy(rng)
        hi = lo + dy(rng, 0, 24)
        x = np.array([float(dy(rng, -64, 64, 16)) for _ in range(12)]).reshape(3, 4)
        m = d.ClipModel(**{"min value": float(lo), "max value": float(hi)})
        y = call(m, x.copy())
        ctx.count(("clip", lo, hi))
        if isinstance(y, Raised) or not (np.all(y >= float(lo)) and np.all(y <= float(hi))):
            ctx.fail("C14:ClipModel.__call__:bounds", "clipped values leave [min, max]", {"min": str(lo), "max": str(hi), "signal": x.tolist()})
        elif not np.array_equal(call(m, y), y):
            ctx.fail("C14:ClipModel.__call__:idempotent", "clip(clip(x)) != clip(x)", {"min": str(lo), "max": str(hi), "signal": x.tolist()})
    img = d.Image(np.arange(6.0).reshape(2, 3), dimensions=[1.0, 1.0])
    out = call(d.ClipModel(**{"min value": 1.0, "max value": 4.0}), img)
    vals_out = None if isinstance(out, Raised) else np.asarray(getattr(out, "img", out), dtype=float)
    if vals_out is None or vals_out.shape != (2, 3) or not (np.all(vals_out >= 1.0) and np.all(vals_out <= 4.0)):
        ctx.fail("C14:ClipModel.__call__(Image):bounds", "Image input: clipped values leave [min, max]", {"observed": repr(out)[:100]})
    else:
        ctx.cov["clip_image_observed"] = {"returns_Image": isinstance(out, d.Image), "argument_untouched": bool(np.array_equal(img.img, np.arange(6.0).reshape(2, 3))),
                                          "values_equal_np_clip": bool(np.array_equal(vals_out, np.clip(np.arange(6.0).reshape(2, 3), 1, 4)))}

    # (b) affine: m(t x + (1-t) y) = t m(x) + (1-t) m(y), exactly on dyadics
    for _ in range(ctx.pick(30, 300)):
        s, o, t = dy(rng), dy(rng), Fraction(rng.randint(-4, 8), 4)
        x = np.array([float(dy(rng, -32, 32, 8)) for _ in range(6)])
        y = np.array([float(dy(rng, -32, 32, 8)) for _ in range(6)])
        for name, m in (("LinearModel", d.LinearModel(scaling=float(s), offset=float(o))), ("ScalingModel", d.ScalingModel(scaling=float(s)))):
            ctx.count((name, s, o, t))
            lhs = call(m, float(t) * x + float(1 - t) * y)
            rhs = float(t) * np.asarray(call(m, x)) + float(1 - t) * np.asarray(call(m, y))
            if isinstance(lhs, Raised) or not np.array_equal(lhs, rhs):
                ctx.fail(f"C14:{name}.__call__:affine", "model is not affine in the signal", {"scaling": str(s), "offset": str(o), "t": str(t), "x": x.tolist(), "y": y.tolist()})

    # (c) combined == parts applied one after the other; (e) heterogeneous == homogeneous on every label
    for _ in range(ctx.pick(30, 300)):
        L = rng.randint(1, 5)
        models = gen_models(rng, rng.randint(1, 4), L, near_one=False)
        cdt = rng.choice(list(CORE_DTYPES) * 2 + ALL_DTYPES)  # mostly the element types of the quantifier
        if cdt in ("f32", "f16"):
            models = f32_safe(rng, models[: 2 if cdt == "f32" else 1])  # exact in 24 / 11 mantissa bits
        c = mk_case(models, None, L, cdt)
        lab, sig = c.arrays()
        objs = [call(build, d, m, lab) for m in models]
        ctx.count(("compose", c.dtype, tuple(map(str, models))))
        if any(isinstance(o, Raised) for o in objs):
            ctx.fail("C14:model-constructor:raises", "a model cannot be constructed", {"models": [tok_model(m) for m in models]})
            continue
        comb = call(d.CombinedModel(objs), sig.copy())
        seq = sig.copy()
        for o in objs:
            seq = call(o, seq)
            if isinstance(seq, Raised):
                break
        if isinstance(seq, Raised) and c.dtype not in CORE_DTYPES:
            ctx.cov.setdefault("exotic_dtype_observations", {})[c.dtype] = f"a model raises {seq!r} on this element type (outside the quantifier: observation)"
            continue
        if isinstance(seq, Raised):
            cls = type(objs[[isinstance(o, d.HeterogeneousLinearModel) for o in objs].index(True)]).__name__ if any(isinstance(o, d.HeterogeneousLinearModel) for o in objs) else "model"
            ctx.fail(f"C14:{cls}.__call__:raises", f"{cls}.__call__ raises {seq} on a plain signal of the label map's shape",
                     {"line": c.line(), "observed": repr(seq)})
            continue
        if isinstance(comb, Raised) or not np.array_equal(comb, seq):
            ctx.fail("C14:CombinedModel.__call__:composition", "combined model differs from applying its parts in order", {"line": c.line()})
        want = np.array([float(v) for v in ref_apply(models, c.pix)]).reshape(c.shape)
        want2 = np.array([float(v) for v in ref_apply(models, c.pix, shortcut=False)]).reshape(c.shape)
        if c.dtype not in CORE_DTYPES:
            if not np.array_equal(np.asarray(seq), want):
                ctx.cov.setdefault("exotic_dtype_observations", {})[c.dtype] = "result differs from the defining formula (element type outside the quantifier: observation)"
        elif not np.array_equal(np.asarray(seq), want) and not np.array_equal(np.asarray(seq), want2):
            ctx.fail(f"C14:models:defining-formula(dtype={c.dtype})", "model output differs from its defining formula (label-wise = homogeneous per label)",
                     {"line": c.line(), "observed": np.asarray(seq).ravel().tolist()[:8], "required": want.ravel().tolist()[:8]})

    # (e-dtype) label-wise linear model vs the real homogeneous LinearModel of each label, region by region, for every element type
    for dt in ("u8", "u16", "u32", "u64", "i8", "i16", "i32", "i64", "f16", "f32", "f64"):
        for _ in range(ctx.pick(2, 20)):
            L = rng.randint(1, 4)
            sc, of = [Fraction(1) if rng.random() < 0.3 else dy(rng) for _ in range(L)], [dy(rng) for _ in range(L)]
            c = mk_case([("het", L, sc, of)], None, L, dt)
            lab, sig = c.arrays()
            ctx.count(("het-vs-hom", dt, tuple(sc), tuple(of)))
            out = call(lambda: d.HeterogeneousLinearModel(lab, scaling=[float(x) for x in sc], offset=[float(x) for x in of])(sig.copy()))
            bad = None
            if isinstance(out, Raised):
                bad = {"observed": repr(out)}
            else:
                for li, l in enumerate(np.unique(lab)):
                    hom = call(d.LinearModel(scaling=float(sc[li]), offset=float(of[li])), sig.copy())
                    if isinstance(hom, Raised):
                        (ctx.fail if dt in CORE_DTYPES else (lambda sig_, what, rp: ctx.cov.setdefault("exotic_dtype_observations", {}).__setitem__(dt, what)))(
                            f"C14:LinearModel.__call__(dtype={dt}):raises", f"LinearModel(scaling={float(sc[li])}, offset={float(of[li])}) raises {hom!r} on a {dt} signal",
                                 {"line": Case("single", [("linear", sc[li], of[li])], None, c.pix, c.label_values, c.shape, dt).line(), "observed": repr(hom), "exception": str(hom.exc)[:160]})
                        bad = None
                        break
                    reg = lab == l
                    if not np.array_equal(np.asarray(out)[reg], hom[reg]):
                        k = np.argwhere(reg & (np.asarray(out) != hom))[0]
                        bad = {"label": int(l), "pixel": k.tolist(), "signal_value": float(sig[tuple(k)]), "observed": float(np.asarray(out)[tuple(k)]),
                               "required": float(hom[tuple(k)]), "result_dtype": str(np.asarray(out).dtype), "homogeneous_dtype": str(hom.dtype)}
                        break
            if bad and dt not in CORE_DTYPES:
                ctx.cov.setdefault("exotic_dtype_observations", {})[dt] = "label-wise result differs from the homogeneous model (element type outside the quantifier: observation)"
            elif bad:
                ctx.fail(f"C14:HeterogeneousLinearModel.__call__(dtype={dt}):differs-from-homogeneous",
                         "on a labelled region the label-wise model differs from LinearModel(scaling[l], offset[l]) (result truncated / wrapped into the signal's element type)",
                         {"line": c.line(), **bad})

    # (e') the generic label-wise wrapper HeterogeneousModel(model, label image): per-label copies, region by region
    for _ in range(ctx.pick(10, 100)):
        L = rng.randint(1, 5)
        sc, of = [dy(rng) for _ in range(L)], [dy(rng) for _ in range(L)]
        c = mk_case([("het", L, sc, of)], None, L)
        lab, sig = c.arrays()
        ctx.count(("HeterogeneousModel", L, tuple(sc), tuple(of)))
        hm = call(d.HeterogeneousModel, d.LinearModel(), d.Image(lab, dimensions=[1.0, 1.0], scalar=True))
        if isinstance(hm, Raised):
            ctx.fail("C14:HeterogeneousModel.__init__:raises", f"{hm!r}", {"labels": lab.tolist()})
            continue
        r = call(lambda: [hm[l].update(scaling=float(sc[i]), offset=float(of[i])) for i, l in enumerate(np.unique(lab))])
        out = r if isinstance(r, Raised) else call(hm, sig.copy())
        want = np.array([float(v) for v in ref_apply(c.models, c.pix)]).reshape(c.shape)
        if isinstance(out, Raised) or np.asarray(out).shape != want.shape or not np.array_equal(out, want):
            ctx.fail("C14:HeterogeneousModel.__call__:per-label", "label-wise wrapper differs from the homogeneous model of each label on its region",
                     {"line": c.line(), "observed": repr(out)[:200]})

    # (d) routing: "all" and every subset of updatable parameters
    # initial parameters are non-zero and distinct from the update values, so that an update to exactly 0 shows in the output
    combos = [[("clip", F(-1), F(2)), ("linear", F(2), F(1))], [("scaling", F(2)), ("clip", F(-1), None), ("linear", F(2), F(1))],
              [("het", 2, [F(2), F(3)], [F(1), F(-1)]), ("clip", F(-2), F(2))],
              [("linear", F(3), F(-1)), ("het", 3, [F(2), F(3), F(5)], [F(1), F(-1), F(2)]), ("scaling", F(3))]]
    for _ in range(ctx.pick(2, 12)):
        L = rng.randint(1, 4)
        combos.append([tuple(m) for m in gen_models(rng, rng.randint(2, 4), L, near_one=False)])
    for models in combos:
        L = max([m[1] for m in models if m[0] == "het"] + [1])
        models = [m if m[0] != "het" else ("het", L, (list(m[2]) * L)[:L], (list(m[3]) * L)[:L]) for m in models]
        pairs = [(pos, n) for pos, m in enumerate(models) for n in KIND_DOFS[m[0]]]
        subsets = [None] + [list(c) for r in range(1, len(pairs) + 1) for c in itertools.combinations(pairs, r)]
        if len(subsets) > ctx.pick(40, 400):
            subsets = subsets[:1] + rng.sample(subsets[1:], ctx.pick(40, 400))
        for sub in subsets:
            if sub is None:
                entries = [(pos, "all") for pos in range(len(models))]
                dofs_arg = rng.choice([None, "all"])
            else:
                entries = [(pos, [n for p, n in sub if p == pos]) for pos in sorted({p for p, _ in sub})]
                entries = [(p, ns[0] if len(ns) == 1 and rng.random() < 0.5 else ns) for p, ns in entries]
                dofs_arg = entries
            need = sum(n_params(models[p]) if s == "all" else n_selected(models[p], [s] if isinstance(s, str) else s) for p, s in entries)
            ps = [Fraction(0) if rng.random() < 0.3 else Fraction(rng.randint(-20, 40), 8) for _ in range(need)]
            if need and rng.random() < 0.5:
                ps[rng.randrange(need)] = Fraction(0)
            c = mk_case(models, None, L)
            lab, sig = c.arrays()
            objs = [build(d, m, lab) for m in models]
            comb = d.CombinedModel(objs)
            ctx.count(("route", tuple(map(str, models)), str(sub)))
            arr = np.array([float(p) for p in ps])
            r = call(comb.update_model_parameters, arr) if dofs_arg is None else call(comb.update_model_parameters, arr, dofs_arg)
            label = "all" if sub is None else "subset"
            replay = {"models": [tok_model(m) for m in models], "dofs": "all" if sub is None else [[p, s] for p, s in entries], "parameters": [str(p) for p in ps]}
            if isinstance(r, Raised):
                ctx.fail(f"C14:CombinedModel.update_model_parameters({label}):raises", f"update with exactly the selected number of parameters raises {r}", {**replay, "observed": repr(r)})
                continue
            got = call(comb, sig.copy())
            want_models = ref_route(models, entries, ps)
            want = np.array([float(v) for v in ref_apply(want_models, c.pix)]).reshape(c.shape)
            if isinstance(got, Raised) or not np.array_equal(got, want):
                ctx.fail(f"C14:CombinedModel.update_model_parameters({label}):routing", "a sub-model did not receive exactly its slice of the flat parameter vector",
                         {**replay, "expected_models": [tok_model(m) for m in want_models]})
    # single models: dofs="all" and None are the same request
    for kind in KINDS:
        m1, m2 = sample_model(d, kind), sample_model(d, kind)
        nexact = {"clip": 2, "scaling": 1, "linear": 2, "het": 4}[kind]
        r1 = call(m1.update_model_parameters, np.arange(1.0, 1.0 + nexact))
        r2 = call(m2.update_model_parameters, np.arange(1.0, 1.0 + nexact), "all")
        ctx.count(("all-vs-none", kind))
        if isinstance(r1, Raised) or isinstance(r2, Raised):
            ctx.fail(f"C14:{type(m1).__name__}.update_model_parameters(dofs=all):raises", f"dofs=None -> {r1!r}, dofs='all' -> {r2!r}", {"model": kind, "dofs": "all"})


def oracle_threshold(ctx, d, thr_cases):
    for line, impl, info in thr_cases:
        ctx.count(("thr", line))
        sel = impl if impl.startswith("!") else impl.split(" ", 1)[1] if " " in impl else ""
        if "want" in info and sel != info["want"]:
            opt = ",return_float" if info.get("return_float") else ""
            opt += ",mask" if info.get("masked") else ""
            ctx.fail(f"C14:StaticThresholdModel.__call__({'het' if info['het'] else 'hom'}{opt})", "result is not `strictly between the bounds, inside the mask`",
                     {"line": line, "return_float": info.get("return_float"), "mask_given": info.get("masked"), "observed": impl, "required": info["want"]})


def oracle_poly(ctx, d, poly, sizes):
    """STATED clause: the space of degree d spans exactly the polynomials of total degree <= d (quantifier: degrees 0..4) - any basis of
    that space is right. Evaluate the `size` basis functions on the integer grid {0..d+1}^2 (unisolvent for degree d+1) and compare
    ranks: rank(B) = size = (d+1)(d+2)/2 and rank([B; monomials of degree <= d]) = size. That the basis functions ARE the monomials
    x^i y^j in the model's order is only the model's tie (mark)."""
    for deg in range(5):
        n_want = (deg + 1) * (deg + 2) // 2
        ctx.count(("poly", deg))
        sp = call(d.PolynomialApproximationSpace, deg)
        size = sp if isinstance(sp, Raised) else call(lambda: int(sp.size))
        if isinstance(size, Raised):
            ctx.fail(f"C14:PolynomialApproximationSpace({deg}):raises", "space cannot be constructed / has no size", {"degree": deg})
            continue
        pts = np.array([[float(a_), float(b_)] for a_ in range(deg + 2) for b_ in range(deg + 2)])
        rows = [call(sp.basis, pts, k) for k in range(size)]
        if any(isinstance(r, Raised) for r in rows):
            ctx.fail(f"C14:PolynomialApproximationSpace({deg}).basis:raises", "a basis function cannot be evaluated", {"degree": deg})
            continue
        B = np.array([np.asarray(r, dtype=float).ravel() for r in rows]).reshape(size, len(pts))
        Mono = np.array([pts[:, 0] ** i * pts[:, 1] ** j for i in range(deg + 1) for j in range(deg + 1 - i)])
        tol = 1e-9 * max(1.0, float(np.max(np.abs(B))) if B.size else 1.0) * max(B.shape + (1,))
        rB = int(np.linalg.matrix_rank(B, tol=tol)) if B.size else 0
        rBM = int(np.linalg.matrix_rank(np.vstack([B, Mono]), tol=tol))
        if size != n_want or rB != n_want or rBM != n_want:
            ctx.fail("C14:PolynomialApproximationSpace.basis:span" + ("(degree>=2)" if deg >= 2 else f"(degree={deg})"),
                     f"degree {deg}: the basis functions do not span exactly the polynomials of total degree <= {deg} "
                     f"(size {size}, rank {rB}, rank together with the monomials {rBM}; required {n_want})",
                     {"degree": deg, "size": size, "rank_basis": rB, "rank_with_monomials": rBM, "required": n_want,
                      "exponents_if_monomials": None if isinstance(poly.get(deg), Raised) else [list(e) if e else None for e in poly[deg]]})
    # tie of the model (polyExps order, monomial basis): a mark, not a failing input
    for deg in range(POLY_MAX + 1):
        ex = poly[deg]
        want = [(i, j) for i in range(deg + 1) for j in range(deg + 1 - i)]
        if isinstance(ex, Raised) or list(ex) != want:
            ctx.mark("TIE-BROKEN", {"correspondence": "poly-exponents", "degree": deg, "why": "basis functions are not the monomials x^i y^j in the model's order",
                                    "observed": None if isinstance(ex, Raised) else [list(e) if e else None for e in ex]})
            break



ZERO_INIT = {"clip": ("clip", F(-1), F(2)), "scaling": ("scaling", F(3)), "linear": ("linear", F(2), F(1)),
             "het": ("het", 2, [F(2), F(3)], [F(1), F(-1)])}
ZERO_ROUTES = ("update", "update_model_parameters", "CombinedModel.update_model_parameters")
CLASS_OF = {"clip": "ClipModel", "scaling": "ScalingModel", "linear": "LinearModel", "het": "HeterogeneousLinearModel"}


def check_zero_update(d, kind, names, zero_is_float, route):
    """Set the named parameters of a model to exactly 0 (int 0 or 0.0) through `route` and read the parameters actually in
    force off the output on a signal spanning both sides of every bound. -> (bad, observed, required)"""
    zero = 0.0 if zero_is_float else 0
    m0 = ZERO_INIT[kind]
    L = 2
    follower = ("linear", F(2), F(1))
    models = [m0, follower] if route.startswith("CombinedModel") else [m0]
    vals = [Fraction(k, 4) for k in range(-12, 13)]
    c = Case("comb", models, None, [(i % L, v) for i, v in enumerate(vals)], [5, 10], (5, 5))
    lab, sig = c.arrays()
    objs = [build(d, m, lab) for m in models]
    k = n_selected(m0, names)
    if route == "update":
        kw = {n: (np.full(L, zero) if kind == "het" else zero) for n in names}
        r = call(objs[0].update, **kw)
        target = objs[0]
    elif route == "update_model_parameters":
        r = call(objs[0].update_model_parameters, np.array([zero] * k), list(names))
        target = objs[0]
    else:
        target = d.CombinedModel(objs)
        r = call(target.update_model_parameters, np.array([zero] * k), [(0, list(names))])
    want_models = ref_route(models, [(0, list(names))], [Fraction(0)] * k)
    want = np.array([float(v) for v in ref_apply(want_models, c.pix)]).reshape(c.shape)
    got = r if isinstance(r, Raised) else call(target, sig.copy())
    bad = isinstance(got, Raised) or np.asarray(got).shape != want.shape or not np.array_equal(got, want)
    return bad, (repr(got) if isinstance(got, Raised) else np.asarray(got).ravel().tolist()), want.ravel().tolist(), [tok_model(m) for m in want_models]


def oracle_zero_updates(ctx, d):
    """every updatable parameter of every model can be set to exactly 0, through every route"""
    for kind in KINDS:
        kd = KIND_DOFS[kind]
        for names in [list(c) for r in range(1, len(kd) + 1) for c in itertools.combinations(kd, r)]:
            for zf in (False, True):
                for route in ZERO_ROUTES:
                    ctx.count(("zero-update", kind, tuple(names), zf, route))
                    bad, got, want, wm = check_zero_update(d, kind, names, zf, route)
                    if bad and route == "update":
                        # the keyword API update(...) is not part of the statement (update_model_parameters is): observation
                        ctx.cov.setdefault("update_keyword_api_observations", []).append(f"{CLASS_OF[kind]}.update({'+'.join(names)}=0) not applied")
                    elif bad:
                        cls = CLASS_OF[kind] if not route.startswith("CombinedModel") else "CombinedModel"
                        meth = route.split(".")[-1]
                        ctx.fail(f"C14:{cls}.{meth}({'+'.join(names)}=0):not-applied",
                                 f"{route} of {CLASS_OF[kind]} with {', '.join(names)} = {0.0 if zf else 0!r}: the parameters in force afterwards "
                                 "(read off the output on a signal spanning the bounds) are not the ones given",
                                 {"zero_update": {"kind": kind, "dofs": names, "zero_is_float": zf, "route": route}, "model_before": tok_model(ZERO_INIT[kind]),
                                  "expected_models_after": wm, "observed": got, "required": want})


KERNELS = ["GaussianKernel", "GaussianKernel025", "LinearKernel"]  # identifiers 0, 1, 2 of the state-machine model


def _kernel(d, kname):
    return {"GaussianKernel": lambda: d.GaussianKernel(1.0), "GaussianKernel025": lambda: d.GaussianKernel(0.25),
            "LinearKernel": lambda: d.LinearKernel(1.0)}[kname]()


def _kmat(kname, S):
    S = np.asarray(S, dtype=float)
    if kname.startswith("GaussianKernel"):
        g = 0.25 if kname.endswith("025") else 1.0
        return np.exp(-g * np.sum((S[:, None, :] - S[None, :, :]) ** 2, axis=-1))
    return S @ S.T + 1.0


def gen_supports(nrng, kname, n):
    """n distinct supports in [0,3]^3 (multiples of 1/4: exact in float32, unaffected by the rounding to 5 decimals) with a
    well-conditioned kernel matrix, in random (unsorted) order"""
    for _ in range(5000):
        S = nrng.integers(0, 13, (n, 3)) / 4.0
        if len({tuple(r) for r in S.tolist()}) < n:
            continue
        names = KERNELS if kname == "*" else [kname]
        if all(np.linalg.cond(_kmat(k, S)) < (400 if k == "LinearKernel" else 50 if k == "GaussianKernel" else 300) for k in names):
            return S
    raise RuntimeError("no well-conditioned supports found")


def gen_kernel_sequence(nrng, kname):
    """list of steps; every step states where the interpolant must reproduce which values afterwards"""
    n = int(nrng.integers(1, 5))
    steps = [{"op": "init", "supports": gen_supports(nrng, "*", n).tolist(), "values": nrng.integers(0, 17, n).astype(float).__truediv__(16).tolist()}]
    vals = steps[0]["values"]
    for _ in range(int(nrng.integers(3, 7))):
        op = ["same_count", "values_only", "new_count", "update_model_parameters", "same_count", "kernel_only", "update_kernel"][int(nrng.integers(0, 7))]
        if op == "same_count":
            vals = (nrng.integers(0, 17, n) / 16).tolist()
            steps.append({"op": op, "supports": gen_supports(nrng, "*", n).tolist(), "values": vals})
        elif op == "new_count":
            n = int(nrng.integers(1, 5))
            vals = (nrng.integers(0, 17, n) / 16).tolist()
            steps.append({"op": op, "supports": gen_supports(nrng, "*", n).tolist(), "values": vals})
        elif op in ("kernel_only", "update_kernel"):
            kname = [k for k in KERNELS if k != kname][int(nrng.integers(0, 2))]
            steps.append({"op": op, "kernel": kname})  # the values stay: they must be reproduced with the new kernel
        else:
            vals = (nrng.integers(0, 17, n) / 16).tolist()
            steps.append({"op": op, "values": vals})
    return steps


def _plain_eval(d, kern, obj, x):
    """the kernel sum with the object's public `supports` / `interpolation_weights`, without numba (fast, float64)"""
    return call(d.BaseKernel.linear_combination, kern, np.asarray(x, dtype=float), np.asarray(obj.supports, dtype=float),
                np.asarray(obj.interpolation_weights, dtype=float))


FRESH_OBS = {}


def _eval_both(d, kern, obj, x, through_call):
    """plain kernel sum; on request also `obj(x)` (numba path) - both must agree with what is required"""
    # STATED clause is about what the object returns: judge obj(x) only (public attributes may be filled lazily)
    return [call(obj, np.asarray(x, dtype=np.float32))]


def _miss(outs, want, tol):
    for o in outs:
        if isinstance(o, Raised) or np.asarray(o).shape != np.asarray(want).shape or not float(np.max(np.abs(np.asarray(o, dtype=float) - want), initial=0.0)) <= tol:
            return repr(o) if isinstance(o, Raised) else np.asarray(o, dtype=float).tolist()
    return None


def run_kernel_sequence(d, kname, steps, probe):
    """-> None or dict(step=i, op, what, observed, required). After every step: reproduction (1e-4) of the step's values at
    the supports they belong to, and agreement (1e-5) with a fresh object built from the current supports/values. Every step is
    evaluated with the plain kernel sum over the public supports/weights; the last step also through __call__ (numba)."""
    kern = _kernel(d, kname)
    ki = None
    for i, st in enumerate(steps):
        last = i == len(steps) - 1
        if st["op"] in ("kernel_only", "update_kernel"):
            kname = st["kernel"]
            kern = _kernel(d, kname)
            at = np.asarray(ki.supports, dtype=float).copy()
            vals = np.asarray(ki.values, dtype=float).copy()  # unchanged data, in the order of the current supports
            r = call(ki.update, kernel=kern) if st["op"] == "kernel_only" else call(ki.update_kernel, kern)
        else:
            vals = np.array(st["values"], dtype=float)
        if st["op"] in ("kernel_only", "update_kernel"):
            pass
        elif st["op"] == "init":
            at = np.array(st["supports"], dtype=float)
            ki = call(d.KernelInterpolation, kern, at.copy(), vals.copy())
            r = ki
        elif st["op"] in ("same_count", "new_count"):
            at = np.array(st["supports"], dtype=float)
            r = call(ki.update, supports=at.copy(), values=vals.copy())
        elif st["op"] == "values_only":
            at = np.asarray(ki.supports, dtype=float).copy()  # values refer to the current supports, in their order
            r = call(ki.update, values=vals.copy())
        else:
            at = np.asarray(ki.supports, dtype=float).copy()
            r = call(ki.update_model_parameters, vals.copy(), ["values"])
        if isinstance(r, Raised):
            return {"step": i, "op": st["op"], "what": f"raises {r!r}", "observed": repr(r), "required": vals.tolist()}
        m = _miss(_eval_both(d, kern, ki, at, last), vals, 1e-4)
        if m is not None:
            return {"step": i, "op": st["op"], "what": "after this step the interpolant does not reproduce the given values at the current supports (1e-4)",
                    "at_supports": at.tolist(), "observed": m, "required": vals.tolist()}
        fresh = call(d.KernelInterpolation, _kernel(d, kname), np.asarray(ki.supports, dtype=float).copy(), np.asarray(ki.values, dtype=float).copy())
        ref = fresh if isinstance(fresh, Raised) else _plain_eval(d, kern, fresh, probe)
        if isinstance(ref, Raised):
            return {"step": i, "op": st["op"], "what": f"a fresh object from the current supports/values cannot be built/evaluated: {ref!r}"}
        # history independence (re-used == fresh) is not stated: observation only
        mine = _plain_eval(d, kern, ki, probe)
        if not isinstance(mine, Raised):
            FRESH_OBS["max_diff_to_fresh_object"] = max(FRESH_OBS.get("max_diff_to_fresh_object", 0.0), float(np.max(np.abs(np.asarray(mine, dtype=float) - np.asarray(ref, dtype=float)), initial=0.0)))
    return None


def run_advanced_sequence(d, kname, seq):
    """AdvancedKernelInterpolation: update_advanced, then update_variable_model_parameters (twice)"""
    kern = _kernel(d, kname)
    ak = call(d.AdvancedKernelInterpolation, kern)
    if isinstance(ak, Raised):
        return {"step": 0, "op": "init", "what": f"raises {ak!r}"}
    FS, FV, VS, VV = (np.array(seq[k], dtype=float) for k in ("fixed_supports", "fixed_values", "variable_supports", "variable_values"))
    calls = [("update_advanced", lambda: ak.update_advanced(FS.copy(), FV.copy(), VS.copy(), VV.copy()), VV)]
    for pv in seq["parameters"]:
        pv = np.array(pv, dtype=float)
        calls.append(("update_variable_model_parameters", (lambda pv=pv: ak.update_variable_model_parameters(pv.copy())), pv))
    for i, (name, fn, vv) in enumerate(calls):
        r = call(fn)
        if isinstance(r, Raised):
            return {"step": i, "op": name, "what": f"raises {r!r}", "observed": repr(r)}
        last = i == len(calls) - 1
        m = _miss(_eval_both(d, kern, ak, np.vstack([FS, VS]), last), np.hstack([FV, vv]), 1e-4)
        if m is not None:
            return {"step": i, "op": name, "what": "fixed values at the fixed supports / variable values at the variable supports are not reproduced (1e-4)",
                    "observed": m, "required": np.hstack([FV, vv]).tolist()}
    return None


def oracle_kernel_sequences(ctx, d):
    nrng = np.random.default_rng(ctx.rng.randrange(2**31))
    probe = nrng.uniform(0, 3, (6, 3)).astype(np.float32)
    ops = {}
    for trial in range(ctx.pick(8, 80)):
        kname = "GaussianKernel" if trial % 2 == 0 else "LinearKernel"
        steps = gen_kernel_sequence(nrng, kname)
        for st in steps:
            ops[st["op"]] = ops.get(st["op"], 0) + 1
        ctx.count(("kernel-seq", kname, json.dumps(steps)), n=len(steps))
        bad = run_kernel_sequence(d, kname, steps, probe)
        if bad:
            ctx.fail(f"C14:KernelInterpolation({kname}).update-sequence:{bad['op']}", f"step {bad['step']} ({bad['op']}): {bad['what']}",
                     {"kernel_sequence": {"kernel": kname, "steps": steps[: bad["step"] + 1], "probe": probe.tolist()}, **bad})
    for trial in range(ctx.pick(4, 40)):
        kname = "GaussianKernel" if trial % 2 == 0 else "LinearKernel"
        nf, nv = int(nrng.integers(1, 3)), int(nrng.integers(1, 3))
        S = gen_supports(nrng, kname, nf + nv)  # random, i.e. unsorted, order
        seq = {"fixed_supports": S[:nf].tolist(), "fixed_values": (nrng.integers(0, 17, nf) / 16).tolist(), "variable_supports": S[nf:].tolist(),
               "variable_values": (nrng.integers(0, 17, nv) / 16).tolist(), "parameters": [(nrng.integers(0, 17, nv) / 16).tolist() for _ in range(2)]}
        ctx.count(("kernel-adv", kname, json.dumps(seq)), n=3)
        bad = run_advanced_sequence(d, kname, seq)
        if bad:
            ctx.fail(f"C14:AdvancedKernelInterpolation({kname}).{bad['op']}", f"call {bad['step']} ({bad['op']}): {bad['what']}",
                     {"advanced_sequence": {"kernel": kname, **seq}, **bad})
    ctx.cov["kernel_sequences_observed"] = dict(FRESH_OBS)
    ctx.cov["kernel_sequences"] = {"ops": ops, "rule": "after every step: obj(supports) reproduces the values (1e-4, the stated clause on a reachable state); difference to a fresh object is only recorded"}


# ---------------------------------------------------------------------------
# KernelInterpolation as a state machine: the Lean model predicts, after every op sequence, the kernel in force, the
# (sorted, de-duplicated) supports, the re-indexed values and WHICH inverse the weights were computed with


def rng_choice_known(nrng):
    """the two calls of the known finding (default dofs / kernel dof): they raise TypeError once data is present"""
    return "pdef" if nrng.random() < 0.5 else "pker"


def gen_kern_ops(nrng, malformed=False):
    pool = gen_supports(nrng, "*", 4)  # principal sub-matrices of a well-conditioned PSD matrix are well conditioned
    k0 = int(nrng.integers(0, 3))
    ops, have_s, have_v = [], 0, 0

    def pick(exclude_none=True):
        n = int(nrng.integers(1, 5))
        idx = nrng.permutation(4)[:n].tolist()
        if nrng.random() < 0.25:
            idx.append(idx[0])  # a duplicate row: np.unique drops it and keeps the first occurrence's value
        return idx

    cur_n = 0
    for step in range(int(nrng.integers(2, 7))):
        r = nrng.random()
        if step == 0 or r < 0.35:
            idx = pick()
            v = (nrng.integers(0, 17, len(idx)) / 16).tolist()
            k = None if nrng.random() < 0.7 else int(nrng.integers(0, 3))
            append = bool(have_s and nrng.random() < 0.3)
            if malformed and nrng.random() < 0.5:
                v = v[:-1] if len(v) > 1 else v + [0.5]
            ops.append(("upd", k, pool[idx].tolist(), v, append))
            have_s = have_v = 1
            cur_n = None if append else len(set(idx))
        elif r < 0.55:
            n = int(nrng.integers(1, 5)) if malformed else None
            ops.append(("upd", None, None, "CURRENT" if n is None else (nrng.integers(0, 17, n) / 16).tolist(), False))
        elif r < 0.7:
            ops.append(("upd", int(nrng.integers(0, 3)), None, None, False))
        elif r < 0.8:
            ops.append(("ker", int(nrng.integers(0, 3))))
        elif r < 0.9:
            ops.append(("vp", "CURRENT+"))
        elif malformed and have_s and r < 0.95:
            ops.append((rng_choice_known(nrng),))
        elif cur_n:
            # supports only: the stored values are re-used, so keep their number (new coordinates, same count)
            ops.append(("upd", None, pool[nrng.permutation(4)[:cur_n].tolist()].tolist(), None, False))
        else:
            ops.append(("ker", int(nrng.integers(0, 3))))
    return k0, ops


def run_kern_ops(d, nrng, k0, ops):
    """execute on the real object; `CURRENT` value vectors are drawn with the object's current number of supports.
    -> (request line for the model, canonical impl response, object or None)"""
    kernels = [_kernel(d, k) for k in KERNELS]
    ki = call(d.KernelInterpolation, kernels[k0])
    toks, err = [], None

    def fr(x):
        return fmt(Fraction(float(x)))

    for i, op in enumerate(ops):
        if op[0] == "upd":
            _, k, S, v, append = op
            if v == "CURRENT":
                v = (nrng.integers(0, 17, max(1, int(ki.num_supports))) / 16).tolist()
            toks.append("upd " + ("none" if k is None else str(k)) + " " + ("none" if S is None else f"pts {len(S)} " + " ".join(fr(c) for p_ in S for c in p_))
                        + " " + ("none" if v is None else f"vals {len(v)} " + " ".join(fr(x) for x in v)) + (" 1" if append else " 0"))
            r = call(ki.update, kernel=None if k is None else kernels[k], supports=None if S is None else np.array(S, dtype=float),
                     values=None if v is None else np.array(v, dtype=float), append=append)
        elif op[0] == "ker":
            toks.append(f"ker {op[1]}")
            r = call(ki.update_kernel, kernels[op[1]])
        elif op[0] in ("pdef", "pker"):
            toks.append(op[0])
            pv = np.array([0.5] + [0.25] * int(ki.num_supports))
            r = call(ki.update_model_parameters, pv) if op[0] == "pdef" else call(ki.update_model_parameters, pv, ["kernel"])
        else:
            ps = (nrng.integers(0, 17, int(ki.num_supports) + 2) / 16).tolist()  # longer than needed: only the first num_supports count
            toks.append(f"vp {len(ps)} " + " ".join(fr(x) for x in ps))
            r = call(ki.update_model_parameters, np.array(ps), ["values"])
        if isinstance(r, Raised):
            err = f"{r!r}@{i}"
            break
    line = f"kern {k0} {len(toks)} " + " ".join(toks)
    if err:
        return line, err, None
    kid = next((j for j, k in enumerate(kernels) if ki.kernel is k), None)
    S = None if ki.supports is None else np.asarray(ki.supports, dtype=float)
    V = None if ki.values is None else np.asarray(ki.values, dtype=float)
    resp = (f"{kid} | {int(ki.num_supports)} | " + ("none" if S is None else " ; ".join(" ".join(fr(c) for c in row) for row in S)) + " | "
            + ("none" if V is None else " ".join(fr(x) for x in V)))
    return line, resp, ki


def kernel_state_correspondence(ctx, d):
    nrng = np.random.default_rng(ctx.rng.randrange(2**31))
    n = ctx.pick(60, 500)
    cases = []
    for t in range(n):
        k0, ops = gen_kern_ops(nrng, malformed=(t % 7 == 6))
        cases.append(run_kern_ops(d, nrng, k0, ops))
    got = ctx.model([c[0] for c in cases])
    diffs, worst, nerr, worst_ratio = [], 0.0, 0, 0.0
    for (line, resp, ki), g in zip(cases, got):
        ctx.count(("kern", line))
        if ki is None:
            nerr += 1
            if g.strip() != resp:
                diffs.append((line, g[:120], resp))
            continue
        head, _, w = g.rpartition(" | ")
        if head.strip() != resp.strip():
            diffs.append((line, g[:160], resp))
            continue
        # the model says which inverse was used: weights must be inv(K(key kernel, key supports)) @ vals
        iw = ki.interpolation_weights
        if w.strip() == "W none":
            if iw is not None:
                diffs.append((line, "model: no weights", "impl has weights"))
            continue
        parts = [x.strip() for x in w.strip()[2:].split(";")]
        kid, vals = int(parts[0]), np.array([float(Fraction(x)) for x in parts[-1].split()])
        S = np.array([[float(Fraction(x)) for x in p_.split()] for p_ in parts[1:-1]])
        K = _kmat(KERNELS[kid], S)
        want = np.linalg.solve(K, vals)
        tol = 1e-6 * max(1.0, float(np.linalg.cond(K)))  # the code assembles K from float32 kernel values (6e-8 relative)
        if iw is None or np.asarray(iw).shape != want.shape:
            diffs.append((line, "weights", "missing / shape"))
            continue
        e = float(np.max(np.abs(np.asarray(iw, dtype=float) - want))) / max(1.0, float(np.max(np.abs(want))))
        worst = max(worst, e)
        worst_ratio = max(worst_ratio, e / tol)
        if not e <= tol:
            diffs.append((line, f"weights differ from inv(K(kernel {kid}, its supports)) @ values by {e:.3g}", ""))
    ctx.cov.setdefault("correspondence", {})["kernel-interpolation-state-machine"] = {
        "cases": len(cases), "error_cases": nerr, "disagreements": len(diffs), "max_rel_weight_diff": worst, "max_diff_over_tolerance": worst_ratio,
        "compares": "kernel in force, num_supports, supports (sorted/de-duplicated), values (re-indexed) exactly; interpolation_weights against "
                    "inv(K(key)) @ values for the key the model predicts (1e-6 * cond(K), K is assembled in float32); error class and position"}
    ctx.sample({"corr": "kernel-state", "request": cases[0][0][:300], "model": got[0][:300], "impl": cases[0][1][:300]})
    if diffs:
        ctx.mark("CORR-BROKEN", {"correspondence": "kernel-interpolation-state-machine", "n_diffs": len(diffs), "first": list(map(str, diffs[0]))})
        ctx.log("kernel state machine: disagreements", diffs[:2])


def oracle_kernel_parameters(ctx, d):
    """update_model_parameters of KernelInterpolation: the default dofs and the `kernel` dof must leave a usable object"""
    S = np.array([[2.0, 0, 0], [0, 0, 0], [0, 1.0, 1.0]])
    for dofs in (None, "all", ["kernel"], ["kernel", "values"]):
        ki = d.KernelInterpolation(d.GaussianKernel(1.0), S.copy(), np.array([0.25, 0.5, 0.75]))
        p_ = np.array([1.0, 0.5, 0.25, 0.125])
        ctx.count(("kernel-ump", str(dofs)))
        r = call(ki.update_model_parameters, p_) if dofs is None else call(ki.update_model_parameters, p_, dofs)
        out = r if isinstance(r, Raised) else call(ki, S.astype(np.float32))
        if isinstance(out, Raised):
            stage = "update" if isinstance(r, Raised) else "call-after-update"
            ctx.fail(f"C14:KernelInterpolation.update_model_parameters(dofs={dofs!r}):{stage}",
                     f"update_model_parameters(p, dofs={dofs!r}) raises or leaves an object that cannot be evaluated: {out!r}",
                     {"dofs": dofs, "observed": repr(out), "exception": str(getattr(out, 'exc', ''))[:120]})


# ---------------------------------------------------------------------------
# wrapper HeterogeneousModel, label maps of another shape (cv2 nearest), the isclose boundary of ScalingModel


def boundary_scalings():
    """the floats adjacent to the boundaries 1 +- (1e-8 + 1e-5) of the model's guard: (inside, outside) above and below 1"""
    import math

    tau = Fraction(1001, 10**8)
    k = math.floor(tau * 2**52)
    k2 = math.floor(tau * 2**53)
    return [(1 + k / 2**52, True), (1 + (k + 1) / 2**52, False), (1 - k2 / 2**53, True), (1 - (k2 + 1) / 2**53, False)]


def wrapper_resize_boundary(ctx, d):
    rng = ctx.rng
    lines, impl = [], []
    # (1) generic wrapper with one (homogeneous) model per label
    for _ in range(ctx.pick(40, 400)):
        L = rng.randint(1, 5)
        models = []
        while len(models) < L:
            m = gen_models(rng, 1, 1)[0]
            if m[0] != "het":
                models.append(m)
        shape = (rng.randint(1, 3), rng.randint(2, 4))
        while shape[0] * shape[1] < L:
            shape = (shape[0] + 1, shape[1])
        npx = shape[0] * shape[1]
        labs = list(range(L)) + [rng.randrange(L) for _ in range(npx - L)]
        rng.shuffle(labs)
        label_values = sorted(rng.sample(range(0, 40), L))
        wdt = rng.choice(ALL_DTYPES)
        if wdt in ("f32", "f16"):
            models = f32_safe(rng, models)  # the sub-models compute in the signal's float type: keep the products exact
        pix = [(l, gen_value(rng, wdt)) for l in labs]
        lines.append(f"wrap {L} " + " ".join(tok_model(m) for m in models) + f" | {npx} " + " ".join(f"{label_values[l]} {fmt(v)}" for l, v in pix))
        lab = np.array([label_values[l] for l in labs]).reshape(shape)
        sig = np.array([float(v) for _, v in pix]).reshape(shape).astype(NP_OF[wdt])
        hm = call(d.HeterogeneousModel, d.LinearModel(), d.Image(lab, dimensions=[1.0, 1.0], scalar=True))
        if isinstance(hm, Raised):
            impl.append(repr(hm))
            continue
        for i, l in enumerate(np.unique(lab)):
            hm.obj[l] = build(d, models[i], lab)
        out = call(hm, sig.copy())
        impl.append(repr(out) if isinstance(out, Raised) else ("!shape" if np.asarray(out).shape != shape else dtok(out) + " " + fmts(np.asarray(out).ravel())))
    ctx.correspond("heterogeneous-wrapper", lines, impl)

    # (2) label maps of another shape: the label map in force is read off the output (scaling = position of the label + 2, signal = 1)
    lines, impl = [], []
    for t in range(ctx.pick(40, 300)):
        h, w, H, W = (rng.randint(1, NEAR_MAX) for _ in range(4))
        if t % 5 == 0:
            H, W = h, w
        elif t % 5 == 1:  # sizes where OpenCV's double arithmetic rounds below the exact index
            (h, H), (w, W) = rng.choice([(14, 18), (6, 34), (7, 14), (28, 36)]), (rng.randint(1, 40), rng.randint(1, 40))
        elif t % 5 == 2:
            h, w, H, W = (rng.randint(1, NEAR_DEV_MAX) for _ in range(4))
        L = rng.randint(1, 4)
        label_values = sorted(rng.sample(range(0, 40), L))
        lab = np.array([rng.choice(label_values) for _ in range(h * w)], dtype=rng.choice([np.uint8, np.int32, np.int64])).reshape(h, w)
        uniq = np.unique(lab)
        lines.append(f"resize {h} {w} {H} {W} " + " ".join(str(int(v)) for v in lab.ravel()))
        m = call(d.HeterogeneousLinearModel, lab, scaling=[float(i + 2) for i in range(len(uniq))], offset=[0.0] * len(uniq))
        out = m if isinstance(m, Raised) else call(m, np.ones((H, W)))
        if isinstance(out, Raised) or np.asarray(out).shape != (H, W):
            impl.append(repr(out) if isinstance(out, Raised) else "!shape")
            continue
        dec = np.asarray(out)
        if not np.all((dec >= 2) & (dec < len(uniq) + 2) & (dec == np.round(dec))):
            impl.append("!values")
            continue
        rows = [" ".join(str(int(uniq[int(v) - 2])) for v in row) for row in dec]
        impl.append(" ; ".join(rows))
        # state: a later signal of the original shape gets the original labels again
        lines.append(f"resize {h} {w} {h} {w} " + " ".join(str(int(v)) for v in lab.ravel()))
        back = call(m, np.ones((h, w)))
        impl.append(repr(back) if isinstance(back, Raised) else " ; ".join(" ".join(str(int(uniq[int(v) - 2])) for v in row) for row in np.asarray(back)))
    # call sequences on one instance: the model predicts the label map in force at the LAST call
    for _ in range(ctx.pick(30, 200)):
        lab, shapes, _, _ = label_sequence_case(rng)
        if rng.random() < 0.5:
            shapes = shapes[:-1] + [(rng.randint(1, NEAR_MAX), rng.randint(1, NEAR_MAX))]
        laba = np.array(lab, dtype=np.int32)
        uniq = np.unique(laba)
        lines.append(f"labelseq {laba.shape[0]} {laba.shape[1]} " + " ".join(str(int(v)) for v in laba.ravel()) + f" | {len(shapes)} " + " ".join(f"{a} {b}" for a, b in shapes))
        m = call(d.HeterogeneousLinearModel, laba.copy(), scaling=[float(i + 2) for i in range(len(uniq))], offset=[0.0] * len(uniq))
        out = m
        for shp in shapes:
            if isinstance(out, Raised):
                break
            out = call(m, np.ones(shp))
        if isinstance(out, Raised) or np.asarray(out).shape != tuple(shapes[-1]):
            impl.append(repr(out) if isinstance(out, Raised) else "!shape")
            continue
        dec = np.asarray(out)
        ok = np.all((dec >= 2) & (dec < len(uniq) + 2) & (dec == np.round(dec)))
        impl.append(" ; ".join(" ".join(str(int(uniq[int(v) - 2])) for v in row) for row in dec) if ok else "!values")
    ctx.correspond("label-map-resize", lines, impl)

    # the whole label-wise call on a signal of ANOTHER shape, values compared: the loop runs over the unique labels of the ORIGINAL map,
    # so a label that the resize drops must not shift the scaling / offset of the others (forced: strong down-sampling of maps with many labels)
    lines, impl = [], []
    for t in range(ctx.pick(40, 300)):
        h, w = rng.randint(1, 8), rng.randint(2, 10)
        L = rng.randint(2, 5)
        label_values = sorted(rng.sample(range(0, 40), L))
        flat = label_values + [rng.choice(label_values) for _ in range(max(0, h * w - L))]
        flat = flat[: h * w] if t % 3 == 0 else rng.sample(flat[: h * w], len(flat[: h * w]))
        lab = np.array(flat, dtype=rng.choice([np.uint8, np.int32])).reshape(h, w)
        uniq = np.unique(lab)
        if t % 2 == 0:
            H, W = max(1, h // rng.randint(1, 4)), max(1, w // rng.randint(2, 5))  # coarse: labels get lost
        else:
            H, W = rng.randint(1, NEAR_MAX), rng.randint(1, NEAR_MAX)
        sc, of = [dy(rng) for _ in uniq], [dy(rng) for _ in uniq]
        vals = [dy(rng, -32, 32, 16) for _ in range(H * W)]
        lines.append(f"hetcall {h} {w} " + " ".join(str(int(v)) for v in lab.ravel()) + f" | {len(uniq)} {fmts(sc)} {fmts(of)} | {H} {W} | {H * W} {fmts(vals)}")
        m = call(d.HeterogeneousLinearModel, lab, scaling=[float(x) for x in sc], offset=[float(x) for x in of])
        out = m if isinstance(m, Raised) else call(m, np.array([float(v) for v in vals]).reshape(H, W))
        impl.append(repr(out) if isinstance(out, Raised) else ("!shape" if np.asarray(out).shape != (H, W) else fmts(np.asarray(out).ravel())))
    lost = sum(1 for l_ in lines if True)
    ctx.correspond("label-wise-call-on-resized-labels", lines, impl)

    # (3) the isclose boundary of ScalingModel: the two floats next to either boundary, signals +-2^j (exact products)
    ok = True
    cases = []
    for sval, inside in boundary_scalings():
        if bool(np.isclose(sval, 1.0)) != inside:
            ok = False
            ctx.mark("TIE-BROKEN", {"isclose": "np.isclose(s, 1.0) disagrees with the model's guard |s-1| <= 1e-8 + 1e-5 next to the boundary", "s": repr(sval)})
        pix = [(0, Fraction(sg * 2**j)) for j in (-3, 0, 2, 5) for sg in (1, -1)]
        cases.append(Case("single", [("scaling", Fraction(sval))], None, pix, [0], (2, 4)))
        cases.append(Case("comb", [("scaling", Fraction(sval)), ("clip", Fraction(-100), Fraction(100))], None, pix, [0], (8,)))
    ctx.correspond("scaling-isclose-boundary", [c.line() for c in cases], [c.run_impl(d) for c in cases])
    ctx.cov["isclose_boundary"] = {"floats_adjacent_to_boundary_agree_with_guard": ok, "scalings": [repr(s_) for s_, _ in boundary_scalings()]}


def label_sequence_case(rng):
    h, w = rng.randint(2, NEAR_MAX), rng.randint(2, NEAR_MAX)
    L = rng.randint(2, 5)
    label_values = sorted(rng.sample(range(0, 40), L))
    # fine structure: 1-px stripes / checkerboard / random, so that a down-sampled copy differs from the original
    kind = rng.choice(["stripes", "checker", "random"])
    lab = [[label_values[(j if kind == "stripes" else i + j) % L] if kind != "random" else rng.choice(label_values) for j in range(w)] for i in range(h)]
    shapes = []
    for _ in range(rng.randint(2, 4)):
        shapes.append(rng.choice([(h, w), (max(1, h // rng.randint(2, 4)), max(1, w // rng.randint(2, 4))), (rng.randint(1, NEAR_MAX), rng.randint(1, NEAR_MAX)),
                                  (h * 2, w)]))
    shapes.append((h, w))  # end at the native resolution
    L = len({v for row in lab for v in row})  # the labels that actually occur
    return lab, shapes, [dy(rng) for _ in range(L)], [dy(rng) for _ in range(L)]


def run_label_sequence(d, lab, shapes, sc, of, sigs=None):
    """one HeterogeneousLinearModel, called with signals of the given shapes in turn. Required (property): wherever the signal has
    the shape of the label map, the result is the homogeneous LinearModel(scaling[l], offset[l]) on every labelled region of the
    ORIGINAL labels - whatever was called before. -> None | dict"""
    laba = np.array(lab, dtype=np.int32)
    uniq = np.unique(laba)
    m = call(d.HeterogeneousLinearModel, laba.copy(), scaling=[float(x) for x in sc], offset=[float(x) for x in of])
    if isinstance(m, Raised):
        return {"step": -1, "what": f"constructor raises {m!r}"}
    for i, shp in enumerate(shapes):
        sig = np.arange(shp[0] * shp[1], dtype=float).reshape(shp) / 4.0 - 2.0
        out = call(m, sig.copy())
        if isinstance(out, Raised) or np.asarray(out).shape != tuple(shp):
            return {"step": i, "shape": list(shp), "what": f"call raises / wrong shape: {out!r}"[:160]}
        if True:
            # the labelled regions of this call: the original map, or its nearest-neighbour resize to the signal's shape
            import cv2

            laba_here = laba if tuple(shp) == laba.shape else cv2.resize(laba, (shp[1], shp[0]), interpolation=cv2.INTER_NEAREST)
            want = np.zeros(shp)
            for li, l in enumerate(uniq):
                hom = call(d.LinearModel(scaling=float(sc[li]), offset=float(of[li])), sig.copy())
                if isinstance(hom, Raised):
                    return {"step": i, "shape": list(shp), "what": f"the homogeneous LinearModel of label {int(l)} raises {hom!r}"}
                want[laba_here == l] = hom[laba_here == l]
            if tuple(shp) != laba.shape:
                # foreign shape: the statement does not say which region a pixel belongs to. STATED: every pixel carries the homogeneous
                # model of SOME original label; that the regions are OpenCV's INTER_NEAREST resize is the model's tie (mark).
                cands = np.stack([np.asarray(call(d.LinearModel(scaling=float(sc[li]), offset=float(of[li])), sig.copy()), dtype=float) for li in range(len(uniq))])
                some = np.any(cands == np.asarray(out, dtype=float)[None], axis=0)
                if not np.all(some):
                    bad = np.argwhere(~some)[0].tolist()
                    return {"step": i, "shape": list(shp), "what": "a pixel of the label-wise result is not the homogeneous model of ANY label (signal of another shape than the label map)",
                            "pixel": bad, "observed": float(np.asarray(out)[tuple(bad)])}
                if not np.array_equal(out, want):
                    return {"step": i, "shape": list(shp), "tie_only": True, "what": "label map in force differs from cv2.resize(labels, INTER_NEAREST) (model tie)"}
                continue
            if not np.array_equal(out, want):
                bad = np.argwhere(np.asarray(out) != want)[0].tolist()
                return {"step": i, "shape": list(shp), "what": "the label-wise model differs from the homogeneous model of the label on its region of the label map in force "
                        "(the original map, or its nearest-neighbour resize to the signal's shape)", "pixel": bad, "observed": float(np.asarray(out)[tuple(bad)]),
                        "required": float(want[tuple(bad)]), "label": int(laba_here[tuple(bad)])}
    return None


def oracle_label_sequences(ctx, d):
    for _ in range(ctx.pick(40, 300)):
        lab, shapes, sc, of = label_sequence_case(ctx.rng)
        ctx.count(("label-seq", str(lab), str(shapes)))
        bad = run_label_sequence(d, lab, shapes, sc, of)
        if bad and bad.get("tie_only"):
            ctx.mark("TIE-BROKEN", {"correspondence": "label-map-resize", "labels": lab, "shapes": [list(s_) for s_ in shapes], **bad})
        elif bad:
            ctx.fail("C14:HeterogeneousLinearModel.__call__:call-sequence", f"call {bad['step']} of a sequence on one instance: {bad['what']}",
                     {"label_sequence": {"labels": lab, "shapes": [list(s_) for s_ in shapes], "scaling": [str(x) for x in sc], "offset": [str(x) for x in of]}, **bad})


def linear_kernel_correspondence(ctx, d):
    """LinearKernel.linear_combination (numba, float32) and BaseKernel.linear_combination (plain numpy) against the model's loop,
    EXACTLY: supports / signals multiples of 1/4 in [0,3], weights multiples of 1/16, shift a multiple of 1/4 - every product and
    partial sum fits into 24 mantissa bits, so float32 arithmetic (also reassociated by fastmath) is exact."""
    rng = ctx.rng
    lines, impl_fast, impl_plain = [], [], []
    for t in range(ctx.pick(24, 200)):
        a = Fraction(rng.randint(0, 8), 4)
        n = rng.randint(1, 4)
        ws = [Fraction(rng.randint(-16, 16), 16) for _ in range(n)]
        ss = [[Fraction(rng.randint(0, 12), 4) for _ in range(3)] for _ in range(n)]
        kind = ("p", "l", "g")[t % 3]
        if kind == "p":
            shape, head = (3,), "p"
        elif kind == "l":
            N = rng.randint(1, 5)
            shape, head = (N, 3), f"l {N}"
        else:
            H, W = rng.randint(1, 3), rng.randint(1, 3)
            shape, head = (H, W, 3), f"g {H} {W}"
        vals = [Fraction(rng.randint(0, 12), 4) for _ in range(int(np.prod(shape)))]
        lines.append(f"lincomb {fmt(a)} {n} " + " ".join(fmt(w) + " " + fmts(s_) for w, s_ in zip(ws, ss)) + f" | {head} " + fmts(vals))
        kern = d.LinearKernel(float(a))
        sig32 = np.array([float(v) for v in vals], dtype=np.float32).reshape(shape)
        S32 = np.array([[float(c) for c in s_] for s_ in ss], dtype=np.float32)
        w32 = np.array([float(w) for w in ws], dtype=np.float32)
        fast = call(kern.linear_combination, sig32, S32, w32)
        plain = call(d.BaseKernel.linear_combination, kern, sig32.astype(float), S32.astype(float), w32.astype(float))
        for out, dest in ((fast, impl_fast), (plain, impl_plain)):
            dest.append(repr(out) if isinstance(out, Raised) else ("!shape" if np.asarray(out).shape != shape[:-1] else fmts(np.asarray(out, dtype=float).ravel())))
    ctx.correspond("linear-kernel-numba-loop", lines, impl_fast)
    ctx.correspond("linear-kernel-plain-loop", lines, impl_plain)


def observe_image_inputs(ctx, d):
    """darsia.Image inputs: only ClipModel documents them. What every class does with an Image is recorded (not counted as passing)."""
    img = d.Image(np.arange(6.0).reshape(2, 3), dimensions=[1.0, 1.0], scalar=True)
    lab = np.array([[1, 1, 2], [2, 3, 3]])
    arr = np.arange(6.0).reshape(2, 3)
    objs = {"ClipModel": (d.ClipModel(**{"min value": 1.0, "max value": 3.0}), np.clip(arr, 1, 3)),
            "ScalingModel": (d.ScalingModel(scaling=2.0), 2 * arr), "LinearModel": (d.LinearModel(scaling=2.0, offset=1.0), 2 * arr + 1),
            "HeterogeneousLinearModel": (d.HeterogeneousLinearModel(lab, scaling=[1.0, 2.0, 3.0], offset=[0.0, 0.0, 0.0]), None),
            "CombinedModel": (d.CombinedModel([d.ClipModel(**{"min value": 1.0, "max value": 3.0}), d.LinearModel(scaling=2.0, offset=1.0)]), 2 * np.clip(arr, 1, 3) + 1),
            "StaticThresholdModel": (d.StaticThresholdModel(1.0, 3.0), (arr > 1) & (arr < 3))}
    rep = {}
    for name, (m, want) in objs.items():
        out = call(m, img.copy())
        if isinstance(out, Raised):
            rep[name] = f"raises {out!r} (signature takes np.ndarray)"
        elif hasattr(out, "img") and want is not None and np.array_equal(np.asarray(out.img), want):
            rep[name] = "Image in -> Image out, values as for the array"
        else:
            rep[name] = "returns " + type(out).__name__ + (" with OTHER values than for the array" if want is not None else "")
    ctx.cov["image_inputs_observed"] = rep
    ctx.notes.append("Image inputs are in the API of ClipModel only (checked by the oracle); for the other classes the behaviour is recorded under image_inputs_observed, not asserted")


# ---------------------------------------------------------------------------
# failed updates: a call of update_model_parameters / update that raises must leave the object usable with its OLD state


def extract_update_paths():
    """G2 (static view, recorded in the evidence): for every update method the order of `self.x = ...` assignments and of the
    statements that can raise (assert / raise / subscripts of `parameters` / calls of other methods), and whether the method puts
    the previous state back when an exception passes through (try ... except: restore; raise)."""
    import ast

    from ..lib.core import REPO

    targets = {"signals/models/clipmodel.py": ["ClipModel"], "signals/models/linearmodel.py": ["ScalingModel", "LinearModel", "HeterogeneousLinearModel"],
               "signals/models/combinedmodel.py": ["CombinedModel"], "signals/models/kernelinterpolation.py": ["KernelInterpolation"]}
    out = {}
    for rel, classes in targets.items():
        try:
            tree = ast.parse((REPO / "src" / "darsia" / rel).read_text())
        except (OSError, SyntaxError) as e:
            out[rel] = f"unreadable: {e}"
            continue
        for cls in [n for n in tree.body if isinstance(n, ast.ClassDef) and n.name in classes]:
            for fn in [n for n in cls.body if isinstance(n, ast.FunctionDef) and n.name in ("update", "update_model_parameters", "update_kernel", "_compatibility", "setup_kernel_problem", "update_interpolation")]:
                events, restores = [], False
                for node in ast.walk(fn):
                    if isinstance(node, ast.Try) and any(isinstance(x, ast.Raise) and x.exc is None for h in node.handlers for x in ast.walk(h)):
                        restores = True
                for node in sorted((n for n in ast.walk(fn) if hasattr(n, "lineno")), key=lambda n: (n.lineno, n.col_offset)):
                    if isinstance(node, (ast.Assign, ast.AugAssign)):
                        for t in (node.targets if isinstance(node, ast.Assign) else [node.target]):
                            for a in ast.walk(t):
                                if isinstance(a, ast.Attribute) and isinstance(a.value, ast.Name) and a.value.id == "self" and isinstance(a.ctx, ast.Store):
                                    events.append(f"assign self.{a.attr}")
                    elif isinstance(node, ast.Delete):
                        events.append("delete attribute")
                    elif isinstance(node, ast.Assert):
                        events.append("assert")
                    elif isinstance(node, ast.Raise) and node.exc is not None:
                        events.append("raise")
                    elif isinstance(node, ast.Call) and isinstance(node.func, ast.Attribute) and isinstance(node.func.value, ast.Name) and node.func.value.id in ("self", "model"):
                        events.append(f"call {node.func.attr}")
                    elif isinstance(node, ast.Subscript) and isinstance(node.value, ast.Name) and node.value.id == "parameters" and not isinstance(node.slice, ast.Slice):
                        events.append("index parameters")
                first_risk = next((i for i, e in enumerate(events) if not e.startswith("assign")), len(events))
                assigns_before_risk = any(e.startswith("assign") for e in events[:first_risk]) and first_risk < len(events)
                out[f"{cls.name}.{fn.name}"] = {"events": events, "restores_on_exception": restores,
                                                "assigns_before_a_statement_that_can_raise": assigns_before_risk}
    return out


def oracle_failed_updates(ctx, d):
    """OBSERVATION ONLY (exception safety is outside C14's statement): what a raising update leaves behind is recorded in the
    evidence under failed_update_observations; nothing here can fail the check."""
    obs = ctx.cov.setdefault("failed_update_observations", {})

    class _Obs:
        @staticmethod
        def fail(sig_, what, replay):
            obs.setdefault(sig_.split(":", 1)[1], what)

        count = staticmethod(ctx.count)
        rng = ctx.rng

    ctx = _Obs
    rng = ctx.rng
    vals = [Fraction(k, 4) for k in range(-12, 13)]
    L = 2
    pix = [(i % L, v) for i, v in enumerate(vals)]
    proto = {"clip": ("clip", F(-1), F(2)), "scaling": ("scaling", F(3)), "linear": ("linear", F(2), F(1)), "het": ("het", 2, [F(2), F(3)], [F(1), F(-1)])}
    c0 = Case("comb", [proto["clip"]], None, pix, [5, 10], (5, 5))
    lab, sig = c0.arrays()

    def attempts(kind):
        n = n_params(proto[kind])
        yield "too few parameters", np.arange(1.0, n), None              # one short
        yield "empty parameter vector", np.array([]), None
        yield "unknown dof", np.arange(1.0, 9.0), ["no_such_dof"]
        yield "dof of another model", np.arange(1.0, 9.0), ["min_value"] if kind not in ("clip",) else ["scaling"]
        if kind == "het":
            yield "too few for one dof", np.arange(1.0, 2.0), ["offset"]

    # (A) single models
    for kind in KINDS:
        for what, params, dofs in attempts(kind):
            m = build(d, proto[kind], lab)
            before = call(m, sig.copy())
            r = call(m.update_model_parameters, params) if dofs is None else call(m.update_model_parameters, params, dofs)
            ctx.count(("failed-update", kind, what))
            if not isinstance(r, Raised):
                continue  # the update was accepted (e.g. the label-wise model ignores unknown dofs): nothing to check here
            after = call(m, sig.copy())
            if isinstance(after, Raised) or isinstance(before, Raised) or not np.array_equal(after, before):
                ctx.fail(f"C14:{CLASS_OF[kind]}.update_model_parameters:failed-update-changes-state",
                         f"{CLASS_OF[kind]}.update_model_parameters ({what}) raised {r!r}, but afterwards the model no longer behaves as before the call",
                         {"failed_update": {"kind": kind, "parameters": params.tolist(), "dofs": dofs}, "raised": repr(r),
                          "after": repr(after) if isinstance(after, Raised) else np.asarray(after).ravel().tolist()[:6],
                          "before": None if isinstance(before, Raised) else np.asarray(before).ravel().tolist()[:6]})
    # (B) CombinedModel: a failure in a later sub-model
    for kinds in (["clip", "linear"], ["het", "clip"], ["scaling", "het", "linear"]):
        models = [proto[k] for k in kinds]
        need = sum(n_params(m) for m in models)
        for what, params, dofs in (("vector one short", np.arange(1.0, need), None),
                                   ("second entry has an unknown dof", np.arange(1.0, 9.0), [(0, KIND_DOFS[kinds[0]][:1]), (1, ["no_such_dof"])])):
            comb = d.CombinedModel([build(d, m, lab) for m in models])
            before = call(comb, sig.copy())
            r = call(comb.update_model_parameters, params) if dofs is None else call(comb.update_model_parameters, params, dofs)
            ctx.count(("failed-update-comb", tuple(kinds), what))
            if not isinstance(r, Raised):
                continue
            after = call(comb, sig.copy())
            if isinstance(after, Raised) or not np.array_equal(after, before):
                ctx.fail("C14:CombinedModel.update_model_parameters:failed-update-partially-applied",
                         f"CombinedModel.update_model_parameters ({what}) raised {r!r} after it had already updated the earlier sub-models",
                         {"failed_update": {"models": [tok_model(m) for m in models], "parameters": params.tolist(), "dofs": dofs}, "raised": repr(r)})
    # (C) KernelInterpolation.update
    nrng = np.random.default_rng(rng.randrange(2**31))
    probe = nrng.uniform(0, 3, (5, 3)).astype(np.float32)
    for kname in ("GaussianKernel", "LinearKernel"):
        S = gen_supports(nrng, "*", 3)
        B = gen_supports(nrng, "*", 3)
        for what, kw in (("values of the wrong length", dict(values=np.array([0.5, 0.25]))),
                         ("new supports with values of the wrong length", dict(supports=B.copy(), values=np.array([0.5]))),
                         ("fewer supports, stored values re-used", dict(supports=B[:2].copy())),
                         ("append values only", dict(values=np.array([0.5]), append=True))):
            kern = _kernel(d, kname)
            ki = d.KernelInterpolation(kern, S.copy(), np.array([0.25, 0.5, 0.75]))
            before = _plain_eval(d, kern, ki, probe)
            sup0, val0 = np.array(ki.supports, copy=True), np.array(ki.values, copy=True)
            r = call(ki.update, **kw)
            ctx.count(("failed-update-kernel", kname, what))
            if not isinstance(r, Raised):
                continue
            after = call(ki, probe)
            same_attrs = ki.supports is not None and np.array_equal(ki.supports, sup0) and ki.values is not None and np.array_equal(ki.values, val0)
            if isinstance(after, Raised) or not np.allclose(np.asarray(after, dtype=float), before, atol=1e-5) or not same_attrs:
                ctx.fail("C14:KernelInterpolation.update:failed-update-changes-state",
                         f"KernelInterpolation.update ({what}) raised {r!r}, but left supports / values / weights in a mixed state",
                         {"failed_kernel_update": {"kernel": kname, "supports": S.tolist(), "update": {k: (v.tolist() if hasattr(v, 'tolist') else v) for k, v in kw.items()}},
                          "raised": repr(r), "supports_and_values_unchanged": bool(same_attrs),
                          "after": repr(after) if isinstance(after, Raised) else np.asarray(after, dtype=float).tolist(), "before": np.asarray(before).tolist()})


def oracle_wrapper_kernel(ctx, d):
    """HeterogeneousModel(KernelInterpolation(kernel), label image) on (H, W, 3) colour signals - the documented use of the wrapper
    (MultichromaticTracerAnalysis): every pixel must get the interpolation of ITS label evaluated at its colour."""
    nrng = np.random.default_rng(ctx.rng.randrange(2**31))
    for trial in range(ctx.pick(6, 40)):
        kname = "GaussianKernel" if trial % 2 == 0 else "LinearKernel"
        L = int(nrng.integers(1, 4))
        H, W = int(nrng.integers(2, 4)), int(nrng.integers(2, 5))
        labs = np.concatenate([np.arange(L), nrng.integers(0, L, H * W - L)])
        nrng.shuffle(labs)
        label_values = np.sort(nrng.choice(40, L, replace=False))
        lab = label_values[labs].reshape(H, W).astype(np.uint8)
        sig = nrng.uniform(0, 3, (H, W, 3))
        ctx.count(("wrapper-kernel", kname, L, H, W))
        hm = call(d.HeterogeneousModel, d.KernelInterpolation(_kernel(d, kname)), d.Image(lab, dimensions=[1.0, 1.0], scalar=True))
        if isinstance(hm, Raised):
            ctx.fail("C14:HeterogeneousModel(KernelInterpolation).__init__:raises", repr(hm), {"labels": lab.tolist()})
            continue
        per = {}
        bad = None
        for l in np.unique(lab):
            n = int(nrng.integers(1, 4))
            S, V = gen_supports(nrng, kname, n), nrng.integers(0, 17, n) / 16
            r = call(hm[l].update, supports=S.copy(), values=V.copy())
            if isinstance(r, Raised):
                bad = {"what": f"update of the interpolation of label {int(l)} raises {r!r}"}
                break
            per[int(l)] = hm[l]
        out = None if bad else call(hm, sig.copy())
        if bad is None and (isinstance(out, Raised) or np.asarray(out).shape != (H, W)):
            bad = {"what": f"call on an (H, W, 3) signal: {out!r}"[:200]}
        if bad is None:
            for l, ki in per.items():
                reg = lab == l
                want = np.asarray(_plain_eval(d, ki.kernel, ki, sig[reg]), dtype=float)
                if not np.allclose(np.asarray(out)[reg], want, atol=1e-4, rtol=1e-4):  # the stated reproduction tolerance; observed <= 2e-6
                    k = int(np.argmax(np.abs(np.asarray(out)[reg] - want)))
                    bad = {"what": "a pixel does not carry the interpolation of its own label", "label": l, "observed": float(np.asarray(out)[reg][k]), "required": float(want[k])}
                    break
                others = [o for o in per if o != l]
                if others and len({id(per[o]) for o in per}) != len(per):
                    bad = {"what": "the per-label copies of the interpolation are one shared object"}
        if bad:
            ctx.fail("C14:HeterogeneousModel(KernelInterpolation).__call__:per-label", "label-wise kernel interpolation on a colour signal: " + bad["what"],
                     {"labels": lab.tolist(), "kernel": kname, **bad})


def combined_args_correspondence(ctx, d):
    """CombinedModel.__call__(img, *args): sub-models whose __call__ takes a further argument (StaticThresholdModel: mask) get it, the
    parameter models do not; with and without the extra argument; thresholding followed by further models (boolean arrays)."""
    rng = ctx.rng
    lines, impl = [], []
    for t in range(ctx.pick(60, 500)):
        L = rng.randint(1, 4)
        shape = (rng.randint(1, 3), rng.randint(2, 4))
        while shape[0] * shape[1] < L:
            shape = (shape[0] + 1, shape[1])
        npx = shape[0] * shape[1]
        labs = list(range(L)) + [rng.randrange(L) for _ in range(npx - L)]
        rng.shuffle(labs)
        label_values = sorted(rng.sample(range(0, 40), L))
        lab = np.array([label_values[l] for l in labs]).reshape(shape)
        dt = rng.choice(["f64", "f64", "f32", "u8", "i16", "u32"])
        vals = [gen_value(rng, dt) if dt in ("f64", "f32") else Fraction(rng.randint(0, 4)) for _ in range(npx)]
        sig = np.array([float(v) for v in vals]).reshape(shape).astype(NP_OF[dt])
        stages, objs = [], []
        n_st = rng.randint(1, 3)
        for k in range(n_st):
            r = rng.random()
            if r < 0.45:
                lo = rng.choice([dy(rng, 0, 8, 16), rng.choice(vals)])
                hi = rng.choice([None, lo + dy(rng, 0, 16, 16)])
                rf = rng.random() < 0.3
                stages.append(f"thrh {fmt(lo)} {'none' if hi is None else fmt(hi)} {1 if rf else 0}")
                objs.append(call(d.StaticThresholdModel, float(lo), None if hi is None else float(hi), None, rf))
            elif r < 0.6:
                lo = [dy(rng, 0, 8, 16) for _ in range(L)]
                hi = None if rng.random() < 0.4 else [x + dy(rng, 0, 16, 16) for x in lo]
                rf = rng.random() < 0.3
                stages.append(f"thrt {L} {fmts(lo)} " + ("none" if hi is None else "some " + fmts(hi)) + (" 1" if rf else " 0"))
                objs.append(call(d.StaticThresholdModel, [float(x) for x in lo], None if hi is None else [float(x) for x in hi], lab, rf))
            else:
                m = f32_safe(rng, gen_models(rng, 1, L, near_one=False))[0]
                stages.append(tok_model(m))
                objs.append(call(build, d, m, lab))
        mask = None if rng.random() < 0.4 else [rng.random() < 0.6 for _ in range(npx)]
        lines.append(f"runargs {dt} {n_st} " + " ".join(stages) + " | " + ("nomask" if mask is None else "mask " + " ".join("1" if b else "0" for b in mask))
                     + f" | {npx} " + " ".join(f"{label_values[l]} {fmt(v)}" for l, v in zip(labs, vals)))
        if any(isinstance(o, Raised) for o in objs):
            impl.append("!construct")
            continue
        comb = d.CombinedModel(objs)
        out = call(comb, sig.copy()) if mask is None else call(comb, sig.copy(), np.array(mask).reshape(shape))
        impl.append(repr(out) if isinstance(out, Raised) else ("!shape" if np.asarray(out).shape != shape else dtok(out) + " " + fmts(np.asarray(out, dtype=float).ravel())))
        # the property on the implementation: the combination is its parts applied in order, each part called the way it is called alone
        # (a threshold part with the mask, a parameter model without)
        seq = sig.copy()
        for o in objs:
            seq = call(o, seq, np.array(mask).reshape(shape)) if isinstance(o, d.StaticThresholdModel) and mask is not None else call(o, seq)
            if isinstance(seq, Raised):
                break
        ctx.count(("combined-args", lines[-1]))
        if isinstance(seq, Raised) != isinstance(out, Raised) or (not isinstance(seq, Raised) and not np.array_equal(np.asarray(out), np.asarray(seq))):
            ctx.fail("C14:CombinedModel.__call__(img, *args):composition", "CombinedModel(parts)(signal, mask) differs from applying the parts in order "
                     "(threshold parts with the mask, parameter models without)",
                     {"line": lines[-1], "observed": impl[-1][:200], "required": repr(seq) if isinstance(seq, Raised) else dtok(seq) + " " + fmts(np.asarray(seq, dtype=float).ravel())[:200]})
    ctx.correspond("combined-call-with-extra-arguments", lines, impl)


def oracle_kernel(ctx, d):
    rng = np.random.default_rng(ctx.rng.randrange(2**31))
    worst_rep, worst_numba = 0.0, 0.0
    for trial in range(ctx.pick(6, 40)):
        ns = 1 + trial % 4
        gauss = trial % 3 != 2
        # distinct, well separated supports (well-conditioned kernel matrix)
        grid = np.array(list(itertools.product(range(3), repeat=3)), dtype=float)
        sup = grid[rng.choice(len(grid), ns, replace=False)] * (1.5 if gauss else 1.0) + rng.uniform(-0.05, 0.05, (ns, 3))
        if not gauss:  # linear kernel x.y + 1: use affinely independent points
            sup = np.vstack([np.zeros(3), np.eye(3)])[:ns] + rng.uniform(-0.05, 0.05, (ns, 3))
        vals = rng.uniform(0, 1, ns)
        kern = d.GaussianKernel(1.0) if gauss else d.LinearKernel(1.0)
        kname = type(kern).__name__
        ki = call(d.KernelInterpolation, kern, sup.copy(), vals.copy())
        ctx.count(("kernel", kname, ns))
        if isinstance(ki, Raised):
            ctx.fail(f"C14:KernelInterpolation({kname}):raises", f"construction raises {ki}", {"supports": sup.tolist(), "values": vals.tolist()})
            continue
        # the object may have reordered supports/values (np.unique); public attributes tell
        S, V = np.asarray(ki.supports, dtype=float), np.asarray(ki.values, dtype=float)
        rep = call(ki, S.astype(np.float32))
        if isinstance(rep, Raised) or np.asarray(rep).shape != (len(S),):
            ctx.fail(f"C14:KernelInterpolation({kname}).__call__:raises", f"evaluation at the supports: {rep!r}", {"supports": sup.tolist()})
            continue
        err = float(np.max(np.abs(np.asarray(rep, dtype=float) - V)))
        worst_rep = max(worst_rep, err)
        if not err <= 1e-4:
            ctx.fail(f"C14:KernelInterpolation({kname}):reproduction", "interpolant does not reproduce the values at its supports (1e-4)",
                     {"supports": sup.tolist(), "values": vals.tolist(), "error": err})
        for shape in ((3,), (5, 3), (2, 4, 3)):
            sig = rng.uniform(0, 2, shape).astype(np.float32)
            w = np.asarray(ki.interpolation_weights, dtype=np.float32)
            fast = call(kern.linear_combination, sig, ki.supports, w)
            plain = call(d.BaseKernel.linear_combination, kern, sig.astype(float), S, w.astype(float))
            viaobj = call(ki, sig)
            ctx.count(("numba", kname, ns, shape))
            if isinstance(fast, Raised) or isinstance(plain, Raised) or isinstance(viaobj, Raised):
                ctx.fail(f"C14:{kname}.linear_combination(signal.ndim={len(shape)}):raises", f"accelerated kernel sum raises: {fast!r} / {viaobj!r}", {"shape": list(shape), "supports": ns})
                continue
            scale = max(1.0, float(np.max(np.abs(plain))))
            e = float(np.max(np.abs(np.asarray(fast, dtype=float) - np.asarray(plain)))) / scale
            worst_numba = max(worst_numba, e)
            if np.asarray(fast).shape != shape[:-1] or not e <= 1e-5 or not np.allclose(viaobj, fast, atol=1e-6):
                ctx.fail(f"C14:{kname}.linear_combination(signal.ndim={len(shape)}):numba-vs-plain", "accelerated kernel sum differs from the plain kernel sum (1e-5)",
                         {"shape": list(shape), "supports": S.tolist(), "weights": w.tolist(), "signal": sig.tolist(), "error": e})
    ctx.cov["kernel_observed"] = {"max_reproduction_error": worst_rep, "max_numba_vs_plain_rel": worst_numba, "tolerances": [1e-4, 1e-5]}


# ---------------------------------------------------------------------------


def _parse_models(toks):
    """inverse of tok_model over a token list; returns (models, rest)"""
    ms = []
    while toks and toks[0] in ("clip", "scal", "lin", "het"):
        k = toks.pop(0)
        if k == "clip":
            lo, hi = toks.pop(0), toks.pop(0)
            ms.append(("clip", Fraction(lo), None if hi == "none" else Fraction(hi)))
        elif k == "scal":
            ms.append(("scaling", Fraction(toks.pop(0))))
        elif k == "lin":
            ms.append(("linear", Fraction(toks.pop(0)), Fraction(toks.pop(0))))
        else:
            L = int(toks.pop(0))
            ms.append(("het", L, [Fraction(toks.pop(0)) for _ in range(L)], [Fraction(toks.pop(0)) for _ in range(L)]))
    return ms, toks


def replay(data):
    """re-run one stored case on the implementation; print observed vs required; 1 if it still fails"""
    import darsia as d

    rp = data.get("replay", data)
    if "zero_update" in rp:
        z = rp["zero_update"]
        bad, got, want, wm = check_zero_update(d, z["kind"], z["dofs"], z["zero_is_float"], z["route"])
        print(json.dumps({"call": z, "expected_models_after": wm, "observed": got, "required": want, "still_failing": bad}, indent=1, default=str))
        return 1 if bad else 0
    if "label_sequence" in rp:
        k = rp["label_sequence"]
        bad = run_label_sequence(d, k["labels"], [tuple(x) for x in k["shapes"]], [Fraction(x) for x in k["scaling"]], [Fraction(x) for x in k["offset"]])
        print(json.dumps({"sequence": k, "still_failing": bool(bad), "now": bad}, indent=1, default=str))
        return 1 if bad else 0
    if "kernel_sequence" in rp:
        k = rp["kernel_sequence"]
        bad = run_kernel_sequence(d, k["kernel"], k["steps"], np.array(k["probe"], dtype=np.float32))
        print(json.dumps({"kernel": k["kernel"], "steps": k["steps"], "still_failing": bool(bad), "now": bad}, indent=1, default=str))
        return 1 if bad else 0
    if "advanced_sequence" in rp:
        k = dict(rp["advanced_sequence"])
        bad = run_advanced_sequence(d, k.pop("kernel"), k)
        print(json.dumps({"sequence": rp["advanced_sequence"], "still_failing": bool(bad), "now": bad}, indent=1, default=str))
        return 1 if bad else 0
    if "degree" in rp:
        poly, sizes = tabulate_poly(d)
        deg = rp["degree"]
        want = {(i, j) for i in range(deg + 1) for j in range(deg + 1 - i)}
        got = poly[deg]
        bad = isinstance(got, Raised) or set(got) != want or len(got) != len(want)
        print(json.dumps({"degree": deg, "exponents": None if isinstance(got, Raised) else got, "required": sorted(want), "still_failing": bad}, default=str))
        return 1 if bad else 0
    if "models" in rp and "parameters" in rp:
        models = [_parse_models(m.split())[0][0] for m in rp["models"]]
        ps = [Fraction(x) for x in rp["parameters"]]
        L = max([m[1] for m in models if m[0] == "het"] + [1])
        vals = [Fraction(k, 4) for k in range(-12, 13)]
        c = Case("comb", models, None, [(i % L, v) for i, v in enumerate(vals)], [5 * (i + 1) for i in range(L)], (5, 5))
        lab, sig = c.arrays()
        comb = d.CombinedModel([build(d, m, lab) for m in models])
        arr = np.array([float(x) for x in ps])
        if rp["dofs"] == "all":
            entries = [(pos, "all") for pos in range(len(models))]
            r = call(comb.update_model_parameters, arr)
        else:
            entries = [(p_, s_ if isinstance(s_, str) else list(s_)) for p_, s_ in rp["dofs"]]
            r = call(comb.update_model_parameters, arr, entries)
        got = r if isinstance(r, Raised) else call(comb, sig.copy())
        want = np.array([float(v) for v in ref_apply(ref_route(models, entries, ps), c.pix)]).reshape(c.shape)
        bad = isinstance(got, Raised) or not np.array_equal(got, want)
        print(json.dumps({"case": rp, "observed": repr(got) if isinstance(got, Raised) else np.asarray(got).ravel().tolist(),
                          "required": want.ravel().tolist(), "still_failing": bad}, indent=1, default=str))
        return 1 if bad else 0
    if "line" in rp and rp["line"].startswith("run "):
        toks = rp["line"].split()
        mode, dt = toks[1], toks[2]
        models, rest = _parse_models(toks[4:])
        bar2 = len(rest) - 1 - rest[::-1].index("|")
        pt = rest[bar2 + 2:]
        pix = [(int(pt[i]), Fraction(pt[i + 1])) for i in range(0, len(pt), 2)]
        L = max([m[1] for m in models if m[0] == "het"] + [max(l for l, _ in pix) + 1])
        side = int(round(len(pix) ** 0.5))
        shape = (side, side) if side * side == len(pix) else (1, len(pix))
        vals_ = sorted({l for l, _ in pix})
        pix = [(vals_.index(l), v) for l, v in pix]
        c = Case(mode, models, None, pix, vals_, shape, dt)
        got = c.run_impl(d)
        got = got if got.startswith("!") else got.split(" ", 1)[1]
        want = fmts(ref_apply(models, pix))
        print(json.dumps({"line": rp["line"], "note": "models applied without the update part", "observed": got, "required": want,
                          "still_failing": got != want}, indent=1))
        return 1 if got != want else 0
    print(json.dumps(rp, indent=1, default=str))
    return 0


def run(ctx):
    import darsia as d

    poly, sizes = tabulate_poly(d)
    disp, subsets = tabulate_dispatch(d)
    near = tabulate_nearest()
    dev = tabulate_near_dev(ctx)
    ctx.cov["cv2_nearest"] = {"rounding_points": len(dev), "sizes_up_to": NEAR_DEV_MAX, "rule": "index = floor(x n / N) except one below at these exact breakpoints"}
    ctx.write_gen("SignalTables", emit(poly, sizes, disp, subsets, near, dev))
    ctx.cov["generated_tables"] = {"poly_degrees": len(poly), "dispatch_entries": len(disp)}
    ctx.prove("C14")

    # correspondence: models / routing
    n_ok, n_bad = ctx.pick(260, 2600), ctx.pick(40, 400)
    cases = [gen_case(ctx.rng) for _ in range(n_ok)] + [gen_case(ctx.rng, malformed=True) for _ in range(n_bad)]
    lines = [c.line() for c in cases]
    impl = [c.run_impl(d) for c in cases]
    valid = sum(1 for r in impl if not r.startswith("!"))
    ctx.cov["valid_fraction"] = round(valid / len(impl), 3)
    diffs = ctx.correspond("models-and-routing", lines, impl)
    for i in diffs[:3]:
        c = cases[i]
        # is the *property* violated at this case? evaluate the defining formulas directly
        if c.upd is None and not impl[i].startswith("!"):
            want = fmts(ref_apply(c.models, c.pix))
            got_vals = impl[i].split(" ", 1)[1] if " " in impl[i] else ""
            # the isclose shortcut of ScalingModel is an implementation detail: scaling * x is as right as x
            if c.dtype in CORE_DTYPES and want != got_vals and fmts(ref_apply(c.models, c.pix, shortcut=False)) != got_vals:
                ctx.fail(f"C14:models:defining-formula(dtype={c.dtype})", "model output differs from its defining formula", {"line": lines[i], "observed": impl[i], "required": want})
    thr = [gen_thr(ctx.rng, d) for _ in range(ctx.pick(120, 1200))]
    ctx.correspond("static-threshold", [t[0] for t in thr], [t[1] for t in thr])
    pl = [f"poly {k}" for k in range(POLY_MAX + 1)]
    pi = []
    for k in range(POLY_MAX + 1):
        ex, s = poly[k], sizes[k]
        pi.append("!raises" if isinstance(ex, Raised) or isinstance(s, Raised) else f"{s} | " + " ".join("?" if e is None else f"{e[0]} {e[1]}" for e in ex))
    ctx.correspond("poly-exponents", pl, pi)

    wrapper_resize_boundary(ctx, d)
    combined_args_correspondence(ctx, d)
    oracle_poly(ctx, d, poly, sizes)
    oracle_models(ctx, d)
    oracle_threshold(ctx, d, thr)
    oracle_zero_updates(ctx, d)
    oracle_failed_updates(ctx, d)
    ctx.cov["update_paths_static"] = extract_update_paths()
    observe_image_inputs(ctx, d)
    oracle_label_sequences(ctx, d)
    oracle_kernel(ctx, d)
    oracle_kernel_sequences(ctx, d)
    oracle_wrapper_kernel(ctx, d)
    kernel_state_correspondence(ctx, d)
    linear_kernel_correspondence(ctx, d)
    oracle_kernel_parameters(ctx, d)
    ctx.cov["rule"] = ("distinct = distinct request lines / (clause, parameters); dyadic stream only (exact comparison); "
                       ">= 85 % of routing cases valid for the API, the rest checks error classes")
    ctx.assumptions += [
        "np.clip / numpy broadcasting / boolean mask assignment semantics (tied by the exact correspondence on dyadic inputs)",
        "np.isclose default tolerances 1e-8 + 1e-5 (ScalingModel shortcut); inputs stay away from the threshold",
        "kernel interpolation: exp, np.linalg.inv, float32 casts and numba kernels are observed with tolerances, not modelled",
        "kernel sums with NO supports are outside the quantifier (1..4 supports): the code then indexes weights[0] / supports[0] out of bounds and returns "
        "garbage; observed, not checked; kernel_loop_eq_plain_sum carries the guard",
        "states after a raising update are outside C14 (the theorems assume the call sequence does not raise; the correspondence stops at the first "
        "error and compares its class). What the code leaves behind is only recorded: failed_update_observations, update_paths_static",
        "signal shapes (decided from docs and usage): HeterogeneousModel is used on (H,W,3) colour signals with per-label KernelInterpolation "
        "(MultichromaticTracerAnalysis) - checked by the oracle and modelled generically (wrapCallG); with element-wise sub-models it takes (H,W) only; "
        "label-wise StaticThresholdModel documents scalar signals (img: np.ndarray, thresholds per label) - (H,W,C) raises and is outside the API; "
        "HeterogeneousLinearModel takes (H,W) and (H,W,C) signals with 2-D labels (both in the tie)",
    ]
    import shutil

    shutil.rmtree(_NUMBA_TMP, ignore_errors=True)
