"""C06 - finite-volume operators obey the discrete divergence theorem.

Model: lean/DarsiaModel/FV.lean on lean/DarsiaModel/Grid.lean (generic dimension).  Theorems: DarsiaProps.C06.
Tie: exact correspondence (dyadic voxel sizes and data => every float operation of the implementation is exact) of
FVDivergence.mat (dense), mat @ U, FVMass.mat, face_to_cell, cell_to_face_average (arithmetic exact, harmonic to 4 ulp),
FVTangentialFaceReconstruction, FVFullFaceReconstruction on all 186 shapes of the stated range.
Oracle: the statement (net outflow, zero total, adjointness, mass, RT0 interpolation, means, tangential constants)
evaluated on the implementation for dyadic and generic float data.
"""
from __future__ import annotations

from fractions import Fraction

import numpy as np

from ..lib.core import flist, fmt, frac
from ..lib.impl import Raised, call
from .c07 import all_shapes

LEVEL = "proof"
CLAIM = dict(
    category="proof",
    text="Theorems in DarsiaProps.C06 for every shape / voxel-size list / flux / field (the code only builds grids passing gridGuard: dims 1-3, "
    "extents >= 1, len(voxel_size) = dim). OPERATIONAL models proved equal to the pointwise ones: the divergence matrix as the code assembles it "
    "(2*num_faces COO triplets summed, div_assembled_eq) and face_to_cell as coded (zeros + two slice accumulations per component, "
    "face_to_cell_table_eq); on these: div U = each cell's net outflow (div_is_net_outflow), every column sums to zero, total divergence "
    "vanishes, divergence is the negative adjoint of the area-weighted face difference, the reconstruction takes the face value at the face "
    "from both sides, the mean at the centre, zero on the boundary; harmonic mean 2xy/(x+y) for positive data, 0 with a zero, NaN with a "
    "negative neighbour, below the arithmetic mean; tangential reconstruction reproduces constants on the code's interior faces. Definitional "
    "restatements (marked as such in the Lean file, their content is the tie): mass = vol*I, arithmetic mean, component selection "
    "(vector component a / tensor diagonal a,a), shape dispatch table, full reconstruction keeps the normal component. Tie: exact equality "
    "model = implementation on all 186 shapes x dyadic voxel sizes x dyadic data for every operator, the driver evaluating the operational "
    "tables (assembled matrix for the smaller grids, accumulated reconstruction always), all forms of the voxel-size argument, the shape "
    "dispatch of cell_to_face_average incl. rejected layouts, zero / negative data for the harmonic mean, raising paths of FVMass (mode / lumping) and of "
    "the averaging mode (massGuard, avgModeOf). ORACLE: lower/upper cell, face axis and the faces of a cell are computed from shape arithmetic "
    "(own_tables), not read from the grid, so orientation and adjacency are asserted here independently of C07; the tangential clause is tested "
    "under the theorem's hypothesis (flux constant on ONE axis only, random elsewhere).",
    note="Round 7: the oracle takes the face numbering from the grid after validating each connectivity row by shape arithmetic, allows 8 ulp on the dyadic stream, and claims failing inputs only for stated clauses; lumped face mass, full_keeps_normal, accepted scalar/int/default voxel-size forms are TIE-BROKEN marks, memory sharing / input modification observations, container aliasing is allowed (fail = operators inconsistent with grid.voxel_size). scipy.sparse assembly and numpy slice += are modelled as accumulation through index arrays (accumN); numpy slicing + ravel('F') of the "
    "index arrays pointwise; harmonic mean compared to 4 ulp (scipy hmean divides); in 1-D the dispatch is observable only as accepted/rejected.",
    technique="Lean 4 proof (finite sums by induction, indicator sums over the numbering bijection, accumulation lemmas) + exhaustive-in-range exact correspondence",
)

DYADIC_H = [0.25, 0.5, 0.75, 1.0, 1.5, 2.0, 3.0]


def lst(xs):
    return flist(xs)


def shape_tok(shape):
    return f"{len(shape)} " + " ".join(map(str, shape))


def rats(xs):
    return " ".join(fmt(x) for x in np.asarray(xs, dtype=float).ravel())


def sep(parts):
    return " | ".join(parts)


def dy(rng, n, lo=-16, hi=16, den=8):
    return np.array([rng.randint(lo, hi) / den for _ in range(n)], dtype=float)


def own_tables(shape):
    """faces of a tensor grid from shape arithmetic alone (DarSIA's numbering: axis-major, Fortran order): per face
    (axis, lower cell, upper cell); and per (axis, cell) the lower / upper face or -1. Independent of the implementation."""
    dim = len(shape)
    nc = int(np.prod(shape))
    faces = []
    rev = -np.ones((dim, nc, 2), dtype=int)
    for a in range(dim):
        fs = list(shape)
        fs[a] -= 1
        for k in range(int(np.prod(fs))):
            idx = list(np.unravel_index(k, fs, order="F"))
            lo = int(np.ravel_multi_index(idx, shape, order="F"))
            idx[a] += 1
            hi = int(np.ravel_multi_index(idx, shape, order="F"))
            rev[a, lo, 1] = len(faces)
            rev[a, hi, 0] = len(faces)
            faces.append((a, lo, hi))
    return faces, rev


def face_axis(g, f):
    for a in range(g.dim):
        fa = g.faces[a]
        if len(fa) and fa[0] <= f <= fa[-1]:
            return a
    raise IndexError(f)


# ------------------------------------------------------------------ implementation side printing


def impl_divmat(d, g):
    m = d.FVDivergence(g).mat
    A = np.asarray(m.toarray(), dtype=float)
    if A.shape != (int(g.num_cells), int(g.num_faces)):
        return f"!shape {A.shape}"
    cols = []
    for f in range(A.shape[1]):
        nz = np.nonzero(A[:, f])[0]
        cols.append(" ".join(f"{int(c)}:{fmt(A[c, f])}" for c in nz))
    return " ; ".join(cols)


def impl_div(d, g, U):
    v = d.FVDivergence(g).mat @ U
    return sep([rats(v), rats(v)])


def impl_mass(d, g):
    out = []
    for mode, n in (("cells", int(g.num_cells)), ("faces", int(g.num_faces))):
        M = np.asarray(d.FVMass(g, mode).mat.toarray(), dtype=float)
        if M.shape != (n, n):
            out.append(f"!shape {M.shape}")
            continue
        diag = np.diag(M) if n else np.zeros(0)
        off = M - np.diag(diag) if n else M
        const = fmt(diag[0]) if n and np.all(diag == diag[0]) else ("!nonconstant" if n else fmt(np.prod(g.voxel_size)))
        out.append(f"{n} {const} {'0' if not np.any(off) else '!offdiag'}")
    return sep(out)


def impl_f2c(d, g, U, pt):
    cf = d.face_to_cell(g, U, pt)
    return rats(np.stack([cf[..., a].ravel("F") for a in range(g.dim)], axis=1))


def build_q(g, kind, comps, rng):
    """cell quantity array of the given kind whose relevant components are comps[a] (flat, F order)."""
    shape = tuple(g.shape)
    dim = g.dim
    if kind == "scalar":
        return comps[0].reshape(shape, order="F")
    if kind == "scalar1":
        return comps[0].reshape(shape, order="F")[..., None]
    if kind == "vector":
        return np.stack([comps[a].reshape(shape, order="F") for a in range(dim)], axis=-1)
    q = np.array([rng.randint(1, 9) / 4 for _ in range(int(np.prod(shape)) * dim * dim)]).reshape(shape + (dim, dim))
    for a in range(dim):
        q[..., a, a] = comps[a].reshape(shape, order="F")
    return q


def kinds_for(dim):
    # for dim == 1 a trailing axis of length 1 is read as a scalar field
    return ["scalar", "scalar1", "tensor"] + (["vector"] if dim > 1 else [])


# ------------------------------------------------------------------ oracle


def close(a, b, scale, exact):
    a = np.asarray(a, dtype=float)
    b = np.asarray(b, dtype=float)
    if exact:
        # dyadic stream: a few ulp of the absolute term sum (a legitimately different evaluation order, e.g. dividing by h, may round);
        # bit-exactness is demanded by the correspondence only
        return a.shape == b.shape and bool(np.all(np.abs(a - b) <= 8 * 2.0 ** -52 * (scale + 1e-300)))
    return a.shape == b.shape and bool(np.all(np.abs(a - b) <= 1e-12 * (scale + 1e-300)))


def oracle(ctx, d, shape, hs, rng, exact):
    """Evaluate the statement of C06 on the implementation for one grid. exact: dyadic data, no tolerance."""
    dim = len(shape)
    tag = "dyadic" if exact else "float"
    rp = {"shape": list(shape), "voxel_size": [float(x) for x in hs], "stream": tag}

    def fail(sig, what, **kw):
        ctx.fail(f"C06:{sig}:dim={dim}", f"Grid{tuple(shape)} h={list(hs)}: {what}", {**rp, **kw})
        return False

    try:
        g = d.Grid(tuple(shape), list(hs))
        nf, nc = int(g.num_faces), int(g.num_cells)
        if exact:
            U = dy(rng, nf)
            Pc = dy(rng, nc)
        else:
            U = np.array([rng.uniform(-2, 2) for _ in range(nf)])
            Pc = np.array([rng.uniform(-2, 2) for _ in range(nc)])
        rp.update(flux=U.tolist(), field=Pc.tolist())
        # orientation, adjacency and face axis come from shape arithmetic (own_tables), NOT from the grid's own tables: the lower
        # cell of a face is the one with the smaller index along the face's normal axis
        own_faces, own_rev0 = own_tables(shape)
        if len(own_faces) != nf:
            return fail("num_faces", f"num_faces={nf}, shape arithmetic gives {len(own_faces)}")
        # the face NUMBERING is not part of the statement: take the grid's rows, but only after checking by shape arithmetic that every
        # row is a (lower, upper) neighbour pair along one axis and that every neighbour pair occurs exactly once
        want_pairs = {(lo, hi): a for (a, lo, hi) in own_faces}
        gconn = np.asarray(g.connectivity, dtype=int).reshape(nf, 2)
        seen = set()
        fax = np.zeros(nf, dtype=int)
        for f in range(nf):
            pr = (int(gconn[f, 0]), int(gconn[f, 1]))
            if pr not in want_pairs or pr in seen:
                return fail("orientation", f"face {f} joins cells {pr}: not a (lower, upper) neighbour pair along one axis, or listed twice", face=f, cells=list(pr))
            seen.add(pr)
            fax[f] = want_pairs[pr]
        conn = gconn
        own_rev = -np.ones_like(own_rev0)
        for f in range(nf):
            own_rev[fax[f], conn[f, 0], 1] = f
            own_rev[fax[f], conn[f, 1], 0] = f
        areas = np.array([np.prod([hs[b] for b in range(dim) if b != a]) for a in range(dim)] or [1.0])
        # 1. divergence = net outflow
        D = d.FVDivergence(g).mat
        div = np.asarray(D @ U).ravel()
        net = np.zeros(nc)
        mag = np.zeros(nc)
        for f in range(nf):
            lo, hi = int(conn[f, 0]), int(conn[f, 1])
            t = areas[fax[f]] * U[f]
            net[lo] += t
            net[hi] -= t
            mag[lo] += abs(t)
            mag[hi] += abs(t)
        if not close(div, net, mag, exact):
            c = int(np.argmax(np.abs(div - net))) if div.shape == net.shape else -1
            return fail("div_is_net_outflow", f"(div U)[{c}]={div[c] if c >= 0 else div.shape} but net outflow of cell {c} is {net[c] if c >= 0 else net.shape}", cell=c)
        # 2. total divergence vanishes
        tot = float(np.sum(div))
        if abs(tot) > (8 * 2.0 ** -52 if exact else 1e-12) * (np.sum(mag) + 1e-300):
            return fail("sum_div_zero", f"sum of divergence = {tot}")
        # 3. adjointness
        lhs = float(Pc @ div)
        rhs = -float(sum(areas[fax[f]] * U[f] * (Pc[conn[f, 1]] - Pc[conn[f, 0]]) for f in range(nf)))
        sc = float(np.sum(np.abs(Pc)) * (np.max(mag) if nc else 0.0))
        if abs(lhs - rhs) > (8 * 2.0 ** -52 if exact else 1e-12) * (sc + 1e-300):
            return fail("div_adjoint", f"<p, div u> = {lhs} but -<grad p, u>_area = {rhs}")
        # 4. mass
        v = float(np.prod(hs))
        for mode, n in (("cells", nc), ("faces", nf)):
            M = np.asarray(d.FVMass(g, mode).mat.toarray())
            if M.shape != (n, n) or not close(M, v * np.eye(n), v, exact):
                if mode == "faces":
                    # the statement says "scale by voxel volume"; the lumped diagonal form is the model's, not the statement's
                    ctx.mark("TIE-BROKEN", {"correspondence": "FVMass(faces)=vol*I", "shape": list(shape), "voxel_size": [float(x) for x in hs]})
                    continue
                return fail(f"mass_diag:{mode}", f"FVMass({mode}) is not prod(voxel_size)*I = {v}*I")
        # 5. RT0 interpolation
        rev = own_rev
        pts = [None, np.zeros(dim), np.ones(dim), np.array([rng.choice((0.0, 0.25, 0.5, 0.75, 1.0)) if exact else rng.random() for _ in range(dim)])]
        for pt in pts:
            cf = d.face_to_cell(g, U, None if pt is None else (pt.copy() if dim > 1 else float(pt[0])))
            p = np.ones(dim) / 2 if pt is None else pt
            want = np.zeros(tuple(shape) + (dim,))
            for c in range(nc):
                idx = np.unravel_index(c, tuple(shape), order="F")
                for a in range(dim):
                    fhi, flo = int(rev[a, c, 1]), int(rev[a, c, 0])
                    uhi = U[fhi] if fhi != -1 else 0.0
                    ulo = U[flo] if flo != -1 else 0.0
                    want[idx + (a,)] = p[a] * uhi + (1 - p[a]) * ulo
            if np.asarray(cf).shape != want.shape or not close(cf, want, np.max(np.abs(U)) if nf else 0.0, exact):
                return fail("rt0_interp", f"face_to_cell at pt={None if pt is None else pt.tolist()} is not pt*u_hi+(1-pt)*u_lo", pt=None if pt is None else pt.tolist())
        # 6. cell-to-face means (positive data for the harmonic mean)
        for kind in kinds_for(dim):
            comps = [np.array([rng.randint(1, 32) / 8 if exact else rng.uniform(0.1, 3) for _ in range(nc)]) for _ in range(dim)]
            if kind.startswith("scalar"):
                comps = [comps[0]] * dim
            q = build_q(g, kind, comps, rng)
            for mode in ("arithmetic", "harmonic"):
                got = np.asarray(d.cell_to_face_average(g, q, mode)).ravel()
                x = np.array([comps[fax[f]][conn[f, 0]] for f in range(nf)])
                y = np.array([comps[fax[f]][conn[f, 1]] for f in range(nf)])
                want = 0.5 * (x + y) if mode == "arithmetic" else (2 * x * y / (x + y) if nf else x)
                ok = got.shape == want.shape and (np.array_equal(got, want) if (exact and mode == "arithmetic") else bool(np.all(np.abs(got - want) <= 1e-12 * np.abs(want))))
                if not ok:
                    return fail(f"c2f_{mode}:{kind}", f"cell_to_face_average({kind}, {mode}) is not the {mode} mean of the two neighbours (component/diagonal of the face axis)",
                                kind=kind, mode=mode, q=q.tolist())
                # scale-free: extreme magnitudes against exact rational arithmetic, and homogeneity for power-of-two factors
                for sc in (2.0 ** -45, 2.0 ** 40, 2.0 ** -300):
                    gs = np.asarray(d.cell_to_face_average(g, q * sc, mode)).ravel()
                    xs, ys = x * sc, y * sc
                    for f in range(nf):
                        fx, fy = Fraction(float(xs[f])), Fraction(float(ys[f]))
                        ex = (fx + fy) / 2 if mode == "arithmetic" else 2 * fx * fy / (fx + fy)
                        if abs(Fraction(float(gs[f])) - ex) > Fraction(1, 10 ** 12) * abs(ex):
                            return fail(f"c2f_{mode}:{kind}:scale", f"cell_to_face_average({kind}, {mode}) of neighbours {float(xs[f])!r}, {float(ys[f])!r} is {float(gs[f])!r}, exact mean {float(ex)!r}",
                                        kind=kind, mode=mode, scale=sc, q=(q * sc).tolist(), face=f)
                    if gs.shape != got.shape or not np.array_equal(gs, got * sc):
                        return fail(f"c2f_{mode}:{kind}:homogeneity", f"cell_to_face_average({kind}, {mode}): mean(s*a, s*b) != s*mean(a, b) for s={sc!r}",
                                    kind=kind, mode=mode, scale=sc, q=q.tolist())
        # 7. tangential reconstruction reproduces constants on interior faces
        if dim >= 2:
            k = 1.75
            full = np.asarray(d.FVFullFaceReconstruction(g)(k * np.ones(nf)))
            tan = d.FVTangentialFaceReconstruction(g)(k * np.ones(nf), False)
            for a in range(dim):
                for f in np.asarray(g.interior_faces[a], dtype=int).ravel():
                    if not all(float(t[f]) == k for t in tan) or not np.all(full[f] == k):
                        return fail("tangential_const", f"constant flux {k}: reconstruction at interior face {int(f)} (axis {a}) gives {full[f].tolist()}", face=int(f), axis=a)
            # the theorem's hypothesis: constant ONLY on the faces of one axis b, arbitrary elsewhere -> component b of the
            # reconstruction at the interior faces of every other axis a is that constant (and nothing is said about the rest)
            R = d.FVFullFaceReconstruction(g)
            for b in range(dim):
                kb = rng.choice((0.75, -1.25, 2.5))
                Ut = dy(rng, nf) if exact else np.array([rng.uniform(-2, 2) for _ in range(nf)])
                Ut[fax == b] = kb
                fr = np.asarray(R(Ut))
                for a in range(dim):
                    if a == b:
                        continue
                    own_interior = [f for f in range(nf) if fax[f] == a and all(own_rev[bb, c, sd] != -1 for bb in range(dim) if bb != a for c in conn[f] for sd in (0, 1))]
                    for f in own_interior:
                        if float(fr[f, b]) != kb:
                            return fail("tangential_const", f"flux equal to {kb} on all faces of axis {b} (random elsewhere): component {b} of the reconstruction at interior face "
                                        f"{int(f)} of axis {a} is {float(fr[f, b])!r}", face=int(f), axis=a, tangential_axis=b, flux=Ut.tolist())
            # and the normal component is kept
            fu = np.asarray(d.FVFullFaceReconstruction(g)(U))
            if fu.shape != (nf, dim) or any(fu[f, fax[f]] != U[f] for f in range(nf)):
                ctx.mark("TIE-BROKEN", {"correspondence": "full_keeps_normal", "shape": list(shape)})
        # 8. call sequences: one operator object applied to several inputs - every returned result stays what it was, equals the
        #    result of a fresh object, shares no memory with other results or with the inputs, and the inputs are left unchanged
        Ua = U.copy()
        Ub = dy(rng, nf) if exact else np.array([rng.uniform(-2, 2) for _ in range(nf)])
        ops = {
            "FVFullFaceReconstruction": (lambda: d.FVFullFaceReconstruction(g), lambda op, x: op(x)),
            "FVDivergence.mat": (lambda: d.FVDivergence(g).mat, lambda op, x: op @ x),
            "face_to_cell": (lambda: None, lambda op, x: d.face_to_cell(g, x)),
        }
        if dim >= 2:
            ops["FVTangentialFaceReconstruction"] = (lambda: d.FVTangentialFaceReconstruction(g), lambda op, x: op(x, True))
            ops["FVTangentialFaceReconstruction(list)"] = (lambda: d.FVTangentialFaceReconstruction(g), lambda op, x: np.stack(op(x, False)))
        for name, (mk, ap) in ops.items():
            op = mk()
            xa, xb = Ua.copy(), Ub.copy()
            ra = ap(op, xa)
            ra0 = np.array(ra, copy=True)
            rb = ap(op, xb)
            rs = ap(op, xa + xb)
            fresh_b = ap(mk(), Ub.copy())
            if not np.array_equal(np.asarray(ra), ra0):
                return fail(f"call-sequence:{name}", f"{name}: the result of the first application changed when the same object was applied to a second input "
                            f"(results share one output array)", operator=name, flux_b=Ub.tolist())
            lin_scale = (float(np.max(np.abs(Ua))) + float(np.max(np.abs(Ub)))) * 2 * dim * max(1.0, float(np.max(areas))) if nf else 0.0
            if not (np.asarray(rb).shape == np.asarray(fresh_b).shape and bool(np.all(np.abs(np.asarray(rb) - np.asarray(fresh_b)) <= 1e-12 * (lin_scale + 1e-300)))):
                return fail(f"call-sequence:{name}", f"{name}: the second application of one object gives another result than the operator on that input "
                            f"(the stated law for {name} fails on a re-used object)", operator=name, flux_b=Ub.tolist())
            if isinstance(ra, np.ndarray) and isinstance(rb, np.ndarray) and ra.size and np.shares_memory(ra, rb):
                obs = ctx.cov.setdefault("observations_outside_the_statement", []) if hasattr(ctx, "cov") else []
                if len(obs) < 20:
                    obs.append(f"{name}: two results share memory")
            if not (np.array_equal(xa, Ua) and np.array_equal(xb, Ub)):
                obs = ctx.cov.setdefault("observations_outside_the_statement", []) if hasattr(ctx, "cov") else []
                if len(obs) < 20:
                    obs.append(f"{name} changed its input flux")
            lin_ok = bool(np.all(np.abs(np.asarray(rs) - (ra0 + np.asarray(rb))) <= (8 * 2.0 ** -52 if exact else 1e-12) * (lin_scale + 1e-300)))
            if not lin_ok:
                return fail(f"linearity:{name}", f"{name}: R(a + b) != R(a) + R(b)", operator=name, flux_b=Ub.tolist())
    except Exception as e:  # noqa: BLE001
        # the harness could not digest a result (representation change) or the operator raised: not a claimed failing input
        if hasattr(ctx, "mark"):
            ctx.mark("HARNESS-EXCEPTION", {"where": "c06.oracle", "shape": list(shape), "error": f"{type(e).__name__}: {str(e)[:200]}"})
            return False
        return fail("raises", f"{type(e).__name__}: {e}")
    return True


# ------------------------------------------------------------------ run


def run(ctx):
    import darsia as d

    ctx.prove("C06")
    rng = ctx.rng
    shapes = all_shapes()
    n_h = ctx.pick(1, 3)
    n_fields = ctx.pick(1, 3)
    dense_cap = ctx.pick(6000, 10 ** 9)
    asm_cap = ctx.pick(700, 3000)  # assembled (COO-summed) matrix dumped up to this num_cells*num_faces
    lines, impl = [], []
    hlines, himpl_vals = [], []

    def add(line, fn):
        lines.append(line)
        r = call(fn)
        impl.append(repr(r) if isinstance(r, Raised) else r)

    for shape in shapes:
        dim = len(shape)
        for hi in range(n_h):
            hs = [rng.choice(DYADIC_H) for _ in range(dim)]
            g = call(d.Grid, tuple(shape), list(hs))
            if isinstance(g, Raised):
                ctx.fail(f"C06:Grid:raises:dim={dim}", f"Grid{shape} raises {g}", {"shape": list(shape)})
                continue
            nf, nc = int(g.num_faces), int(g.num_cells)
            S, H = shape_tok(shape), lst(hs)
            if nf * nc <= dense_cap:
                add(f"divmat {S} {H} 0", lambda: impl_divmat(d, g))
            if nf * nc <= asm_cap:
                # the matrix as the code assembles it (COO triplets summed): operational model `divAssembled`
                add(f"divmat {S} {H} 1", lambda: impl_divmat(d, g))
            add(f"mass {S} {H}", lambda: impl_mass(d, g))
            for _ in range(n_fields):
                U = dy(rng, nf)
                dense = 1 if nf * nc <= dense_cap // 2 else 0
                add(f"div {S} {H} {lst(U)} {dense}", lambda: impl_div(d, g, U))
                pt = np.array([rng.choice((0.0, 0.25, 0.5, 1.0, rng.randint(0, 16) / 16)) for _ in range(dim)])
                add(f"f2c {S} {lst(pt)} {lst(U)}", lambda: impl_f2c(d, g, U, pt if dim > 1 else float(pt[0])))
                if dim == 1:  # the 1-D evaluation point given as a length-1 array instead of a float
                    add(f"f2c {S} {lst(pt)} {lst(U)}", lambda: impl_f2c(d, g, U, np.array([float(pt[0])])))
                add(f"tang {S} {lst(U)}", lambda: sep([rats(t) for t in d.FVTangentialFaceReconstruction(g)(U, False)]))
                add(f"full {S} {lst(U)}", lambda: rats(d.FVFullFaceReconstruction(g)(U)))
                kind = rng.choice(kinds_for(dim))
                lo_val = rng.choice((1, 0, 0, -3))  # zeros (harmonic mean 0) and negatives (harmonic mean NaN) included
                comps = [np.array([rng.randint(lo_val, 24) / 4 for _ in range(nc)]) for _ in range(dim)]
                if kind.startswith("scalar"):
                    comps = [comps[0]] * dim
                q = build_q(g, kind, comps, rng)
                # the model receives the FULL cell array (all vector components / tensor entries) and selects itself
                mk = "scalar" if kind.startswith("scalar") else kind
                if mk == "scalar":
                    flat = q.ravel("F")
                elif mk == "vector":
                    flat = np.stack([q[..., i].ravel("F") for i in range(dim)], axis=1).ravel()
                else:
                    flat = np.stack([np.stack([q[..., i, j].ravel("F") for j in range(dim)], axis=1) for i in range(dim)], axis=1).ravel()
                add(f"c2fq arithmetic {mk} {S} {lst(flat)}", lambda: rats(d.cell_to_face_average(g, q, "arithmetic")))
                r = call(d.cell_to_face_average, g, q, "harmonic")
                hlines.append(f"c2fq harmonic {mk} {S} {lst(flat)}")
                himpl_vals.append(r)
            # default evaluation point (cell centre)
            U = dy(rng, nf)
            add(f"f2c {S} {lst([0.5] * dim)} {lst(U)}", lambda: rats(np.stack([d.face_to_cell(g, U)[..., a].ravel('F') for a in range(dim)], axis=1)))
    # every accepted form of the voxel-size argument: scalar float / int, default, list, tuple, ndarray (the model gets the
    # per-axis list the documentation promises: a scalar h means h in every direction)
    forms = 0
    form_stats = {}
    for shape in [(3,), (3, 4), (1, 5), (2, 3, 2), (4, 1, 2)] + [tuple(rng.randint(1, 4) for _ in range(rng.choice((2, 3)))) for _ in range(ctx.pick(4, 20))]:
        dim = len(shape)
        hv = rng.choice((0.25, 0.5, 2.0, 1.5))
        aniso = [rng.choice(DYADIC_H) for _ in range(dim)]
        for tag, arg, hs in (("scalar", hv, [hv] * dim), ("int", 2, [2.0] * dim), ("default", None, [1.0] * dim), ("list", list(aniso), aniso),
                             ("ndarray", np.array(aniso), aniso), ("tuple", tuple(aniso), aniso)):
            g = call(d.Grid, tuple(shape)) if arg is None else call(d.Grid, tuple(shape), arg)
            rp = {"shape": list(shape), "voxel_size_argument": tag, "value": None if arg is None else np.asarray(arg).tolist()}
            form_stats.setdefault(tag, [0, 0])[0] += 1
            if isinstance(g, Raised):
                form_stats[tag][1] += 1
                if tag == "list":
                    ctx.fail(f"C06:Grid:voxel_size={tag}:raises:dim={dim}", f"Grid({shape}, voxel_size={rp['value']}) raises {g}", rp)
                elif tag in ("scalar", "int", "default"):
                    # which other argument forms are accepted is the model's (gridGuard / documentation), not the statement's
                    ctx.mark("TIE-BROKEN", {"correspondence": f"Grid accepts voxel_size form '{tag}'", "shape": list(shape), "error": repr(g)})
                continue
            forms += 1
            ctx.count(("vs-form", shape, tag, tuple(hs)))
            # the grid must not depend on what the caller does with its container afterwards (e.g. `h *= 2` for the next level
            # of a grid hierarchy): change it in place where possible; everything below still refers to the ORIGINAL sizes
            try:
                if isinstance(arg, np.ndarray):
                    arg *= 2.0
                elif isinstance(arg, list):
                    arg[0] = arg[0] * 2.0
            except Exception:  # noqa: BLE001
                pass
            try:
                vs_now = [float(x) for x in np.asarray(g.voxel_size, dtype=float).ravel()]
            except Exception:  # noqa: BLE001
                vs_now = None
            if vs_now is not None and vs_now != [float(x) for x in hs]:
                # aliasing the caller's container is not excluded by the statement; what the statement requires is that the operators of
                # this grid agree with the voxel sizes the grid NOW reports: mass = prod(voxel_size), divergence entries = face areas
                ctx.cov.setdefault("observations_outside_the_statement", []).append(f"Grid.voxel_size follows the caller's {tag} container")
                try:
                    vnow = float(np.prod(vs_now))
                    Mc = np.asarray(d.FVMass(g, "cells").mat.toarray())
                    Dm = np.abs(np.asarray(d.FVDivergence(g).mat.toarray()))
                    ok_mass = bool(np.allclose(np.diag(Mc), vnow, rtol=1e-12, atol=0)) if Mc.size else True
                    areas_now = sorted(set(round(vnow / x, 12) for x in vs_now))
                    ok_div = all(any(abs(v_ - a_) <= 1e-12 * a_ for a_ in areas_now) for v_ in np.unique(Dm[Dm > 0]))
                    if not (ok_mass and ok_div):
                        ctx.fail(f"C06:operators-inconsistent-with-grid.voxel_size:{tag}:dim={dim}", f"Grid({shape}, voxel_size=<{tag}> {rp['value']}), container changed by the caller afterwards: "
                                 f"grid.voxel_size = {vs_now} but mass diagonal {np.diag(Mc)[:1].tolist()} / divergence entries {np.unique(Dm[Dm > 0]).tolist()[:4]} "
                                 f"are not its voxel volume {vnow} / face areas {areas_now}", rp)
                except Exception as e:  # noqa: BLE001
                    ctx.mark("HARNESS-EXCEPTION", {"where": "c06 voxel-size consistency", "error": f"{type(e).__name__}: {str(e)[:160]}"})
                hs = vs_now  # the statement is evaluated on the sizes the grid reports
            S, H = shape_tok(shape), lst(hs)
            U = dy(rng, int(g.num_faces))
            add(f"divmat {S} {H} 1", lambda: impl_divmat(d, g))
            add(f"mass {S} {H}", lambda: impl_mass(d, g))
            add(f"div {S} {H} {lst(U)} 1", lambda: impl_div(d, g, U))
            # statement on the implementation: mass = prod of the per-axis voxel sizes
            try:
                v = float(np.prod(hs))
                for mode, n in (("cells", int(g.num_cells)), ("faces", int(g.num_faces))):
                    M = np.asarray(d.FVMass(g, mode).mat.toarray())
                    if mode == "faces" and (M.shape != (n, n) or not np.array_equal(M, v * np.eye(n))):
                        ctx.mark("TIE-BROKEN", {"correspondence": "FVMass(faces)=vol*I", "shape": list(shape), "form": tag})
                        continue
                    if M.shape != (n, n) or not np.allclose(M, v * np.eye(n), rtol=1e-12, atol=0):
                        ctx.fail(f"C06:mass_diag:{mode}:voxel_size={tag}:dim={dim}", f"Grid({shape}, voxel_size={rp['value']}): FVMass({mode}) diagonal "
                                 f"{(np.diag(M)[:1].tolist() if n else [])} is not the voxel volume {v}", rp)
                        break
            except Exception as e:  # noqa: BLE001
                ctx.fail(f"C06:mass_diag:raises:voxel_size={tag}:dim={dim}", f"{type(e).__name__}: {e}", rp)
    ctx.cov["voxel_size_argument_forms"] = forms
    ctx.cov["voxel_size_argument_forms_tried_raised"] = form_stats
    for tag, (tried, raised) in form_stats.items():
        if tried and raised == tried:
            # a form that is rejected in EVERY case is not "covered": say so loudly (undocumented forms: ndarray, tuple)
            ctx.notes.append(f"voxel_size form '{tag}' raised in all {tried} cases - not exercised")
            ctx.log(f"NOTE voxel_size form '{tag}' raised in all {tried} cases")
    # dispatch of cell_to_face_average on cell_qty.shape (scalar / vector / tensor / NotImplementedError)
    for dim, gshape in ((1, (3,)), (2, (2, 3)), (3, (2, 2, 2))):
        g = call(d.Grid, gshape, [1.0] * dim)
        if isinstance(g, Raised):
            continue
        for tr in ([], [1], [dim], [dim, dim], [dim + 1], [1, 1], [dim, dim, 1], [dim, 1], [2], [3], [dim + 1, dim + 1]):
            q = np.zeros(tuple(gshape) + tuple(tr))
            q[...] = 1 + np.arange(int(np.prod(tr)) if tr else 1).reshape(tr if tr else ())
            r = call(d.cell_to_face_average, g, q, "arithmetic")
            if isinstance(r, Raised):
                obs = repr(r)
            else:
                vals = np.asarray(r).ravel()
                ax = np.array([face_axis(g, f) for f in range(int(g.num_faces))])
                if dim == 1:
                    obs = None  # every reading gives the same number in 1-D: only accepted / rejected is observable
                elif np.array_equal(vals, np.ones(len(vals))):
                    obs = "scalar"
                elif np.array_equal(vals, 1.0 + ax):
                    obs = "vector"
                elif np.array_equal(vals, 1.0 + ax * dim + ax):
                    obs = "tensor"
                else:
                    obs = "!unrecognised"
            if obs is None:
                # 1-D: every reading gives the same number, only accepted / rejected is observable: the model answers the same question
                lines.append(f"c2fshapeok {dim} {len(tr)} " + " ".join(map(str, tr)))
                impl.append("accepted")
            else:
                lines.append(f"c2fshape {dim} {len(tr)} " + " ".join(map(str, tr)))
                impl.append(obs)
    # raising paths of the constructors / mode arguments (error class as data)
    g0 = call(d.Grid, (2, 2), [1.0, 1.0])
    if not isinstance(g0, Raised):
        for mode, lump in (("cells", True), ("cells", False), ("faces", True), ("faces", False), ("edges", True), ("", True)):
            r = call(d.FVMass, g0, mode, lump)
            lines.append(f"massguard {mode or '-'} {int(lump)}")
            impl.append(repr(r) if isinstance(r, Raised) else "ok")
        for mname in ("arithmetic", "harmonic", "geometric", "Arithmetic", ""):
            r = call(d.cell_to_face_average, g0, np.ones((2, 2)), mname)
            lines.append(f"c2fmode {mname or '-'}")
            impl.append(repr(r) if isinstance(r, Raised) else "ok")
    ctx.correspond("fv-operators-exact", lines, impl)

    # harmonic mean: numeric comparison (scipy's hmean divides, so not exact even on dyadic data)
    got = ctx.model(hlines)
    worst = 0.0
    bad = 0
    nan_seen = 0
    for line, m, r in zip(hlines, got, himpl_vals):
        ctx.count(("harm", line))
        if isinstance(r, Raised):
            bad += 1
            first = (line, m, repr(r))
            continue
        toks = m.split()
        rv = [float(x) for x in np.asarray(r).ravel()]
        if len(toks) != len(rv) or any(t.startswith("!") for t in toks):
            bad += 1
            first = (line, m, str(len(rv)))
            continue
        for t, b in zip(toks, rv):
            if t == "nan" or b != b:
                if not (t == "nan" and b != b):
                    bad += 1
                    first = (line, m, " ".join("nan" if x != x else fmt(x) for x in rv))
                    break
                nan_seen += 1
                continue
            a = frac(t)
            err = float(abs(a - frac(b)) / a) if a != 0 else (0.0 if b == 0 else float("inf"))
            worst = max(worst, err)
            if err > 4 * 2.0 ** -52:
                bad += 1
                first = (line, m, " ".join("nan" if x != x else fmt(x) for x in rv))
                break
    ctx.cov.setdefault("correspondence", {})["harmonic-4ulp"] = {"cases": len(hlines), "disagreements": bad, "max_rel_err": worst, "nan_entries_compared": nan_seen}
    if bad:
        ctx.mark("CORR-BROKEN", {"correspondence": "harmonic-4ulp", "request": first[0], "model": first[1], "impl": first[2], "n_diffs": bad})
        ctx.log(f"correspondence harmonic-4ulp: {bad} disagreements, e.g. {first[0][:160]}")

    # oracle: dyadic (exact) on all shapes, generic floats on all shapes, plus larger random shapes
    extra = []
    for _ in range(ctx.pick(10, 80)):
        dim = rng.choice((1, 2, 3))
        s = [rng.randint(1, {1: 40, 2: 12, 3: 7}[dim]) for _ in range(dim)]
        if rng.random() < 0.3:
            s[rng.randrange(dim)] = 1
        extra.append(tuple(s))
    for shape in shapes + extra:
        dim = len(shape)
        ctx.count(("oracle-dyadic", shape), nontrivial=int(np.prod(shape)) > 1)
        oracle(ctx, d, shape, [rng.choice(DYADIC_H) for _ in range(dim)], rng, True)
        ctx.count(("oracle-float", shape), nontrivial=int(np.prod(shape)) > 1)
        oracle(ctx, d, shape, [rng.uniform(0.05, 3.0) for _ in range(dim)], rng, False)
    ctx.cov["exhaustive"] = True
    ctx.cov["shapes_exhaustive"] = len(shapes)
    ctx.cov["rule"] = ("all 186 shapes (1..12, 1..7^2, 1..5^3) x dyadic anisotropic voxel sizes x dyadic fluxes/fields, every operator compared exactly with the model; "
                       "oracle additionally on generic float voxel sizes/data (rel. tolerance 1e-12 of the absolute term sum) and larger random shapes")
    ctx.assumptions += ["scipy.sparse csc assembly sums duplicate triples; toarray()/matvec semantics", "numpy slicing / reshape(order='F') semantics",
                        "IEEE double arithmetic is exact on the dyadic stream (small numerators, power-of-two denominators)"]


def replay(data):
    import random

    import darsia as d

    rp = data.get("replay", {})
    print("replay", data.get("signature"), "--", data.get("what"))

    class C:
        failures = []

        def fail(self, sig, what, r):
            self.failures.append((sig, what))

    c = C()
    rng = random.Random(0)
    if "voxel_size_argument" in rp:
        shape, val = tuple(rp["shape"]), rp.get("value")
        g = call(d.Grid, shape) if val is None else call(d.Grid, shape, val if np.ndim(val) == 0 else list(val))
        hs = [1.0] * len(shape) if val is None else ([float(val)] * len(shape) if np.ndim(val) == 0 else list(val))
        if isinstance(g, Raised):
            print("observed: Grid raises", g)
            return 1
        for mode in ("cells", "faces"):
            M = np.asarray(d.FVMass(g, mode).mat.toarray())
            diag = np.diag(M)
            print(f"observed: FVMass({mode}) diagonal {diag[:1].tolist()}  required: voxel volume {float(np.prod(hs))}")
            if len(diag) and not np.all(diag == float(np.prod(hs))):
                c.failures.append(("mass", mode))
        return 1 if c.failures else 0
    for exact in (True, False):
        for _ in range(5):
            hs = rp.get("voxel_size") or [1.0] * len(rp["shape"])
            oracle(c, d, tuple(rp["shape"]), hs, rng, exact)
    for sig, what in c.failures[:3]:
        print("observed:", sig, "--", what)
    print("required: C06 statement (see DarsiaProps/C06.lean)")
    return 1 if c.failures else 0
