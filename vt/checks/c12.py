"""C12 - colour balancing recovers exact colour maps and composes correctly.

Tie: (a) stage composition: the stage fits of AdaptiveBalance are stubbed on the live balance classes (WhiteBalance /
ColorBalance / AffineBalance.find_balance install given dyadic matrices and record the swatches they are handed), so the
accumulated balance_scaling / balance_translation, apply_balance and the pre-balanced swatches given to every stage are
compared *exactly* with the Lean model; apply_balance / the objective of the three plain classes likewise.
(b) real Powell fits on the implementation (oracle): exact diagonal / linear / affine ground truths are reproduced within
tolerance, the objective never increases relative to the start balance, and with the real stage fits recorded the
accumulated balance equals the sequential application of the recorded stage balances - both with one common destination and
with a separate exact, non-trivial target per stage (so that no stage fit degenerates to the identity).
"""
from __future__ import annotations

import itertools
import math
import json
from fractions import Fraction as Fr

import numpy as np

from ..lib.core import fmt
from ..lib.impl import Raised, call

LEVEL = "other"
CLAIM = dict(
    category="other",
    text="Proved (Lean, any commutative ring, all matrices): sequential application of balances is the balance "
    "(A_prev·A_new, b_prev·A_new + b_new) in the row-vector convention of apply_balance; what AdaptiveBalance.find_balance "
    "accumulates is exactly that for every stage mode, hence after any sequence of stages applying the accumulated balance "
    "equals applying the stage balances one after the other; the least-squares objective is >= 0 and = 0 at the true map when "
    "the destinations are an exact image (exact maps are global minimisers), CONVERSELY a zero objective reproduces every "
    "destination (residual_zero_reproduces, residual_zero_iff), and the epsilon-bridge residual_le_bound / residual_le_bound_component: "
    "objective <= eps implies every balanced swatch is within sqrt(eps) of its destination - this is what connects the objective a "
    "float optimiser reaches (~1e-10, never 0) to 'reproduces the destinations within tolerance' (the oracle checks the measured "
    "objective against this bound; exact_fit_reproduces is the idealised eps = 0 limit). That fitting NEVER INCREASES the residual "
    "relative to its start is 100 % OBSERVED on the implementation (no theorem: it is a property of scipy's Powell search). The "
    "objective closures, start vectors and result unpacking of find_balance are tied exactly with the optimiser replaced by a "
    "recorder. clip=True is modelled (pipelineClip, clip01_range). Long-lived objects: reset() "
    "between stage fits is modelled (runOps; reset_forgets_history, reset_is_identity, runOps_stages), tied exactly with stubbed fits, "
    "and searched on every class that has reset(). For the unfixed accumulation (A_new·A_prev, "
    "translation untouched in non-affine stages) the negation is proved by witnesses and equality is proved for commuting "
    "stages with zero translation. Round 2: reshape commutes with the row-vector action (apply_flatten_commute, apply_chunk_commute: "
    "4x6x3 <-> 24x3; apply_rows_commute for swatches[-1] / swatches[:-1]) and the ColorCorrection.correct_array pipeline is the "
    "composition 'colour balance after white balance' on every pixel (pipeline_is_composition, pipeline_explicit x.D.A + b, "
    "pipeline_colour_rows_exact - a rewrite of its hypothesis, labelled). Tied exactly to the code by stubbing the stage fits with dyadic matrices, both on "
    "AdaptiveBalance, through the real ColorCorrection.correct_array on a synthetic dyadic checker, and through the one-shot entry "
    "points balance(img, src, dst) / white_balance / color_balance / affine_balance (call_is_apply_after_fit; pipeline_order_matters: "
    "the stage order cannot be swapped). "
    "Only observed (not proved): that scipy's Powell search reaches the minimiser within tolerance (1e-4 on swatches in [0,1]) "
    "and never returns a larger objective than it started from - sampled over random well-conditioned swatch sets, ground "
    "truths near the identity, all balance classes and all ordered pairs / triples of staged modes, from the identity and from "
    "non-identity start balances (warm starts), through the two-step path and the one-shot entry points; and that ColorCorrection on "
    "a non-affine camera response equals WhiteBalance (grey row) then Affine/ColorBalance (white-balanced colour rows).",
    note="Round-7 triage: failing inputs come only from stated clauses (exact recovery, objective not increased, accumulated = "
    "sequential, own-target reproduction - also on objects re-used after reset()); ColorCorrection pipeline / stage order, the x@A+b "
    "storage convention, non-float64 layouts, __call__ = apply_balance, reset() = identity and the stage-class structure of "
    "AdaptiveBalance are TIE-BROKEN marks; inexact-destination monotonicity is an observation. OpenCV's RNG is seeded before every "
    "compared swatch extraction and the pipeline oracle uses a checker with margins (maxima recorded in evidence). "
    "ColorCorrection with balancing='colour' (colour-science routines) is outside C12's quantifier (swatch balances) and its "
    "numerics are not modelled; only its dtype path is tabulated. The dtype path of correct_array is a G1 table regenerated on "
    "every run (DarsiaGen.ColorDtypes: input dtype x active x balancing -> result dtype / exception class) with the obligations "
    "color_dtype_float32 / color_dtype_rejects; the final .astype(float32) is a per-value rounding that is not modelled in Lean (the "
    "exact tie uses float32-representable values) and is observed to equal numpy's float32 rounding of the float64 pipeline. optimiser contract is sampled, not proved; a tolerance miss is re-fitted once (find_balance restarts from the current "
    "balance) before it counts.",
    technique="Lean 4 proof of the composition algebra + exact differential correspondence with stubbed stage fits + property "
    "oracle with real Powell fits",
)

ROWS = [12, 93, 175, 255]
COLS = [12, 95, 177, 260, 344, 427]
MODES = ("diagonal", "linear", "affine")
CLS = {"diagonal": "WhiteBalance", "linear": "ColorBalance", "affine": "AffineBalance"}
TOL_FIT = 1e-4


def dyq(rng, m=4, lo=-6, hi=6):
    return Fr(rng.randint(lo, hi), m)


def rand_stage(rng, mode):
    if mode == "diagonal":
        A = [[Fr(0)] * 3 for _ in range(3)]
        for i in range(3):
            A[i][i] = Fr(rng.choice([1, 2, 3, 5, 6]), 4)
    else:
        A = [[(Fr(1) if i == j else Fr(0)) + dyq(rng, 4, -2, 2) for j in range(3)] for i in range(3)]
    b = [dyq(rng, 4, -3, 3) for _ in range(3)] if mode == "affine" else [Fr(0)] * 3
    return A, b


def stage_tokens(mode, A, b):
    return f"{mode} " + " ".join(fmt(x) for r in A for x in r) + " " + " ".join(fmt(x) for x in b)


class Stub:
    """replace the three classes' find_balance on the live class objects; restore on exit"""

    def __init__(self, d, queue, log):
        self.d, self.queue, self.log = d, queue, log
        self.saved = {}

    def __enter__(self):
        for mode, name in CLS.items():
            cls = getattr(self.d, name)
            self.saved[name] = cls.__dict__.get("find_balance")
            stub = self._make(mode)
            cls.find_balance = stub
        return self

    def _make(self, mode):
        queue, log = self.queue, self.log

        def find_balance(obj, swatches_src, swatches_dst):
            m, A, b = queue.pop(0)
            log.append((mode, m, np.array(swatches_src, dtype=float).copy()))
            obj.balance_scaling = np.array([[float(x) for x in r] for r in A])
            if mode == "affine":
                obj.balance_translation = np.array([float(x) for x in b])

        return find_balance

    def __exit__(self, *a):
        for name, fn in self.saved.items():
            cls = getattr(self.d, name)
            if fn is None:
                del cls.find_balance
            else:
                cls.find_balance = fn


class Record:
    """wrap the three classes' find_balance: run the real fit, record the fitted stage balance"""

    def __init__(self, d, log):
        self.d, self.log, self.saved = d, log, {}

    def __enter__(self):
        for mode, name in CLS.items():
            cls = getattr(self.d, name)
            self.saved[name] = cls.__dict__.get("find_balance")
            orig = getattr(cls, "find_balance")

            def wrapped(obj, swatches_src, swatches_dst, _orig=orig, _mode=mode):
                _orig(obj, swatches_src, swatches_dst)
                self.log.append((_mode, np.array(obj.balance_scaling, float).copy(),
                                 np.array(getattr(obj, "balance_translation", np.zeros(3)), float).copy()))

            cls.find_balance = wrapped
        return self

    def __exit__(self, *a):
        for name, fn in self.saved.items():
            cls = getattr(self.d, name)
            if fn is None:
                del cls.find_balance
            else:
                cls.find_balance = fn


def corr_composition(ctx, d):
    lines, impl = [], []
    seqs = [list(p) for n in (1, 2, 3) for p in itertools.product(MODES, repeat=n)]
    extra = ctx.pick(20, 300)
    seqs = seqs + [[ctx.rng.choice(MODES) for _ in range(ctx.rng.randint(2, 4))] for _ in range(extra)]
    for modes in seqs:
        stages = [(m,) + rand_stage(ctx.rng, m) for m in modes]
        shape = ctx.rng.choice([(4, 3), (6, 3), (2, 3, 3)])
        n = int(np.prod(shape[:-1]))
        pts = [[Fr(ctx.rng.randint(0, 8), 8) for _ in range(3)] for _ in range(n)]
        lines.append(f"stages new {len(stages)} " + " ".join(stage_tokens(*s) for s in stages) + f" {n} "
                     + " ".join(fmt(x) for p in pts for x in p))

        def run():
            src = np.array([[float(x) for x in p] for p in pts]).reshape(shape)
            dst = np.zeros(shape)
            queue, log = [s for s in stages], []
            bal = d.AdaptiveBalance()
            handed_ok = True
            with Stub(d, queue, log):
                seq = src.copy()
                for k, (m, A, b) in enumerate(stages):
                    bal.find_balance(src, dst, mode=m)
                    # the stage fit must have been handed the swatches pre-balanced by everything before it
                    if len(log) != k + 1 or log[k][0] != m or log[k][2].shape != src.shape or not np.array_equal(log[k][2], seq):
                        handed_ok = False
                    An = np.array([[float(x) for x in r] for r in A])
                    seq = seq @ An + (np.array([float(x) for x in b]) if m == "affine" else 0.0)
            out = bal.apply_balance(src)
            if not handed_ok:
                raise ValueError("stage fit was not handed the pre-balanced swatches")
            return (" ".join(fmt(x) for x in np.asarray(bal.balance_scaling).ravel()) + " | "
                    + " ".join(fmt(x) for x in np.asarray(bal.balance_translation).ravel()) + " | "
                    + " ".join(fmt(x) for x in np.asarray(out).reshape(-1, 3).ravel()) + " | "
                    + " ".join(fmt(x) for x in seq.reshape(-1, 3).ravel()))

        r = call(run)
        impl.append(repr(r) if isinstance(r, Raised) else r)
    return ctx.correspond("AdaptiveBalance composition (stubbed stage fits, exact)", lines, impl)


def corr_apply_and_objective(ctx, d):
    """apply_balance of the plain classes and the objective they minimise (re-derived through apply_balance)"""
    lines, impl = [], []
    for i in range(ctx.pick(12, 120)):
        mode = MODES[i % 3]
        A, b = rand_stage(ctx.rng, mode)
        n = ctx.rng.randint(1, 6)
        src = [[Fr(ctx.rng.randint(0, 8), 8) for _ in range(3)] for _ in range(n)]
        dst = [[Fr(ctx.rng.randint(0, 8), 8) for _ in range(3)] for _ in range(n)]
        lines.append("residual " + " ".join(fmt(x) for r in A for x in r) + " " + " ".join(fmt(x) for x in b) + f" {n} "
                     + " ".join(fmt(x) for s, t in zip(src, dst) for x in s + t))

        def run():
            bal = getattr(d, CLS[mode])()
            bal.balance_scaling = np.array([[float(x) for x in r] for r in A])
            if mode == "affine":
                bal.balance_translation = np.array([float(x) for x in b])
            out = bal.apply_balance(np.array([[float(x) for x in p] for p in src]))
            return fmt(float(np.sum((out - np.array([[float(x) for x in p] for p in dst])) ** 2)))

        r = call(run)
        impl.append(repr(r) if isinstance(r, Raised) else r)
    return ctx.correspond("apply_balance / least-squares objective (exact)", lines, impl)


# ---------------------------------------------------------------------------- oracle with real fits


def rand_swatches(rng, flat):
    """well-conditioned: colour-checker-like spread in [0.05, 0.95]"""
    n = rng.choice([8, 12, 24]) if flat else 24
    pts = np.array([[rng.uniform(0.05, 0.95) for _ in range(3)] for _ in range(n)])
    # make sure the affine hull is 3-dimensional with margin
    pts[:4] = np.array([[0.1, 0.1, 0.1], [0.9, 0.15, 0.2], [0.2, 0.85, 0.1], [0.15, 0.2, 0.9]])
    return pts if flat else pts.reshape((4, 6, 3))


def rand_truth(rng, mode, amp=0.15):
    if mode == "diagonal":
        A = np.diag([1 + rng.uniform(-amp, amp) for _ in range(3)])
    else:
        A = np.eye(3) + np.array([[rng.uniform(-amp, amp) for _ in range(3)] for _ in range(3)])
    b = np.array([rng.uniform(-0.05, 0.05) for _ in range(3)]) if mode == "affine" else np.zeros(3)
    return A, b


def objective(bal, src, dst):
    return float(np.sum((bal.apply_balance(src) - dst) ** 2))


SHORTCUT = {"diagonal": "white_balance", "linear": "color_balance", "affine": "affine_balance"}


def _shortcut(d, name):
    if hasattr(d, name):
        return getattr(d, name)
    import darsia.corrections.color.colorbalance as cbm

    return getattr(cbm, name)


def check_fit_case(d, case, cov=None):
    """single class: exact truth recovered and objective not increased - from the identity or from any start balance
    (`start`: warm start, e.g. a balance fitted earlier against other destinations), through the two-step path
    (find_balance + apply_balance) and through the one-shot entry points (`balance(img, src, dst)`, shortcut functions)."""
    mode = case["mode"]
    entry = case.get("entry", "two-step")
    src = np.array(case["src"], float)
    A, b = np.array(case["A"], float), np.array(case["b"], float)
    dst = src @ A + b
    noise = case.get("noise")
    if noise is not None:
        return check_noisy_fit_case(d, case, cov)
    bad = []
    cname = "AdaptiveBalance" if entry == "adaptive-call" else CLS[mode]
    if entry == "shortcut":
        out = call(_shortcut(d, SHORTCUT[mode]), src.copy(), src.copy(), dst.copy())
        if isinstance(out, Raised):
            return [(f"C12:{SHORTCUT[mode]}():raises", f"{out}")]
        err = float(np.abs(np.asarray(out) - dst).max())
        if err > TOL_FIT:
            bad.append((f"C12:{SHORTCUT[mode]}():exact-{mode}-map-not-reproduced",
                        f"{SHORTCUT[mode]}(src, src, dst) differs from dst by {err:.3g} on an exact {mode} ground truth"))
        return bad
    bal = call(getattr(d, cname))
    if isinstance(bal, Raised):
        return [(f"C12:{cname}():raises", f"{bal}")]
    start = case.get("start")
    tag = ""
    if start is not None:
        bal.balance_scaling = np.array(start["A"], float)
        if mode == "affine":
            bal.balance_translation = np.array(start["b"], float)
        tag = "(warm-start)"
    before = call(objective, bal, src, dst)
    if entry in ("call", "adaptive-call"):
        out = call(bal, src.copy(), src.copy(), dst.copy())
        if isinstance(out, Raised) or isinstance(before, Raised):
            return [(f"C12:{cname}.__call__:raises", f"{out}")]
        app = call(bal.apply_balance, src)
        if isinstance(app, Raised) or np.asarray(out).shape != np.asarray(app).shape or float(np.abs(np.asarray(out) - app).max()) > 1e-12:
            bad.append((f"C12:{cname}.__call__≠apply_balance",
                        f"balance(img, src, dst) differs from balance.apply_balance(img) after the same fit by "
                        f"{float(np.abs(np.asarray(out) - app).max()) if not isinstance(app, Raised) else app}"))
        err = float(np.abs(np.asarray(out) - dst).max())
        if err > TOL_FIT:
            bad.append((f"C12:{cname}.__call__:exact-{mode}-map-not-reproduced",
                        f"balance(src, src, dst) differs from dst by {err:.3g} on an exact {mode} ground truth"))
        return bad
    r = call(bal.find_balance, src, dst)
    if isinstance(r, Raised) or isinstance(before, Raised):
        return [(f"C12:{cname}.find_balance:raises", f"{r}")]
    after = objective(bal, src, dst)
    err = float(np.abs(bal.apply_balance(src) - dst).max())
    refit = False
    if after > before * (1 + 1e-9) + 1e-15:
        bad.append((f"C12:{cname}.find_balance:objective-increased{tag}", f"objective before {before}, after {after}"))
    if err > TOL_FIT:
        call(bal.find_balance, src, dst)
        refit = True
        after2 = objective(bal, src, dst)
        err = float(np.abs(bal.apply_balance(src) - dst).max())
        if after2 > after * (1 + 1e-9) + 1e-15:
            bad.append((f"C12:{cname}.find_balance:objective-increased(restart)", f"objective {after} -> {after2} on re-fit"))
        after = after2
    # theorem residual_le_bound_component: every component error is at most sqrt(objective)
    if err > math.sqrt(max(after, 0.0)) * (1 + 1e-9) + 1e-15:
        bad.append((f"C12:{cname}:objective-does-not-bound-the-swatch-error", f"max error {err:.3g} > sqrt(objective) = {math.sqrt(max(after, 0.0)):.3g}"))
    if cov is not None:
        cov.setdefault("fit_error_max", {}).setdefault(mode, 0.0)
        cov["fit_error_max"][mode] = max(cov["fit_error_max"][mode], err)
        cov["fit_objective_max"] = max(cov.get("fit_objective_max", 0.0), after)
        cov["fit_tolerance_argument"] = ("TOL_FIT = 1e-4 on the swatches is implied by objective <= 1e-8 (residual_le_bound_component); "
                                         "measured objective after the fit is recorded as fit_objective_max")
        cov["refits"] = cov.get("refits", 0) + int(refit)
    if err > TOL_FIT:
        bad.append((f"C12:{cname}.find_balance:exact-{mode}-map-not-recovered{tag}",
                    f"max |apply_balance(src) − dst| = {err:.3g} > {TOL_FIT} after fit (+1 re-fit) on an exact {mode} ground truth"
                    + (" starting from a non-identity balance" if start is not None else "")))
    return bad


def ls_optimum(mode, src, dst):
    """closed-form least-squares optimum of the objective of each class (numpy), used as a START balance"""
    S, D = src.reshape(-1, 3), dst.reshape(-1, 3)
    if mode == "diagonal":
        return np.diag((S * D).sum(axis=0) / (S * S).sum(axis=0)), np.zeros(3)
    if mode == "linear":
        return np.linalg.lstsq(S, D, rcond=None)[0], np.zeros(3)
    X = np.linalg.lstsq(np.hstack([S, np.ones((S.shape[0], 1))]), D, rcond=None)[0]
    return X[:3], X[3]


def check_noisy_fit_case(d, case, cov=None):
    """INEXACT destinations (truth + noise): whatever balance the fit starts from - the identity, or the least-squares optimum
    itself - find_balance must not return a balance with a larger swatch residual (property: 'fitting never increases the swatch
    residual relative to the balance it started from')"""
    mode = case["mode"]
    src = np.array(case["src"], float)
    A, b = np.array(case["A"], float), np.array(case["b"], float)
    dst = src @ A + b + np.array(case["noise"], float).reshape(src.shape)
    cname = CLS[mode]
    bad = []
    for start in ("identity", "least-squares optimum"):
        bal = call(getattr(d, cname))
        if isinstance(bal, Raised):
            return [(f"C12:{cname}():raises", f"{bal}")]
        if start != "identity":
            As, bs = ls_optimum(mode, src, dst)
            bal.balance_scaling = As
            if mode == "affine":
                bal.balance_translation = bs
        before = call(objective, bal, src, dst)
        r = call(bal.find_balance, src, dst)
        if isinstance(r, Raised) or isinstance(before, Raised):
            return [(f"C12:{cname}.find_balance:raises", f"{r}")]
        after = objective(bal, src, dst)
        if cov is not None:
            cov["noisy_fit_ratio_max"] = max(cov.get("noisy_fit_ratio_max", 0.0), after / before if before > 0 else 0.0)
        if after > before * (1 + 1e-6) + 1e-14:
            bad.append((f"C12:{cname}.find_balance:objective-increased(inexact destinations,start={start.split()[0]})",
                        f"noisy destinations, start = {start}: swatch residual {before:.6g} -> {after:.6g}"))
    return bad


def check_staged_case(d, case, cov=None):
    """AdaptiveBalance with real stage fits: accumulated == sequential; exact truth reproduced after the last stage"""
    modes = case["modes"]
    src = np.array(case["src"], float)
    A, b = np.array(case["A"], float), np.array(case["b"], float)
    dst = src @ A + b
    bad = []
    log = []
    bal = call(d.AdaptiveBalance)
    if isinstance(bal, Raised):
        return [("C12:AdaptiveBalance():raises", f"{bal}")]
    tag = ">".join(modes)
    with Record(d, log):
        for k, m in enumerate(modes):
            before = objective(bal, src, dst)
            r = call(bal.find_balance, src, dst, mode=m)
            if isinstance(r, Raised):
                return [(f"C12:AdaptiveBalance.find_balance({m}):raises", f"{r}")]
            after = objective(bal, src, dst)
            if after > before * (1 + 1e-9) + 1e-12:
                bad.append((f"C12:AdaptiveBalance.find_balance:objective-increased(stage={m},after={'>'.join(modes[:k]) or 'start'})",
                            f"stages {tag}: swatch residual {before:.6g} -> {after:.6g} at stage {k} ({m})"))
    if len(log) != len(modes):
        return bad + [("C12:AdaptiveBalance.find_balance:stage-class", f"expected {len(modes)} stage fits, saw {len(log)}")]
    seq = src.copy()
    for (m, As, bs) in log:
        seq = seq @ As + (bs if m == "affine" else 0.0)
    acc = call(bal.apply_balance, src)
    if isinstance(acc, Raised):
        return bad + [("C12:AdaptiveBalance.apply_balance:raises", f"{acc}")]
    dev = float(np.abs(acc - seq).max())
    if cov is not None:
        cov["staged_vs_sequential_max"] = max(cov.get("staged_vs_sequential_max", 0.0), dev)
    if dev > 1e-9:
        has_aff_before = "affine" in modes[:-1]
        kind = "affine-then-other" if has_aff_before else "non-commuting-stages"
        bad.append((f"C12:AdaptiveBalance:accumulated≠sequential({kind})",
                    f"stages {tag}: max |apply_balance(src) − stage balances applied one after the other| = {dev:.3g}"))
    # the last stage can represent the whole remaining map iff its class contains the truth class
    rank = {"diagonal": 0, "linear": 1, "affine": 2}
    if rank[modes[-1]] >= rank[case["truth"]]:
        err = float(np.abs(acc - dst).max())
        if err > TOL_FIT:
            call(bal.find_balance, src, dst, mode=modes[-1])
            err = float(np.abs(bal.apply_balance(src) - dst).max())
        if cov is not None:
            cov["staged_fit_error_max"] = max(cov.get("staged_fit_error_max", 0.0), err)
        if err > TOL_FIT:
            bad.append((f"C12:AdaptiveBalance:exact-map-not-reproduced(stages={tag})",
                        f"exact {case['truth']} ground truth, stages {tag}: max |apply_balance(src) − dst| = {err:.3g}"))
    return bad


def check_own_targets_case(d, case, cov=None):
    """AdaptiveBalance with real stage fits where EVERY stage has its own target: the destination of stage k is an exact
    diagonal / linear / affine image (class = the stage's mode, non-trivial, near the identity) of the swatches as balanced
    by everything before it. So every stage fits a non-identity balance, and the accumulated balance must equal the recorded
    stage balances applied one after the other (both sides use the same fitted matrices: tolerance 1e-6)."""
    modes = case["modes"]
    src = np.array(case["src"], float)
    truths = [(np.array(A, float), np.array(b, float)) for A, b in case["truths"]]
    tag = ">".join(modes)
    bad, log = [], []
    bal = call(d.AdaptiveBalance)
    if isinstance(bal, Raised):
        return [("C12:AdaptiveBalance():raises", f"{bal}")]
    seq = src.copy()
    with Record(d, log):
        for k, m in enumerate(modes):
            cur = call(bal.apply_balance, src)
            if isinstance(cur, Raised):
                return bad + [("C12:AdaptiveBalance.apply_balance:raises", f"{cur}")]
            A, b = truths[k]
            dst = cur @ A + b
            r = call(bal.find_balance, src, dst, mode=m)
            if isinstance(r, Raised):
                return bad + [(f"C12:AdaptiveBalance.find_balance({m}):raises", f"{r}")]
            if len(log) != k + 1 or log[k][0] != m:
                return bad + [("C12:AdaptiveBalance.find_balance:stage-class", f"stage {k} ({m}) was not fitted by the {CLS[m]} class")]
            _, As, bs = log[k]
            step = cur @ As + (bs if m == "affine" else 0.0)  # recorded stage balance applied to the previous output
            seq = seq @ As + (bs if m == "affine" else 0.0)
            acc = call(bal.apply_balance, src)
            if isinstance(acc, Raised):
                return bad + [("C12:AdaptiveBalance.apply_balance:raises", f"{acc}")]
            dev = max(float(np.abs(acc - step).max()), float(np.abs(acc - seq).max()))
            nontrivial = float(np.abs(As - np.eye(3)).max())
            if cov is not None:
                cov["own_target_dev_max"] = max(cov.get("own_target_dev_max", 0.0), dev)
                cov["own_target_stage_nontriviality_min"] = min(cov.get("own_target_stage_nontriviality_min", 1.0), nontrivial)
            if dev > 1e-6:
                prev = ">".join(modes[:k]) or "start"
                bad.append((f"C12:AdaptiveBalance:accumulated≠sequential(own-targets,stage={m},after={prev})",
                            f"stages {tag}, each with its own exact target: after stage {k} ({m}) max |apply_balance(src) − recorded stage "
                            f"balances applied one after the other| = {dev:.3g} (fitted stage matrix differs from I by {nontrivial:.3g})"))
                return bad
            err = float(np.abs(acc - dst).max())
            if err > TOL_FIT:
                call(bal.find_balance, src, dst, mode=m)  # one re-fit (restarts from the accumulated balance)
                err = float(np.abs(bal.apply_balance(src) - dst).max())
                if err > TOL_FIT:
                    bad.append((f"C12:AdaptiveBalance:own-target-not-reproduced(stage={m},after={'>'.join(modes[:k]) or 'start'})",
                                f"stages {tag}: stage {k} target is an exact {m} image of the previous output but max |apply_balance(src) − dst| = {err:.3g}"))
                return bad
    return bad


# ---------------------------------------------------------------------------- round 2: ColorCorrection pipeline and array layouts


def dyadic_checker(rng, scale):
    sw = np.array([[[rng.randint(1, 7) / 8.0 for _ in range(3)] for _ in range(6)] for _ in range(4)])
    return sw, np.kron(sw, np.ones((scale, scale, 1)))


def corr_pipeline(ctx, d):
    """ColorCorrection.correct_array (balancing='darsia') with the two stage fits stubbed by dyadic matrices: the corrected
    image must be exactly the model pipeline (white balance, then colour balance) applied to every pixel; the stage fits must
    be handed the grey row / the white-balanced colour rows of the extracted swatches."""
    from darsia.corrections.color.colorcorrection import CustomColorChecker

    lines, impl = [], []
    combos = [(wb, m) for wb in (True, False) for m in ("affine", "linear")]
    for i in range(ctx.pick(8, 60)):
        wb, mode = combos[i % 4]
        s1 = ("diagonal",) + rand_stage(ctx.rng, "diagonal")
        s2 = (mode,) + rand_stage(ctx.rng, mode)
        scale = ctx.rng.choice([6, 8])
        sw, img = dyadic_checker(ctx.rng, scale)
        ident = ("diagonal", [[Fr(int(a == b)) for b in range(3)] for a in range(3)], [Fr(0)] * 3)
        clip = bool((i // 4) % 2)
        lines.append(f"pipeline {int(wb)} {int(clip)} {stage_tokens(*(s1 if wb else ident))} {stage_tokens(*s2)} 4 6 "
                     + " ".join(fmt(x) for x in sw.reshape(-1, 3).ravel()))

        def run():
            n0, n1 = img.shape[:2]
            cc = d.ColorCorrection(config={"roi": [[0, 0], [n0 - 1, 0], [n0 - 1, n1 - 1], [0, n1 - 1]], "colorbalancing": mode,
                                           "whitebalancing": wb, "balancing": "darsia", "clip": clip})
            import cv2

            queue, log = ([s1] if wb else []) + [s2], []
            cv2.setRNGSeed(1234)
            raw = CustomColorChecker(image=cc._restrict_to_roi(img)).swatches_rgb  # what the correction will extract (same RNG seed)
            cv2.setRNGSeed(1234)
            with Stub(d, queue, log):
                out = cc.correct_array(img.copy())
            if queue or len(log) != (2 if wb else 1):
                raise ValueError("number of stage fits")
            A1 = np.array([[float(x) for x in r] for r in s1[1]]) if wb else np.eye(3)
            if wb and not (log[0][0] == "diagonal" and log[0][2].shape == (6, 3) and np.allclose(log[0][2], raw[-1], rtol=0, atol=1e-12)):
                raise ValueError("white-balance stage was not handed the grey row swatches[-1]")
            last = log[-1]
            if not (last[0] == mode and last[2].shape == (3, 6, 3) and np.allclose(last[2], raw[:-1] @ A1, rtol=0, atol=1e-12)):
                raise ValueError("colour stage was not handed the white-balanced colour rows swatches[:-1]")
            if out.dtype != np.float32 or out.shape != img.shape:
                raise TypeError("dtype/shape")
            # the final cast is the float32 rounding of the float64 pipeline result (observed against numpy)
            A2 = np.array([[float(x) for x in r] for r in s2[1]])
            b2 = np.array([float(x) for x in s2[2]]) if mode == "affine" else 0.0
            exp64 = (img @ A1) @ A2 + b2
            if clip:
                exp64 = np.clip(exp64, 0, 1)
            if not np.array_equal(out, exp64.astype(np.float32)):
                raise ValueError("result is not the float32 rounding of the float64 pipeline")
            # every pixel of a swatch block must carry the same corrected colour
            blocks = out.reshape(4, scale, 6, scale, 3)
            if not np.array_equal(blocks, np.broadcast_to(blocks[:, :1, :, :1, :], blocks.shape)):
                raise ValueError("pixels of one block corrected differently")
            return " ".join(fmt(x) for x in out[::scale, ::scale].reshape(-1, 3).ravel())

        r = call(run)
        if isinstance(r, Raised):
            ctx.notes.append(f"pipeline case {i}: {r.exc!r}")
        impl.append(repr(r) if isinstance(r, Raised) else r)
    return ctx.correspond("ColorCorrection.correct_array pipeline (stubbed stage fits, exact)", lines, impl)


def corr_entry_points(ctx, d):
    """one-shot entry points with stubbed fits: balance(img, src, dst) and the shortcut functions must return the model's
    `apply` of the fitted balance on every pixel (exact, dyadic)."""
    lines, impl = [], []
    for i in range(ctx.pick(12, 96)):
        mode = MODES[i % 3]
        entry = ("call", "shortcut", "adaptive-call")[(i // 3) % 3]
        m = "affine" if entry == "adaptive-call" else mode  # AdaptiveBalance.__call__ fits in its default (affine) mode
        A, b = rand_stage(ctx.rng, m)
        shape = ctx.rng.choice([(4, 3), (2, 3, 3), (4, 6, 3)])
        n = int(np.prod(shape[:-1]))
        int_img = (i // 9) % 2 == 1  # integer-typed images: the balance must still act as a real matrix
        pts = [[Fr(ctx.rng.randint(0, 40)) if int_img else Fr(ctx.rng.randint(0, 8), 8) for _ in range(3)] for _ in range(n)]
        lines.append(f"stages new 1 {stage_tokens(m, A, b)} {n} " + " ".join(fmt(x) for p in pts for x in p))

        def run():
            img = np.array([[float(x) for x in p] for p in pts]).reshape(shape)
            if int_img:
                img = img.astype(np.uint8 if i % 2 else np.uint16)
            queue, log = [(m, A, b)], []
            with Stub(d, queue, log):
                if entry == "shortcut":
                    out = _shortcut(d, SHORTCUT[m])(img.copy(), img.copy(), np.zeros(shape))
                else:
                    bal = getattr(d, "AdaptiveBalance" if entry == "adaptive-call" else CLS[m])()
                    out = bal(img.copy(), img.copy(), np.zeros(shape))
            if queue:
                raise ValueError("no stage fit was run")
            ab = " ".join(fmt(x) for r in A for x in r) + " | " + " ".join(fmt(x) for x in (b if m == "affine" else [0, 0, 0]))
            o = " ".join(fmt(x) for x in np.asarray(out).reshape(-1, 3).ravel())
            return f"{ab} | {o} | {o}"

        r = call(run)
        impl.append(repr(r) if isinstance(r, Raised) else r)
    return ctx.correspond("one-shot entry points balance(img, src, dst) / shortcuts (stubbed fits, exact)", lines, impl)


def corr_objective_closures(ctx, d):
    """the objective closures inside find_balance, the start vector handed to the optimiser and the unpacking of its result, tied
    directly: scipy.optimize.minimize is replaced (for the duration of one call) by a recorder that evaluates the closure at the
    start vector and at a dyadic probe and returns the probe. Exact on dyadic swatches."""
    import types

    import scipy.optimize as so

    lines, impl = [], []
    for i in range(ctx.pick(12, 90)):
        mode = MODES[i % 3]
        start = rand_stage(ctx.rng, mode)
        probe = rand_stage(ctx.rng, mode)
        shape = ctx.rng.choice([(5, 3), (4, 6, 3), (2, 3, 3)])
        n = int(np.prod(shape[:-1]))
        src = [[Fr(ctx.rng.randint(0, 8), 8) for _ in range(3)] for _ in range(n)]
        dst = [[Fr(ctx.rng.randint(0, 8), 8) for _ in range(3)] for _ in range(n)]
        pairs = f" {n} " + " ".join(fmt(x) for a, b in zip(src, dst) for x in a + b)
        for (A, b) in (start, probe):
            lines.append("residual " + " ".join(fmt(x) for r in A for x in r) + " " + " ".join(fmt(x) for x in b) + pairs)

        def vec(A, b):
            if mode == "diagonal":
                return [float(A[k][k]) for k in range(3)]
            flat = [float(x) for r in A for x in r]
            return flat + [float(x) for x in b] if mode == "affine" else flat

        def run():
            bal = getattr(d, CLS[mode])()
            bal.balance_scaling = np.array([[float(x) for x in r] for r in start[0]])
            if mode == "affine":
                bal.balance_translation = np.array([float(x) for x in start[1]])
            rec = {}

            def fake(fun, x0, *a, **k):
                rec["x0"] = np.array(x0, float).copy()
                rec["f0"] = float(fun(np.array(x0, float)))
                xp = np.array(vec(*probe))
                rec["fp"] = float(fun(xp))
                return types.SimpleNamespace(x=xp, success=True, fun=rec["fp"])

            orig = so.minimize
            so.minimize = fake
            try:
                bal.find_balance(np.array([[float(x) for x in p] for p in src]).reshape(shape),
                                 np.array([[float(x) for x in p] for p in dst]).reshape(shape))
            finally:
                so.minimize = orig
            if "x0" not in rec or not np.array_equal(rec["x0"], np.array(vec(*start))):
                raise ValueError("optimiser was not started from the current balance")
            if not np.array_equal(np.asarray(bal.balance_scaling, float), np.array([[float(x) for x in r] for r in probe[0]])):
                raise ValueError("result of the optimiser is not installed as balance_scaling")
            if mode == "affine" and not np.array_equal(np.asarray(bal.balance_translation, float), np.array([float(x) for x in probe[1]])):
                raise ValueError("result of the optimiser is not installed as balance_translation")
            return fmt(rec["f0"]), fmt(rec["fp"])

        r = call(run)
        impl += [repr(r), repr(r)] if isinstance(r, Raised) else [r[0], r[1]]
    return ctx.correspond("find_balance objective closures / start vector / result unpacking (optimiser replaced, exact)", lines, impl)


def corr_reset_ops(ctx, d):
    """one long-lived AdaptiveBalance through stage fits (stubbed, dyadic) interleaved with reset(): accumulated scaling,
    translation and apply_balance vs the model (exact)"""
    lines, impl = [], []
    for i in range(ctx.pick(18, 150)):
        ops = []
        for k in range(ctx.rng.randint(2, 6)):
            if k > 0 and ctx.rng.random() < 0.35:
                ops.append("R")
            else:
                m = ctx.rng.choice(MODES) if k else "affine"
                ops.append((m,) + rand_stage(ctx.rng, m))
        if "R" not in ops:
            ops.insert(1, "R")
        n = ctx.rng.randint(1, 4)
        pts = [[Fr(ctx.rng.randint(0, 8), 8) for _ in range(3)] for _ in range(n)]
        lines.append(f"ops {len(ops)} " + " ".join("R" if o == "R" else "S " + stage_tokens(*o) for o in ops) + f" {n} "
                     + " ".join(fmt(x) for p in pts for x in p))

        def run():
            src = np.array([[float(x) for x in p] for p in pts])
            bal = d.AdaptiveBalance()
            queue, log = [o for o in ops if o != "R"], []
            with Stub(d, queue, log):
                for o in ops:
                    if o == "R":
                        bal.reset()
                    else:
                        bal.find_balance(src, np.zeros_like(src), mode=o[0])
            out = bal.apply_balance(src)
            return (" ".join(fmt(x) for x in np.asarray(bal.balance_scaling).ravel()) + " | "
                    + " ".join(fmt(x) for x in np.asarray(bal.balance_translation).ravel()) + " | "
                    + " ".join(fmt(x) for x in np.asarray(out).ravel()))

        r = call(run)
        impl.append(repr(r) if isinstance(r, Raised) else r)
    return ctx.correspond("AdaptiveBalance: stage fits interleaved with reset() on one object (stubbed fits, exact)", lines, impl)


def check_reset_case(d, case):
    """long-lived balance objects: every class that has (or inherits) reset(): non-identity balance (incl. a translation) ->
    reset() -> the object must act as the identity, and a following exact fit must behave like on a fresh object"""
    cname = case["cls"]
    cls = getattr(d, cname, None)
    if cls is None or not hasattr(cls, "reset"):
        return []
    src = np.array(case["src"], float)
    A0, b0 = np.array(case["A0"], float), np.array(case["b0"], float)
    A, b = np.array(case["A"], float), np.array(case["b"], float)
    mode = case["mode"]
    bad = []

    def run():
        bal = cls()
        if case["how"] == "fit" and cname in ("AffineBalance", "AdaptiveBalance"):
            bal.find_balance(src, src @ A0 + b0)
        else:
            bal.balance_scaling = A0.copy()
            if hasattr(bal, "balance_translation"):
                bal.balance_translation = b0.copy()
        bal.reset()
        ident = np.asarray(bal.apply_balance(src), float)
        dst = src @ A + (b if (mode == "affine") else 0.0)
        if cname == "AdaptiveBalance":
            bal.find_balance(src, dst, mode=mode)
            fresh = d.AdaptiveBalance()
            fresh.find_balance(src, dst, mode=mode)
        else:
            bal.find_balance(src, dst)
            fresh = cls()
            fresh.find_balance(src, dst)
        return ident, np.asarray(bal.apply_balance(src), float), np.asarray(fresh.apply_balance(src), float), dst

    r = call(run)
    if isinstance(r, Raised):
        return [(f"C12:{cname}.reset:raises", f"{r}")]
    ident, after, fresh, dst = r
    if float(np.abs(ident - src).max()) > 0:
        bad.append((f"C12:{cname}.reset:not-identity",
                    f"after reset() apply_balance(x) differs from x by {float(np.abs(ident - src).max()):.3g} (a stale balance_translation or scaling)"))
    e1, e2 = float(np.abs(after - dst).max()), float(np.abs(fresh - dst).max())
    if e1 > TOL_FIT and e2 <= TOL_FIT:
        bad.append((f"C12:{cname}.find_balance:exact-{mode}-map-not-recovered(object re-used after reset())",
                    f"stated clause 'exact {mode} map reproduced within tolerance' fails on a balance object that was used, then reset(): "
                    f"error {e1:.3g} > {TOL_FIT} (a fresh object: {e2:.3g})"))
    return bad


def check_layout_case(d, case):
    """reshape commutes with apply_balance: flat Nx3 vs 4x6x3 (and image-like HxWx3)"""
    mode = case["mode"]
    A, b = np.array(case["A"], float), np.array(case["b"], float)
    sw = np.array(case["src"], float)
    idt = case.get("img_dtype", "float64")
    if idt in ("uint8", "uint16"):
        # integer-typed swatches / images (values read off a raw 8 / 16 bit image): the balance is NOT an integer map
        sw = np.round(sw * (255 if idt == "uint8" else 4095)).astype(idt)
    elif idt == "float32":
        sw = sw.astype(np.float32)
    bal = call(getattr(d, CLS[mode]))
    if isinstance(bal, Raised):
        return [(f"C12:{CLS[mode]}():raises", f"{bal}")]
    bal.balance_scaling = A
    if mode == "affine":
        bal.balance_translation = b if idt not in ("uint8", "uint16") else b * (255 if idt == "uint8" else 4095)
    g = call(bal.apply_balance, sw)
    f = call(bal.apply_balance, sw.reshape(-1, 3))
    if isinstance(g, Raised) or isinstance(f, Raised):
        return [(f"C12:{CLS[mode]}.apply_balance:raises(layout)" + ("" if idt == "float64" else ":harness"), f"{idt}: {g} {f}")]
    bad = []
    exp = sw.reshape(-1, 3).astype(np.float64) @ A + (np.asarray(bal.balance_translation, float) if mode == "affine" else 0.0)
    tol = 0.0 if (case.get("dyadic") and idt == "float64") else (1e-14 if idt == "float64" else 1e-5 * (1 + float(np.abs(exp).max())))
    if idt != "float64":
        g, f = np.asarray(g, np.float64), np.asarray(f, np.float64)
    if g.shape != sw.shape or f.shape != (sw.size // 3, 3) or float(np.abs(g.reshape(-1, 3) - f).max()) > tol:
        bad.append((f"C12:{CLS[mode]}.apply_balance:reshape-does-not-commute" + ("" if idt == "float64" else f"({idt})"),
                    f"apply_balance on shape {sw.shape} and on its flat Nx3 view differ by {float(np.abs(g.reshape(-1, 3) - f).max()):.3g}"))
    if float(np.abs(f - exp).max()) > tol:
        bad.append((f"C12:{CLS[mode]}.apply_balance:not-row-vector-action({idt})",
                    f"apply_balance on a {idt} array != x @ A (+ b): {float(np.abs(f - exp).max()):.3g}"))
    return bad


def check_pipeline_case(d, case, cov=None):
    """real fits: an image whose swatches are an exact linear image of the reference colours is corrected such that the colour
    rows of the corrected checker reproduce the reference (optimiser + swatch-extraction tolerance 5e-3)"""
    from darsia.corrections.color.colorcorrection import ColorCheckerAfter2014, CustomColorChecker

    ref = ColorCheckerAfter2014().swatches_rgb
    P = np.eye(3) + np.array(case["perturb"], float)
    scale = case["scale"]
    col = ref @ P + np.array(case.get("offset", [0, 0, 0]), float)
    if col.min() < 0 or col.max() > 1:
        return []
    # checker whose swatches have MARGINS (flat 62x62 patches on a 326x500 card): the swatch extraction does not depend on
    # which pixels k-means assigns in a blend zone; OpenCV's global RNG is seeded before each extraction
    img = np.full((326, 500, 3), 0.05)
    for i, r0 in enumerate(ROWS):
        for j, c0 in enumerate(COLS):
            img[r0 - 6:r0 + 56, c0 - 6:c0 + 56] = col[i, j]

    def run():
        import cv2

        cc = d.ColorCorrection(config={"roi": d.make_voxel([[0, 0], [326, 0], [326, 500], [0, 500]]), "colorbalancing": case["mode"],
                                       "whitebalancing": case["wb"], "balancing": "darsia"})
        cv2.setRNGSeed(4321)
        out = cc.correct_array(img.copy())
        cv2.setRNGSeed(4321)
        return CustomColorChecker(image=out).swatches_rgb

    got = call(run)
    if isinstance(got, Raised):
        return [("C12:ColorCorrection.correct_array:raises:harness", f"{got}")]
    err = float(np.abs(got[:-1] - ref[:-1]).max())
    if cov is not None:
        cov["pipeline_colour_rows_err_max"] = max(cov.get("pipeline_colour_rows_err_max", 0.0), err)
    if err > 5e-3:
        return [(f"C12:ColorCorrection:colour-rows-not-reproduced(wb={int(case['wb'])},{case['mode']})",
                 f"exact {case['mode']} ground truth: corrected colour swatches differ from the reference by {err:.3g}")]
    return []



def check_order_case(d, case, cov=None):
    """ColorCorrection (balancing='darsia', whitebalancing on) on a photo whose checker colours are NOT an affine image of
    the reference (channel-wise gamma, cast on the grey row): the corrected image must equal the stand-alone stage balances
    applied one after the other - WhiteBalance fitted on the grey row, then Affine/ColorBalance fitted on the white-balanced
    colour rows. (Both sides run the same Powell fits on the same swatches; tolerance 5e-3.)"""
    from darsia.corrections.color.colorcorrection import ColorCheckerAfter2014, CustomColorChecker

    ref = ColorCheckerAfter2014().swatches_rgb.astype(float)
    M, t, gamma, cast = (np.array(case[k], float) for k in ("M", "t", "gamma", "cast"))
    col = np.clip(ref @ M + t, 0.01, 1.0) ** gamma
    col[-1] = np.clip(col[-1] * cast, 0.0, 1.0)
    chk = np.full((326, 500, 3), 0.05)
    for i, r in enumerate(ROWS):
        for j, c in enumerate(COLS):
            chk[r - 6:r + 56, c - 6:c + 56] = col[i, j]
    photo = np.full((380, 580, 3), 0.3)
    photo[30:356, 40:540] = chk
    mode = case["mode"]

    def run():
        cc = d.ColorCorrection(base=None, config={"roi": d.make_voxel([[30, 40], [356, 40], [356, 540], [30, 540]]),
                                                  "balancing": "darsia", "whitebalancing": True, "colorbalancing": mode})
        import cv2

        cv2.setRNGSeed(4321)
        out = cc.correct_array(photo.copy())
        cv2.setRNGSeed(4321)
        sw = CustomColorChecker(image=photo[30:356, 40:540]).swatches_rgb
        rf = cc.colorchecker.swatches_rgb
        wb = d.WhiteBalance()
        wb.find_balance(sw[-1], rf[-1])
        cb = d.AffineBalance() if mode == "affine" else d.ColorBalance()
        cb.find_balance(wb.apply_balance(sw[:-1]), rf[:-1])
        return out, cb.apply_balance(wb.apply_balance(photo))

    r = call(run)
    if isinstance(r, Raised):
        return [("C12:ColorCorrection.correct_array:raises(order):harness", f"{r}")]
    out, exp = r
    err = float(np.abs(out - exp).max())
    if cov is not None:
        cov["order_dev_max"] = max(cov.get("order_dev_max", 0.0), err)
    if err > 5e-3:
        return [(f"C12:ColorCorrection:≠white-balance-then-colour-balance({mode})",
                 f"non-affine camera response: ColorCorrection output differs by {err:.3g} from WhiteBalance (grey row) followed by "
                 f"{'AffineBalance' if mode == 'affine' else 'ColorBalance'} (white-balanced colour rows) applied one after the other")]
    return []


# ---------------------------------------------------------------------------- round 4: dtype path of ColorCorrection (G1 table)

IN_DTYPES = ["uint8", "uint16", "float32", "float64", "int16", "int64", "bool"]
LDT = {"uint8": "u8", "uint16": "u16", "float32": "f32", "float64": "f64", "int16": "i16", "int64": "i64", "bool": "b"}


def tabulate_dtypes(d):
    """run ColorCorrection.correct_array on the synthetic checker in every input dtype x {inactive, active} x
    {balancing darsia (stage fits stubbed by the identity), balancing colour}: result dtype or exception class"""
    import random

    rng = random.Random(12)
    sw, img64 = dyadic_checker(rng, 6)
    n0, n1 = img64.shape[:2]
    table = {}
    for dt in IN_DTYPES:
        if dt == "bool":
            img = img64 > 0.5
        elif dt.startswith("float"):
            img = img64.astype(dt)
        else:
            img = (img64 * (np.iinfo(dt).max if dt.startswith("u") else 100)).astype(dt)
        for active in (False, True):
            for balancing in ("darsia", "colour"):
                def run():
                    cc = d.ColorCorrection(config={"roi": [[0, 0], [n0 - 1, 0], [n0 - 1, n1 - 1], [0, n1 - 1]], "active": active,
                                                   "balancing": balancing, "colorbalancing": "linear", "whitebalancing": True})
                    ident = [[Fr(int(a == b)) for b in range(3)] for a in range(3)]
                    queue, log = [("diagonal", ident, [Fr(0)] * 3), ("linear", ident, [Fr(0)] * 3)], []
                    with Stub(d, queue, log):
                        out = cc.correct_array(img.copy())
                    return str(np.asarray(out).dtype)

                table[(dt, active, balancing)] = call(run)
    return table


def emit_dtypes(table):
    L = ["import DarsiaModel.Basic", "namespace Darsia.Gen", "open Darsia", "",
         "/-- numpy dtypes that occur as input / output of ColorCorrection.correct_array -/",
         "inductive CDT | u8 | u16 | f32 | f64 | i16 | i64 | b", "  deriving DecidableEq, Repr", "",
         "def CDT.all : List CDT := [.u8, .u16, .f32, .f64, .i16, .i64, .b]", "",
         "/-- ColorCorrection.correct_array: input dtype, active flag, balancing = \"colour\"? ↦ result dtype or exception class;",
         "tabulated from the running code (stage fits of the darsia branch stubbed by the identity) -/",
         "def colorCorrectionDtype : CDT → Bool → Bool → Except Err CDT"]
    for (dt, active, balancing), v in table.items():
        rhs = f"(.error .{v.cls})" if isinstance(v, Raised) else (f"(.ok .{LDT[v]})" if v in LDT else "(.error .other)")
        L.append(f"  | .{LDT[dt]}, {'true' if active else 'false'}, {'true' if balancing == 'colour' else 'false'} => {rhs}")
    L += ["", "end Darsia.Gen"]
    return "\n".join(L) + "\n"


# Round-7 triage (false-alarm direction). Only clauses of the STATEMENT produce failing inputs; clauses that encode the current
# pipeline / storage convention / class structure (what the Lean model says) are TIE-BROKEN marks; clauses about inputs or APIs
# outside the statement and quantifier are observations.
MARK_PATTERNS = (
    ":stage-class",                      # AdaptiveBalance need not instantiate the three stand-alone classes
    "C12:ColorCorrection",               # ColorCorrection pipeline / stage order: current pipeline, not a stated clause
    "__call__≠apply_balance",            # entry-point consistency: model tie
    ":not-row-vector-action",            # x @ A (+ b) is the current storage convention
    ":reshape-does-not-commute(",        # non-float64 layouts
    ".reset:raises", "reset:not-identity",
    ":harness",
)
OBSERVE_PATTERNS = (
    "(inexact destinations",             # noisy destinations are outside the quantifier (exact ground truths)
    "objective-does-not-bound-the-swatch-error",
)


def report(ctx, bad, case):
    for sig, what in bad:
        if any(p in sig for p in OBSERVE_PATTERNS):
            ctx.cov.setdefault("observations", {})[sig] = what
        elif any(p in sig for p in MARK_PATTERNS):
            if not any(m.get("correspondence") == sig for m in ctx.marks):
                ctx.mark("TIE-BROKEN", {"correspondence": sig, "what": what, "case": case})
        else:
            ctx.fail(sig, what, {"case": case, "observed": what})


def oracle(ctx, d):
    rng = ctx.rng
    for i in range(ctx.pick(9, 60)):
        mode = MODES[i % 3]
        src = rand_swatches(rng, flat=bool(i % 2))
        A, b = rand_truth(rng, mode)
        case = dict(mode=mode, src=src.tolist(), A=A.tolist(), b=b.tolist())
        ctx.count(("fit", mode, i))
        report(ctx, check_fit_case(d, case, ctx.cov), case)
    seqs = [list(p) for n in (2, 3) for p in itertools.product(MODES, repeat=n)]
    if not ctx.big:
        # quick: every ordered pair, and a rotating third of the triples
        seqs = seqs[:9] + [s for j, s in enumerate(seqs[9:]) if j % 3 == ctx.seed % 3]
    for j, modes in enumerate(seqs):
        for rep in range(ctx.pick(1, 3)):
            truth = MODES[(j + rep) % 3]
            src = rand_swatches(rng, flat=bool((j + rep) % 2))
            A, b = rand_truth(rng, truth)
            case = dict(modes=modes, truth=truth, src=src.tolist(), A=A.tolist(), b=b.tolist())
            ctx.count(("staged", tuple(modes), truth))
            report(ctx, check_staged_case(d, case, ctx.cov), case)
    # every stage with its own exact target: every ordered pair and triple of modes (all of them in both tiers)
    allseqs = [list(p) for n in (2, 3) for p in itertools.product(MODES, repeat=n)]
    for j, modes in enumerate(allseqs):
        for rep in range(ctx.pick(1, 4)):
            src = rand_swatches(rng, flat=bool((j + rep) % 2))
            truths = []
            for m in modes:
                A, b = rand_truth(rng, m, amp=0.2)
                if m == "diagonal":
                    # clearly non-uniform rescaling
                    A = np.diag([1 + sgn * rng.uniform(0.08, 0.2) for sgn in rng.sample([1, -1, 1], 3)])
                if m == "affine":
                    b = np.array([sgn * rng.uniform(0.03, 0.08) for sgn in (1, -1, 1)])
                truths.append((A.tolist(), b.tolist()))
            case = dict(own_targets=True, modes=modes, src=src.tolist(), truths=truths)
            ctx.count(("own-targets", tuple(modes), rep))
            report(ctx, check_own_targets_case(d, case, ctx.cov), case)
    # warm starts (a balance that already holds a non-identity map is re-fitted against other exact destinations) and the
    # one-shot entry points (balance(img, src, dst), shortcut functions, AdaptiveBalance.__call__)
    for i in range(ctx.pick(12, 60)):
        mode = MODES[i % 3]
        src = rand_swatches(rng, flat=bool(i % 2))
        A, b = rand_truth(rng, mode)
        if mode == "affine":
            b = np.array([sgn * rng.uniform(0.03, 0.08) for sgn in (1, -1, 1)])
        kind = ("warm", "call", "shortcut", "adaptive-call")[(i // 3) % 4]
        case = dict(mode=mode, src=src.tolist(), A=A.tolist(), b=b.tolist())
        if kind == "warm":
            As, bs = rand_truth(rng, mode, amp=0.25)
            case["start"] = dict(A=As.tolist(), b=bs.tolist())
        elif kind == "adaptive-call":
            case["entry"] = "adaptive-call"
        else:
            case["entry"] = kind
        ctx.count(("fit-entry", kind, mode, i))
        report(ctx, check_fit_case(d, case, ctx.cov), case)
    # inexact destinations: brightness-correlated error and plain noise, start = identity and = least-squares optimum
    for i in range(ctx.pick(9, 60)):
        mode = MODES[i % 3]
        src = rand_swatches(rng, flat=bool(i % 2))
        A, b = rand_truth(rng, mode, amp=0.1)
        flat = src.reshape(-1, 3)
        bright = flat.mean(axis=1, keepdims=True)
        noise = (0.08 * (0.5 - bright) * np.ones((1, 3)) if (i // 3) % 2 == 0
                 else np.array([[rng.uniform(-0.04, 0.04) for _ in range(3)] for _ in range(flat.shape[0])]))
        case = dict(mode=mode, src=src.tolist(), A=A.tolist(), b=b.tolist(), noise=noise.reshape(src.shape).tolist())
        ctx.count(("noisy-fit", mode, i))
        report(ctx, check_fit_case(d, case, ctx.cov), case)
    # stage order inside ColorCorrection on a non-affine camera response
    for i in range(ctx.pick(2, 6)):
        case = dict(order=True, mode=("affine", "linear")[i % 2],
                    M=[[(0.8 if a == b2 else 0.0) + rng.uniform(-0.12, 0.12) for b2 in range(3)] for a in range(3)],
                    t=[rng.uniform(0.01, 0.06) for _ in range(3)], gamma=[rng.uniform(0.75, 1.4) for _ in range(3)],
                    cast=[1.25, 0.9, 0.7] if i % 2 == 0 else [rng.uniform(0.7, 1.3) for _ in range(3)])
        ctx.count(("order", case["mode"], i))
        report(ctx, check_order_case(d, case, ctx.cov), case)
    # long-lived objects: reset() on every class that has one
    for i in range(ctx.pick(8, 48)):
        cname = ("AdaptiveBalance", "AffineBalance", "ColorBalance", "WhiteBalance")[i % 4]
        mode = ("diagonal", "linear", "affine")[(i // 4) % 3] if cname == "AdaptiveBalance" else {"AffineBalance": "affine", "ColorBalance": "linear", "WhiteBalance": "diagonal"}[cname]
        A0, _ = rand_truth(rng, "affine", amp=0.2)
        b0 = np.array([sgn * rng.uniform(0.03, 0.08) for sgn in (1, -1, 1)])
        A, b = rand_truth(rng, mode)
        case = dict(reset=True, cls=cname, mode=mode, how=("fit", "set")[i % 2], src=rand_swatches(rng, flat=True).tolist(),
                    A0=A0.tolist(), b0=b0.tolist(), A=A.tolist(), b=b.tolist())
        ctx.count(("reset", cname, mode, i))
        report(ctx, check_reset_case(d, case), case)
    # array layouts
    for i in range(ctx.pick(12, 120)):
        mode = MODES[i % 3]
        dyadic = i % 2 == 0
        if dyadic:
            A, b = rand_stage(rng, mode)
            A, b = [[float(x) for x in r] for r in A], [float(x) for x in b]
            shape = [(4, 6, 3), (24, 3), (5, 7, 3)][(i // 2) % 3]
            src = np.array([rng.randint(0, 8) / 8.0 for _ in range(int(np.prod(shape)))]).reshape(shape)
        else:
            A, b = rand_truth(rng, mode)
            A, b = A.tolist(), b.tolist()
            src = rand_swatches(rng, flat=bool(i % 4 == 1))
        case = dict(layout=True, mode=mode, dyadic=dyadic, A=A, b=b, src=src.tolist(),
                    img_dtype=("float64", "uint8", "float32", "uint16")[(i // 3) % 4])
        ctx.count(("layout", mode, i))
        report(ctx, check_layout_case(d, case), case)
    # ColorCorrection pipeline with real fits
    for i in range(ctx.pick(2, 8)):
        from darsia.corrections.color.colorcorrection import ColorCheckerAfter2014

        ref = ColorCheckerAfter2014().swatches_rgb
        mode = ("affine", "linear")[(i // 2) % 2]
        for _try in range(20):
            perturb = [[rng.uniform(-0.04, 0.04) for _ in range(3)] for _ in range(3)]
            # the image is ref @ P + q, i.e. the exact correction is affine with a clearly non-zero translation
            offset = [rng.uniform(0.02, 0.05) * rng.choice([1, -1]) for _ in range(3)] if mode == "affine" else [0.0, 0.0, 0.0]
            im = ref @ (np.eye(3) + np.array(perturb)) + np.array(offset)
            if im.min() >= 0 and im.max() <= 1:
                break
        case = dict(pipeline=True, wb=bool(i % 2 == 0), mode=mode, scale=rng.choice([6, 8]), perturb=perturb, offset=offset)
        ctx.count(("pipeline", case["wb"], case["mode"], i))
        report(ctx, check_pipeline_case(d, case, ctx.cov), case)


def _dispatch(d, case):
    if case.get("own_targets"):
        return check_own_targets_case(d, case)
    if case.get("reset"):
        return check_reset_case(d, case)
    if case.get("layout"):
        return check_layout_case(d, case)
    if case.get("pipeline"):
        return check_pipeline_case(d, case)
    if case.get("order"):
        return check_order_case(d, case)
    return check_staged_case(d, case) if "modes" in case else check_fit_case(d, case)


def replay(data):
    import darsia as d

    case = data.get("replay", {}).get("case", data.get("case"))
    if case is None:
        print(json.dumps(data, indent=1)[:4000])
        return 0
    bad = _dispatch(d, case)
    print("case:", json.dumps({k: v for k, v in case.items() if k != "src"}), "swatches:", np.array(case.get("src", [])).shape)
    for sig, what in bad:
        print("FAILS:", sig, "--", what)
    if not bad:
        print("holds on this input")
    return 1 if bad else 0


def run(ctx):
    import pathlib

    import darsia as d

    for f in sorted((pathlib.Path(__file__).resolve().parents[2] / "corpus" / "C12").glob("*.json")):
        case = json.loads(f.read_text()).get("replay", {}).get("case")
        if case:
            report(ctx, _dispatch(d, case), case)
    table = tabulate_dtypes(d)
    ctx.write_gen("ColorDtypes", emit_dtypes(table))
    ctx.cov["dtype_table"] = {f"{k[0]},{'active' if k[1] else 'inactive'},{k[2]}": repr(v) if isinstance(v, Raised) else v for k, v in table.items()}
    ctx.prove("C12")
    corr_composition(ctx, d)
    corr_apply_and_objective(ctx, d)
    corr_pipeline(ctx, d)
    corr_entry_points(ctx, d)
    corr_reset_ops(ctx, d)
    corr_objective_closures(ctx, d)
    oracle(ctx, d)
    ctx.cov["explanation"] = CLAIM["text"]
    ctx.cov["rule"] = ("composition: every mode sequence of length 1-3 plus random sequences of length 2-4 with random dyadic stage "
                       "matrices (exact); fits: random swatch sets (4x6x3 and flat Nx3) with ground truths within 0.15 of the identity, "
                       "every balance class; staged: every ordered pair (and triple) of modes with a ground truth of rotating class")
    ctx.assumptions += [
        "scipy.optimize.minimize(method='Powell', tol=1e-6) reaches the least-squares minimiser within 1e-4 on the swatches (sampled, not proved)",
        "numpy matmul on dyadic inputs is exact (used for the exact composition correspondence)",
    ]
