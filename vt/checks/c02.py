"""C02 - extracted sub-images keep their data and their physical placement.

Tie: differential correspondence of random extraction programs (subregion by slices / VoxelArray /
CoordinateArray, time_slice, time_interval, append, stack) against DarsiaModel.ImageMeta; the payload encodes the
root array, time index and voxel of every entry, so "exactly the corresponding block" is compared exactly; all
geometries of the correspondence are dyadic (exact float arithmetic). The oracle transcribes the statement on the
implementation: every voxel of the final image is traced back to the root voxel it was taken from and must have the
same coordinate, voxel size, time stamp, date and payload layout; physical box == voxel box; stack/append then
time_slice returns the originals.
"""
from __future__ import annotations

import json
from datetime import datetime, timedelta
from fractions import Fraction

import numpy as np

from ..lib.core import flist, fmts, frac
from ..lib.impl import Raised, call
from . import c20

LEVEL = "proof"
CLAIM = dict(
    category="proof",
    text="Theorems in DarsiaProps.C02 about the executable model DarsiaModel.ImageMeta (data as root-index lists, numpy slicing as "
    "drop/take, rational geometry): sub_placed (one subregion by ANY tuple of slices with non-empty result: data block = parent block "
    "at the normalised start, coordinate(v) = parent coordinate(v + start) for every v, voxel size unchanged, time/date/series/scalar carried), "
    "physical_box_clipped (a physical box with corners at the coordinates of arbitrary voxel positions selects what the VoxelArray of the floored positions selects, "
    "reversed and non-reversed axes, all dims), roi_clipping (selected range = boxRange; voxel j selected iff lo <= j < hi and j in the image; ROI entirely outside selects nothing), "
    "nest (any program of subregion / VoxelArray / CoordinateArray / time_slice / time_interval steps of ANY length keeps the image placed "
    "in the root with composed offsets; induction over the program), nest_offsets (the composed offset is the accumulated sum of the normalised slice starts, explicitly), subCoords_unfold (DEFINITIONAL unfolding, proves nothing about behaviour), time_slice / time_interval bookkeeping, "
    "stack: stack_slice_rel (images with relative times only: slicing the stacked series returns the originals exactly), stack_slice_shared_reference (dated images sharing one reference date: "
    "the originals exactly), stack_slice_dated (dated images in general: data and dates exactly, relative time RE-REFERENCED to the first image's reference date). The property's stack sentence read "
    "literally FAILS for dated images with default reference dates and for dated images with stored times - two KNOWN FINDINGS with exact signatures, Lean witnesses stack_rereferences_witness / "
    "stack_discards_stored_times_witness; the oracle checks the literal sentence and files a failure as known only when the observed time is exactly date_k - ref_0 with reference ref_0. "
    "in_range_steps_succeed (progress: in-range steps do not raise; non-emptiness characterised). DATA ON ARRAYS for EVERY payload layout - scalar, vector and tensor-valued (component multi-index of any rank; time axis addressed at position space_dim as in the code) - "
    "(DarsiaModel.ImageArr: pixel array = function from the raw "
    "numpy index to a value tag; numpy index arithmetic of subregion/time_slice/time_interval/np.stack): extract_data_eq (for every root - scalar/vector, single/series - "
    "and every extraction program: entry (t,v,c) of the result = root entry (root time index of slab t, v + composed offset, c)), extract_data_inv, append_data_eq, "
    "stack_slice_data. append_offset_keeps_times (an explicit offset, 0 included, "
    "keeps the stored relative times also for dated images), time_interval_keeps_stored_times. The relative time of a slab is what the parent "
    "stored (roots with dates AND independent stored times are covered), not a function of its date. Tie: differential correspondence on random programs (metadata + slab index lists, AND the whole pixel array entry by entry against np.arange-coded payloads) "
    "(exact, dyadic geometries) + oracle on the implementation tracing every voxel back to its root voxel.",
    note="STATUS OF CLAUSES (round 7): failing inputs are claimed only for data and placement of extracted parts, time bookkeeping and the run-length clauses; stack changing its input, an ROI entirely outside, result aliasing the parent and image-from-dates conventions are TIE-BROKEN marks; an unevaluable result is a HARNESS-EXCEPTION mark; time lists may be any 1-d sequence; the reference date is not part of the literal stack clause; geometry is compared within 8 ulp*scale on the dyadic stream (64 on the general one); dates are modelled as integer microseconds and relative times as the whole signed difference in seconds (secondsBetween); generators cover day spans, fractional (dyadic) seconds, "
    "reference dates after the dates, and integer-typed dimensions / origins; slices with a step other than 1 are outside the quantifier and not modelled (the code strides the data but derives dimensions from start/stop); Image.append compares dimensions/origin with "
    "np.allclose and keeps the receiver's geometry (modelled with numpy's tolerance; appending an image whose geometry differs within 1e-5 relative is outside the quantifier and only counted); "
    "extents >= 1e5 voxels (where np.allclose cannot tell neighbouring integers apart) are not modelled; the model has value semantics: that stack() leaves the images passed in untouched and that extraction results do not alias their parent are checked by the oracle on the implementation; geometry on general (non-dyadic) floats is only covered by the oracle with a stated tolerance; Image.slice / reduce_axis are not part of C02; "
    "tuple-of-slices reaching beyond the image are clipped since the fix of Image.subregion (before: outside the property's quantifier).",
    technique="Lean 4 proof (invariant over extraction programs) + differential correspondence + oracle search",
)
EPOCH = datetime(2020, 1, 1)
KNOWN_REREF = "C02:stack-then-time_slice:relative-time-re-referenced(dated,default-reference)"
KNOWN_DISCARD = "C02:stack-then-time_slice:stored-times-discarded(both)"
OUTSIDE: dict = {}
"""Counters of observed behaviour outside the property's quantifier (reported in the evidence, never a violation)."""
EPS = Fraction(1, 2**52)
SP = 4096  # spatial code base


# ---------------------------------------------------------------------------
# root images


TKINDS = ("dates", "rel", "none", "both")
"""dates: absolute dates only (relative times derived); rel: relative times only; both: dates AND explicitly stored
relative times in another unit (stored time != date - reference date, as after append with offsets)."""


def has_dates(r):
    return r["tkind"] in ("dates", "both")


def has_times(r):
    return r["tkind"] in ("rel", "both")


def time_increment(rng):
    """Time between consecutive images, in seconds: whole seconds, fractions of a second (dyadic, exact as microseconds and as
    floats) and spans of one or several days - relative times are the WHOLE signed difference (days, seconds, microseconds)."""
    k = rng.random()
    if k < 0.5:
        return rng.randint(1, 30)
    if k < 0.7:
        return rng.randint(1, 120) / 4
    if k < 0.9:
        return 86400 * rng.randint(1, 3) + rng.randint(0, 7200)
    return 86400 * rng.randint(1, 2) + rng.randint(1, 7) / 2


def us(s_):
    """seconds (int or dyadic float) -> integer microseconds, the unit of the model's dates"""
    f = Fraction(s_) * 1000000
    assert f.denominator == 1
    return int(f)


def gen_root(rng, rid, dim=None, series=None, shape=None, geom=None, tkind=None, vector=None, dyadic=True, tensor=False):
    dim = dim or rng.choice((2, 2, 3))
    cap = 6 if dim == 2 else 4
    shape = shape or tuple(rng.choice([1, 2, 3, 3, 4, 5, cap, rng.randint(1, cap)]) for _ in range(dim))
    shape = tuple(min(cap, s) for s in shape)
    series = rng.random() < 0.6 if series is None else series
    T = rng.randint(1, 4) if series else 1
    vector = rng.random() < 0.3 if vector is None else vector
    if geom is None:
        if dyadic and rng.random() < 0.2:
            # INTEGER-typed metadata (Python ints, as in Image(arr) with the default dimensions or dimensions=[3, 5], origin=[2, -1]):
            # the voxel size dims/shape is in general not integral, so offsets start*h are fractional while origin arrays may be int-typed
            # (voxel sizes stay dyadic - k/2^m with dims = h*shape integral - so that float arithmetic remains exact)
            dims = []
            for n_ in shape:
                cands = [Fraction(k_, 2 ** m_) for k_ in (1, 3, 5, 7) for m_ in (2, 1, 0) if (Fraction(k_, 2 ** m_) * n_).denominator == 1]
                frac_c = [h_ for h_ in cands if h_.denominator != 1]
                h_ = rng.choice(frac_c) if frac_c and rng.random() < 0.8 else rng.choice(cands)
                dims.append(int(h_ * n_))
            origin = None if rng.random() < 0.6 else [rng.randint(-20, 20) for _ in range(dim)]
        elif dyadic:
            h = [Fraction(rng.randint(1, 7), 2 ** rng.randint(0, 4)) for _ in range(dim)]
            dims = [float(h[p] * shape[p]) for p in range(dim)]
            origin = None if rng.random() < 0.4 else [float(Fraction(rng.randint(-80, 80), 4)) for _ in range(dim)]
        else:
            dims = [10 ** rng.uniform(-3, 3) for _ in range(dim)]
            origin = None if rng.random() < 0.4 else [rng.uniform(-20, 20) * dims[rng.randrange(dim)] for _ in range(dim)]
        geom = (dims, origin)
    tkind = tkind or rng.choice(TKINDS)
    t0 = rng.randint(1, 50)
    incs = [time_increment(rng) for _ in range(T)]
    stamps = [t0 + sum(incs[:k]) for k in range(T)]
    return dict(rid=rid, dim=dim, shape=list(shape), dims=list(geom[0]), origin=geom[1], series=series, T=T, vector=bool(vector) and not tensor, tensor=bool(tensor),
                tkind=tkind, stamps=stamps, dyadic=dyadic)


def root_array(r):
    shape = tuple(r["shape"])
    n = int(np.prod(shape))
    sp = np.arange(n).reshape(shape)
    slabs = [((r["rid"] * 8 + t) * SP + sp) for t in range(r["T"])]
    arr = np.stack(slabs, axis=-1) if r["series"] else slabs[0]
    if r.get("tensor"):  # tensor-valued payload, range shape (2, 2): entry (c0, c1) = 4*code + 2*c0 + c1
        arr = np.stack([arr * 4.0 + k for k in range(4)], axis=-1).reshape(arr.shape + (2, 2))
    elif r["vector"]:
        arr = np.stack([arr * 2, arr * 2 + 1], axis=-1)
    else:
        arr = arr * 2
    return arr.astype(float)


def build_root(d, r):
    kw = dict(space_dim=r["dim"], dimensions=list(r["dims"]), scalar=not (r["vector"] or r.get("tensor")), series=r["series"])
    if r["origin"] is not None:
        kw["origin"] = list(r["origin"])
    if has_dates(r):
        ds = [EPOCH + timedelta(seconds=s) for s in r["stamps"]]
        kw["date"] = ds if r["series"] else ds[0]
    if has_times(r):
        ts = [float(s) / 4 for s in r["stamps"]]
        kw["time"] = ts if r["series"] else ts[0]
    if r.get("ref") is not None:  # an explicit reference date shared by several images
        kw["reference_date"] = EPOCH + timedelta(seconds=r["ref"])
    return call(d.Image, root_array(r), **kw)


def root_tokens(r, origin):
    cs = f"{r['dim']} {flist(r['shape'])} {flist(r['dims'])} {flist(origin)}"
    if has_times(r):
        time = flist([Fraction(s) / 4 for s in r["stamps"]])
    else:
        time = "none"
    date = f"{r['T']} " + " ".join(str(us(s)) if has_dates(r) else "none" for s in r["stamps"])
    return f"{r['rid']} {cs} {int(r['series'])} {int(not (r['vector'] or r.get('tensor')))} {r['T']} {time} {date}"


# ---------------------------------------------------------------------------
# canonical description of an implementation image (same format as Drivers/C02.lean showImg)


def sec(x):
    """a datetime as the model sees it: integer microseconds since EPOCH (exact)"""
    return None if x is None else (x - EPOCH) // timedelta(microseconds=1)


def opt(x, f=str):
    return "none" if x is None else f(x)


def as_list(x, series):
    """time / date of an image as a list: any sequence type is accepted (list, tuple, ndarray), a scalar becomes a singleton"""
    if isinstance(x, (list, tuple)) or (isinstance(x, np.ndarray) and x.ndim == 1):
        return list(x)
    return [x]


def decode_slabs(im):
    """Per time slab: (rid, t, per-axis root index lists) or raise ValueError if not a product block."""
    dim = im.space_dim
    arr = np.asarray(im.img)
    if not im.scalar:
        # component (0, …, 0) of every entry: the component axes are the trailing ones, after space and time
        want_rank = dim + (1 if im.series else 0)
        ncomp = max(0, arr.ndim - want_rank)
        arr = arr[(Ellipsis,) + (0,) * ncomp]
        if ncomp >= 2:
            arr = arr / 2  # tensor payloads are coded 4*code + component
    arr = arr / 2
    slabs = [arr[..., k] for k in range(arr.shape[dim])] if im.series else [arr]
    out = []
    for s in slabs:
        shape = s.shape
        if s.size == 0:
            out.append((None, None, [[] for _ in shape], shape))
            continue
        code = s.astype(np.int64)
        head = code.ravel()[0] // SP
        rid, t = divmod(int(head), 8)
        sp = code - head * SP
        out.append((rid, t, sp, shape))
    return out


def root_multi(sp, rshape):
    return np.stack(np.unravel_index(sp.ravel(), rshape), axis=1).reshape(sp.shape + (len(rshape),))


def arr_str(im):
    """The whole pixel array as the model driver prints it (shape | every entry, C order)."""
    if isinstance(im, Raised):
        return repr(im)
    a = np.asarray(im.img)
    return " ".join(str(int(x)) for x in a.shape) + " | " + " ".join(str(int(x)) for x in a.ravel())


def aline(line, vector, tensor=False):
    """`prog/stack/append ...` request -> the array request `aprog/astack/aappend <component shape> ...`
    (component shape as a length-prefixed list: scalar `0`, vector `1 2`, tensor `2 2 2`)."""
    op, rest = line.split(" ", 1)
    return f"a{op} {'2 2 2' if tensor else '1 2' if vector else '0'} {rest}"


def describe(im, roots):
    dim = im.space_dim
    parts = [" ".join(str(int(x)) for x in im.img.shape[:dim]), fmts(im.dimensions), fmts(np.asarray(im.origin)),
             f"{int(bool(im.series))} {int(bool(im.scalar))}",
             " ".join(opt(t, lambda v: fmts([v])) for t in as_list(im.time, im.series)),
             " ".join(opt(sec(x)) for x in as_list(im.date, im.series)), opt(sec(im.reference_date))]
    slabs = []
    for rid, t, sp, shape in decode_slabs(im):
        if rid is None:
            slabs.append("?:?:" + "/".join("" for _ in shape))
            continue
        multi = root_multi(sp, tuple(roots[rid]["shape"]))
        axes = []
        ok = True
        for a in range(dim):
            sel = [0] * dim
            sel[a] = slice(None)
            line = multi[tuple(sel)][:, a]
            axes.append([int(x) for x in line])
            want = line.reshape([-1 if b == a else 1 for b in range(dim)])
            ok = ok and np.array_equal(multi[..., a], np.broadcast_to(want, multi.shape[:-1]))
        slabs.append(("" if ok else "!notblock") + f"{rid}:{t}:" + "/".join(",".join(map(str, ax)) for ax in axes))
    parts.append(" ".join(slabs))
    return " | ".join(parts)


# ---------------------------------------------------------------------------
# programs


def sl_tok(s):
    return f"{opt(s.start)} {opt(s.stop)}"


def gen_step(rng, d, im, dyadic=True, malformed=False):
    """Return (token string, callable on the implementation image) for a step valid for `im` (mostly)."""
    dim = im.space_dim
    N = list(im.img.shape[:dim])
    kinds = ["sub", "sub", "subvox", "subcoord"] + (["tslice", "tint", "tint"] if im.series else [])
    if malformed:
        kinds = ["tslice-bad", "tslice-nonseries", "tint-nonseries", "sub-short"]
    k = rng.choice(kinds)
    if k == "sub":
        sls = []
        for n in N:
            a = rng.randrange(n)
            b = rng.randint(a + 1, n)
            form = rng.random()
            start = None if (a == 0 and form < 0.5) else (a - n if form > 0.9 else a)
            stop = None if (b == n and form < 0.5) else (b - n if (form > 0.9 and b < n) else (b + rng.randint(0, 2) if (b == n and form > 0.8) else b))
            sls.append(slice(start, stop))
        return f"sub {dim} " + " ".join(sl_tok(s) for s in sls), (lambda x, sls=tuple(sls): x.subregion(sls))
    if k == "subvox":
        pts = []
        for _ in range(rng.choice((2, 2, 3))):
            pts.append([rng.randint(-2, n + 2) for n in N])
        # make sure the box is non-empty on every axis
        for a, n in enumerate(N):
            lo, hi = max(0, min(p[a] for p in pts)), min(max(p[a] for p in pts), n)
            if lo >= hi:
                pts[0][a], pts[1][a] = 0, n
        return f"subvox {len(pts)} " + " ".join(flist(p) for p in pts), (lambda x, pts=pts: x.subregion(d.make_voxel(np.array(pts))))
    if k == "subcoord":
        cs = im.coordinatesystem
        vp = []
        for _ in range(2):
            vp.append([rng.randint(-4, 4 * n + 4) / 4 for n in N])
        for a, n in enumerate(N):
            lo, hi = max(0, int(np.floor(min(p[a] for p in vp)))), min(int(np.floor(max(p[a] for p in vp))), n)
            if lo >= hi:
                vp[0][a], vp[1][a] = 0.25, n + 0.5
        if not dyadic:  # keep away from voxel faces: quarter offsets are >= 1/4 voxel from a face unless integral
            vp = [[x + 0.125 for x in p] for p in vp]
        pts = np.asarray(cs.coordinate(np.array(vp)))
        return f"subcoord {len(pts)} " + " ".join(flist(p) for p in pts), (lambda x, pts=pts: x.subregion(d.make_coordinate(np.array(pts))))
    T = im.time_num
    if k == "tslice":
        i = rng.randrange(T)
        if rng.random() < 0.3:
            i -= T
        return f"tslice {i}", (lambda x, i=i: x.time_slice(i))
    if k == "tint":
        a = rng.randrange(T)
        b = rng.randint(a + 1, T)
        s = slice(None if (a == 0 and rng.random() < 0.5) else a, None if (b == T and rng.random() < 0.5) else (b - T if (b < T and rng.random() < 0.3) else b))
        return f"tint {sl_tok(s)}", (lambda x, s=s: x.time_interval(s))
    if k == "tslice-bad":
        i = T + rng.randint(0, 2) if im.series else 0
        return f"tslice {i}", (lambda x, i=i: x.time_slice(i))
    if k == "tslice-nonseries":
        return "tslice 0", (lambda x: x.time_slice(0))
    if k == "tint-nonseries":
        return "tint 0 1", (lambda x: x.time_interval(slice(0, 1)))
    sls = tuple(slice(0, 1) for _ in range(dim - 1))
    return f"sub {dim - 1} " + " ".join(sl_tok(s) for s in sls), (lambda x, sls=sls: x.subregion(sls))


def trace_check(d, root_im, r, final, dyadic, slabpos=None):
    """The statement, on the implementation: every voxel of `final` traced back to its root voxel.
    `slabpos` (for series assembled from several arrays): (array id, time index) -> slab index in `root_im`.
    Returns list of (signature, what)."""
    fails = []
    dim = r["dim"]
    if bool(final.scalar) != (not (r["vector"] or r.get("tensor"))):
        fails.append(("C02:payload-layout:scalar-flag", f"scalar flag {final.scalar} differs from the root's"))
    try:
        slabs = decode_slabs(final)
    except Exception as e:  # noqa: BLE001
        return [("C02:data:undecodable", f"payload of the extracted image cannot be decoded: {e!r}")]
    rtime = as_list(root_im.time, True)
    rdate = as_list(root_im.date, True)
    ftime = as_list(final.time, True)
    fdate = as_list(final.date, True)
    if len(ftime) != len(slabs) or len(fdate) != len(slabs):
        fails.append(("C02:time:length", f"{len(slabs)} time slabs but time={final.time} date={final.date}"))
        return fails
    rcs, fcs = root_im.coordinatesystem, final.coordinatesystem
    for k, (rid, t, sp, shape) in enumerate(slabs):
        if rid is None:
            continue
        if slabpos is not None:
            t = slabpos.get((rid, t))
            if t is None:
                fails.append(("C02:data:foreign-root", f"slab {k} comes from array {rid}, not part of the parent series"))
                continue
        elif rid != r["rid"]:
            fails.append(("C02:data:foreign-root", f"slab {k} comes from root {rid}"))
            continue
        # payload layout: vector components in order
        if r.get("tensor"):
            raw = np.asarray(final.img)
            comp = raw[..., k, :, :] if final.series else raw
            if comp.shape[-2:] != (2, 2) or not all(np.array_equal(comp[..., a_, b_], comp[..., 0, 0] + (2 * a_ + b_)) for a_ in range(2) for b_ in range(2)):
                fails.append(("C02:payload-layout:tensor-components", f"tensor components are permuted / mixed / not the (2, 2) block of one voxel (array shape {raw.shape})"))
        if r["vector"]:
            raw = np.asarray(final.img)
            comp = raw[..., k, :] if final.series else raw
            if not np.array_equal(comp[..., 1], comp[..., 0] + 1):
                fails.append(("C02:payload-layout:components", "vector components are permuted / mixed"))
        multi = root_multi(sp, tuple(r["shape"]))
        # block: contiguous and in order along every axis
        first = multi[(0,) * dim]
        want = first + np.stack(np.meshgrid(*[np.arange(n) for n in shape], indexing="ij"), axis=-1)
        if not np.array_equal(multi, want):
            fails.append(("C02:data:not-the-block", f"slab {k}: data are not the contiguous block starting at root voxel {first.tolist()}"))
            continue
        # coordinates of every voxel corner of the sub-image = coordinate of the root voxel it was taken from
        vox = np.stack(np.meshgrid(*[np.arange(n + 1) for n in shape], indexing="ij"), axis=-1).reshape(-1, dim)
        cf = call(fcs.coordinate, vox)
        cr = call(rcs.coordinate, vox + first)
        if isinstance(cf, Raised) or isinstance(cr, Raised):
            fails.append(("C02:coordinate:raises", f"{cf!r} {cr!r}"))
        else:
            cf, cr = np.asarray(cf), np.asarray(cr)
            # a few ulp of the scale also on dyadic geometries: an equivalent evaluation order may differ in the last bit
            scale = np.abs(np.asarray(root_im.origin, dtype=float)).max() + max(r["dims"])
            bad = np.nonzero(np.any(np.abs(cf - cr) > (8 if dyadic else 64) * 2.0 ** -52 * scale, axis=1))[0]
            if len(bad):
                v = vox[bad[0]]
                fails.append(("C02:coordinate(sub voxel)!=coordinate(parent voxel)",
                              f"voxel {v.tolist()} of the sub-image is root voxel {(v + first).tolist()} but has coordinate {cf[bad[0]].tolist()} instead of {cr[bad[0]].tolist()}"))
        hs, hr = final.voxel_size, root_im.voxel_size
        for a in range(dim):
            tol = (8 if dyadic else 64) * 2.0 ** -52 * (np.abs(np.asarray(root_im.origin, dtype=float)).max() + max(r["dims"])) / shape[a] + 1e-15 * hr[a]
            if abs(hs[a] - hr[a]) > tol:
                fails.append(("C02:voxel_size-changed", f"voxel size {hs} of the sub-image differs from the parent's {hr}"))
                break
        # time stamp and date of the slab it was taken from
        if fdate[k] != rdate[t]:
            fails.append(("C02:date-changed", f"slab {k} (root time index {t}): date {fdate[k]} vs root {rdate[t]}"))
        if rtime[t] is None and rdate[t] is not None:
            # only reachable by assembling images of DIFFERENT kinds (dated + undated) into one series: the series stores no
            # relative time although the slab has a date, and a new image derives one from the date. Outside the property's
            # quantifier (images carrying dates, relative times, or neither); the model mirrors it (correspondence).
            OUTSIDE["time-derived-from-date-in-mixed-series"] = OUTSIDE.get("time-derived-from-date-in-mixed-series", 0) + 1
        elif ftime[k] != rtime[t]:
            fails.append(("C02:time-changed", f"slab {k} (root time index {t}): time {ftime[k]} vs root {rtime[t]}"))
    return fails


AXMAP = {1: [(0, False)], 2: [(1, False), (0, True)], 3: [(1, False), (2, True), (0, True)]}  # documented orientation


def expected_selection(tok, parent):
    """The block a step must select, computed independently of the code under test (numpy indexing of the parent
    array with the ranges the step denotes). Returns the expected array."""
    def oi(t):
        return None if t == "none" else int(t)

    w = tok.split()
    dim = parent.space_dim
    N = list(parent.img.shape[:dim])
    if w[0] == "sub":
        k = int(w[1])
        return parent.img[tuple(slice(oi(w[2 + 2 * i]), oi(w[3 + 2 * i])) for i in range(k))]
    if w[0] in ("subvox", "subcoord"):
        n, pos, pts = int(w[1]), 2, []
        for _ in range(n):
            k = int(w[pos])
            pts.append([Fraction(t) for t in w[pos + 1: pos + 1 + k]])
            pos += 1 + k
        if w[0] == "subcoord":  # physical corner points -> voxel indices by the documented affine map, exactly
            origin = [frac(float(x)) for x in np.asarray(parent.origin)]
            vox = []
            for x in pts:
                v = [0] * dim
                for i in range(dim):
                    p_, rev = AXMAP[dim][i]
                    h = frac(parent.dimensions[p_]) / N[p_]
                    q = (-1 if rev else 1) * (x[i] - origin[i]) / h
                    v[p_] = q.numerator // q.denominator
                vox.append(v)
            pts = vox
        lo = [max(0, min(int(p_[a]) for p_ in pts)) for a in range(dim)]
        hi = [max(0, min(max(int(p_[a]) for p_ in pts), N[a])) for a in range(dim)]
        return parent.img[tuple(slice(l, h) for l, h in zip(lo, hi))]
    tail = (slice(None),) * int(parent.range_dim) if not parent.scalar else ()
    if w[0] == "tslice":
        return parent.img[(Ellipsis, int(w[1])) + tail]
    if w[0] == "tint":
        return parent.img[(Ellipsis, slice(oi(w[1]), oi(w[2]))) + tail]
    raise ValueError(tok)


def run_program(d, rng, r, nsteps, dyadic, malformed_at=None):
    """Generate and run a program on the implementation. Returns (line, final image | Raised, root image, tokens, step failures)."""
    root = build_root(d, r)
    if isinstance(root, Raised):
        return None
    origin = [float(x) for x in np.asarray(root.origin)]
    toks = [root_tokens(r, origin)]
    im = root
    fails = []
    for s in range(nsteps):
        tok, fn = gen_step(rng, d, im, dyadic, malformed=(malformed_at == s))
        toks.append(tok)
        nxt = call(fn, im)
        if isinstance(nxt, Raised):
            im = nxt
            break
        if malformed_at != s:
            want = call(expected_selection, tok, im)
            if not isinstance(want, Raised) and (want.shape != nxt.img.shape or not np.array_equal(want, nxt.img)):
                fails.append((f"C02:wrong-block-selected:{tok.split()[0]}", f"step `{tok}` on an image of shape {im.img.shape} returned data of shape {nxt.img.shape}, "
                              f"the denoted block has shape {want.shape}" + ("" if want.shape != nxt.img.shape else " and different content")))
        im = nxt
        if any(n == 0 for n in im.img.shape[: im.space_dim]) or im.time_num == 0:
            break
    return "prog " + " ; ".join(toks), im, root, toks, fails


def stack_case(d, rng, n, tkind, dim, with_offsets, shared_ref=False):
    """Build n single-time images with a common geometry; stack (or append with offsets); slice again."""
    r0 = gen_root(rng, 0, dim=dim, series=False, tkind=tkind)
    if shared_ref and has_dates(r0):
        # the shared reference date may lie before, between or AFTER the dates (negative relative times), also days away
        r0["ref"] = rng.choice([rng.randint(-100, 10), rng.randint(20, 60), 86400 * rng.randint(-2, 2) + rng.randint(0, 50), rng.randint(-40, 200) / 4])
    rs = []
    stamp = rng.randint(0, 20)
    for k in range(n):
        r = dict(r0)
        r["rid"] = k
        stamp += time_increment(rng)
        r["stamps"] = [stamp]
        rs.append(r)
    # offsets: the falsy ones (0, 0.0) are legitimate offsets, not "no offset"
    offs = [rng.choice([0, 0.0, 0, rng.randint(1, 12) / 4, float(rng.randint(1, 400))]) for _ in range(n - 1)] if with_offsets else None
    return stack_eval(d, rs, offs)


def stack_eval(d, rs, offs):
    """Stack (offs None) or append-with-offsets the single-time images described by rs; slice again; compare."""
    n, tkind, with_offsets = len(rs), rs[0]["tkind"], offs is not None
    ims = [build_root(d, r) for r in rs]
    if any(isinstance(x, Raised) for x in ims):
        return None
    origin = [float(x) for x in np.asarray(ims[0].origin)]
    fails = []
    if with_offsets:
        acc = ims[0].copy()
        res = acc
        for k in range(1, n):
            rr = call(acc.append, ims[k].copy(), offs[k - 1])
            if isinstance(rr, Raised):
                res = rr
                break
        line = None
        if n == 2 and rs[0].get("ref") is not None:
            line = f"appendr {root_tokens(rs[0], origin)} {us(rs[0]['ref'])} {root_tokens(rs[1], origin)} {us(rs[1]['ref'])} {fmts([offs[0]])}"
        elif n == 2:
            line = f"append {root_tokens(rs[0], origin)} {root_tokens(rs[1], origin)} {fmts([offs[0]])}"
    else:
        offs_ = [0] * (n - 1)
        # stack receives the image objects themselves; independently built twins serve as the record of "the originals"
        twins = [build_root(d, r) for r in rs]
        passed, ims = ims, twins
        res = call(d.stack, passed)
        if rs[0].get("ref") is not None:
            line = f"stackr {n} " + " ".join(root_tokens(r, origin) + f" {us(r['ref'])}" for r in rs)
        else:
            line = f"stack {n} " + " ".join(root_tokens(r, origin) for r in rs)
        if not isinstance(res, Raised):
            for k in range(n):
                a_, b_ = passed[k], twins[k]
                same = (a_ is not res and bool(a_.series) == bool(b_.series) and a_.img.shape == b_.img.shape and np.array_equal(a_.img, b_.img)
                        and a_.time == b_.time and a_.date == b_.date)
                if not same:
                    fails.append((f"C02:stack:changes-its-input:image-{'0' if k == 0 else 'k>0'}",
                                  f"after stack(images) of {n} single-time images, images[{k}] is no longer the original: series={a_.series}, data shape {a_.img.shape} "
                                  f"(original {b_.img.shape}), time {a_.time} (original {b_.time})" + ("; stack returned images[0] itself" if a_ is res else "")))
    if isinstance(res, Raised):
        return line, res, rs, offs, [(f"C02:stack:raises:{res!r}", f"stacking {n} single-time images ({tkind}) raises {res!r}")]
    shift = offs if with_offsets else [0] * (n - 1)
    for k in range(n):
        back = call(res.time_slice, k)
        if isinstance(back, Raised):
            fails.append((f"C02:stack-then-time_slice:raises", f"time_slice({k}) of the stacked series raises {back!r}"))
            continue
        if back.img.shape != ims[k].img.shape or not np.array_equal(back.img, ims[k].img):
            fails.append(("C02:stack-then-time_slice:data", f"slice {k} of the stacked series is not image {k}"))
        if back.date != ims[k].date:
            fails.append(("C02:stack-then-time_slice:date", f"slice {k}: date {back.date} vs original {ims[k].date}"))
        cls = {"dates": "dates", "rel": "relative-times-only", "none": "no-time", "both": "dates-and-times"}[tkind]
        if with_offsets:
            # append(offset): the stored relative times, those of the appended images shifted
            want = None if tkind == "none" else ims[k].time + (shift[k - 1] if k else 0)
            if back.time != want:
                fails.append((f"C02:stack-then-time_slice:time:{cls}:offset",
                              f"slice {k} of append(offset) of {n} images carrying {cls}: relative time {back.time}, required {want} (series time {res.time})"))
        else:
            # THE SENTENCE AS WRITTEN: slicing the stacked series returns the originals with their dates AND their relative times
            # (and hence their reference date, which the relative time refers to)
            literal = back.time == ims[k].time  # the statement names dates and relative times (the reference date only explains a difference)
            if not literal:
                rereferenced = tkind in ("dates", "both") and back.time == (ims[k].date - ims[0].reference_date).total_seconds() \
                    and back.reference_date == ims[0].reference_date
                if tkind == "dates" and rereferenced and rs[0].get("ref") is None:
                    # exactly the known behaviour: time re-referenced to the first image's reference date (date_k - date_0), reference = date_0
                    fails.append((KNOWN_REREF, f"slice {k} of stack of {n} dated images (default reference dates): relative time {back.time} / reference {back.reference_date}, "
                                               f"the original has {ims[k].time} / {ims[k].reference_date}"))
                elif tkind == "both" and rereferenced:
                    fails.append((KNOWN_DISCARD, f"slice {k} of stack of {n} dated images with stored relative times: time {back.time} (= date - reference of the first image), "
                                                 f"the original's stored time {ims[k].time} is discarded"))
                else:
                    fails.append((f"C02:stack-then-time_slice:time:{cls}",
                                  f"slice {k} of stack of {n} images carrying {cls}: relative time {back.time} / reference {back.reference_date}, original {ims[k].time} / {ims[k].reference_date} "
                                  f"(series time {res.time})"))
        if not np.allclose(np.asarray(back.origin, dtype=float), np.asarray(ims[k].origin, dtype=float), rtol=0, atol=1e-12 * (1 + float(np.abs(np.asarray(ims[k].origin, dtype=float)).max()))) \
                or not np.allclose(np.asarray(back.dimensions, dtype=float), np.asarray(ims[k].dimensions, dtype=float), rtol=1e-14, atol=0):
            fails.append(("C02:stack-then-time_slice:geometry", f"slice {k}: origin/dimensions changed"))
    return line, res, rs, offs, fails


def assembled_eval(d, ra, rb, off, rng=None, steps=None):
    """acc = A.append(B, offset); then an extraction program on acc (generated with rng, or the given step tokens).
    Returns (model request line, implementation response, failures, step tokens)."""
    a, b2 = build_root(d, ra), build_root(d, rb)
    origin = [float(x) for x in np.asarray(a.origin)]
    origin_b = [float(x) for x in np.asarray(b2.origin)]
    head = f"append {root_tokens(ra, origin)} {root_tokens(rb, origin_b)} {'none' if off is None else fmts([off])}"
    acc = a.copy()
    rr = call(acc.append, b2.copy()) if off is None else call(acc.append, b2.copy(), off)
    if isinstance(rr, Raised):
        return head, repr(rr), [], [], repr(rr)
    fails = []
    ta, tb = as_list(a.time, True), as_list(b2.time, True)
    da, db = as_list(a.date, True), as_list(b2.date, True)
    want_img = np.concatenate([x.img if x.series else np.expand_dims(x.img, a.space_dim) for x in (a, b2)], axis=a.space_dim)
    if acc.img.shape != want_img.shape or not np.array_equal(acc.img, want_img):
        fails.append(("C02:append:data", "data after append are not the concatenation of the two images"))
    if list(acc.date) != da + db:
        fails.append(("C02:append:date", f"dates after append {acc.date}, required {da + db}"))
    cls = f"{ra['tkind']}+{rb['tkind']}"
    if None not in ta and None not in tb:
        if off is not None:  # relative times with offsets: the stored times, those of the appended image shifted
            want_t = ta + [t + off for t in tb]
            if list(acc.time) != want_t:
                fails.append((f"C02:append(offset):time:{cls}:offset={'zero' if off == 0 else 'nonzero'}",
                              f"relative times after append(offset={off!r}) of images carrying {cls}: {acc.time}, required {want_t}"))
        elif None not in da + db:
            want_t = [(x - a.reference_date).total_seconds() for x in da + db]
            if list(acc.time) != want_t:
                fails.append((f"C02:append(no offset):time:{cls}", f"relative times {acc.time}, required date - reference date {want_t}"))
        elif all(x is None for x in da + db):
            if list(acc.time) != ta + tb:
                fails.append((f"C02:append(no offset):time:{cls}", f"relative times {acc.time}, required {ta + tb}"))
    # extraction program on the assembled series
    roots = {0: ra, 1: rb}
    slabpos = {(0, t): t for t in range(ra["T"])}
    slabpos.update({(1, t): ra["T"] + t for t in range(rb["T"])})
    im = acc
    if steps is None:
        steps = []
        for _ in range(rng.randint(1, 3)):
            tok, fn = gen_step(rng, d, im, True)
            steps.append(tok)
            parent, im = im, call(fn, im)
            if isinstance(im, Raised) or any(n_ == 0 for n_ in im.img.shape[: im.space_dim]) or im.time_num == 0:
                break
    else:
        for tok, fn in zip(steps, parse_steps(d, steps)):
            im = call(fn, im)
            if isinstance(im, Raised):
                break
    line = head + "".join(" ; " + t for t in steps)
    if isinstance(im, Raised):
        if ra["tkind"] == rb["tkind"]:
            fails.append((f"C02:extraction:raises:{im!r}", f"valid extraction program on an assembled series raises {im!r}"))
        else:  # e.g. undated receiver + dated image: time_slice derives a time from the date with reference date None -> TypeError
            OUTSIDE[f"mixed-series-extraction-raises:{im!r}"] = OUTSIDE.get(f"mixed-series-extraction-raises:{im!r}", 0) + 1
        return line, repr(im), fails, steps, repr(im)
    dsc = call(describe, im, roots)
    if not (any(n_ == 0 for n_ in im.img.shape[: im.space_dim]) or im.time_num == 0):
        fails += trace_check(d, acc, ra, im, True, slabpos)
    return line, ("!undescribable" if isinstance(dsc, Raised) else dsc), fails, steps, arr_str(im)


def alias_eval(d, rp, mode):
    """A sub-image / interval of a series, then append to IT: the parent's time bookkeeping must not change."""
    P = build_root(d, rp)
    dim = rp["dim"]
    if mode == 0:
        S = call(P.subregion, tuple(slice(0, max(1, n_ // 2 + 1)) for n_ in rp["shape"]))
    elif mode == 1:
        S = call(P.subregion, d.make_voxel(np.array([[0] * dim, list(rp["shape"])])))
    else:
        S = call(P.time_interval, slice(0, None))
    if isinstance(S, Raised):
        return [(f"C02:alias:extraction-raises:{S!r}", repr(S))]
    before = (list(as_list(P.time, True)), list(as_list(P.date, True)), P.img.shape)
    arr = np.zeros(tuple(S.img.shape[:dim]) + (() if S.scalar else S.img.shape[dim + 1:]))
    kw = dict(space_dim=dim, dimensions=list(S.dimensions), origin=np.asarray(S.origin).copy(), scalar=S.scalar)
    if has_dates(rp):
        kw["date"] = EPOCH + timedelta(seconds=rp["stamps"][-1] + 1000)
    if has_times(rp):
        kw["time"] = 1.0
    one = call(d.Image, arr, **kw)
    if isinstance(one, Raised):
        return []
    r = call(S.append, one, 3.0)
    if isinstance(r, Raised):
        return []
    after = (list(as_list(P.time, True)), list(as_list(P.date, True)), P.img.shape)
    if after != before:
        which = {0: "subregion(slices)", 1: "subregion(VoxelArray)", 2: "time_interval"}[mode]
        return [(f"C02:extraction-result-aliases-parent:{which}:append",
                 f"appending an image to the result of {which} changed the PARENT: time {before[0]} -> {after[0]}, date list length {len(before[1])} -> {len(after[1])}, data shape {before[2]}")]
    return []


def parse_steps(d, toks):
    """Step tokens (as sent to the model driver) -> callables on the implementation."""
    def oi(t):
        return None if t == "none" else int(t)

    fns = []
    for tok in toks:
        w = tok.split()
        if w[0] == "sub":
            k = int(w[1])
            sls = tuple(slice(oi(w[2 + 2 * i]), oi(w[3 + 2 * i])) for i in range(k))
            fns.append(lambda x, sls=sls: x.subregion(sls))
        elif w[0] in ("subvox", "subcoord"):
            n, pos, pts = int(w[1]), 2, []
            for _ in range(n):
                k = int(w[pos])
                pts.append([float(Fraction(t)) for t in w[pos + 1: pos + 1 + k]])
                pos += 1 + k
            if w[0] == "subvox":
                fns.append(lambda x, pts=pts: x.subregion(d.make_voxel(np.array(pts, dtype=int))))
            else:
                fns.append(lambda x, pts=pts: x.subregion(d.make_coordinate(np.array(pts))))
        elif w[0] == "tslice":
            fns.append(lambda x, i=int(w[1]): x.time_slice(i))
        elif w[0] == "tint":
            fns.append(lambda x, s=slice(oi(w[1]), oi(w[2])): x.time_interval(s))
        else:
            raise ValueError(tok)
    return fns


# ---------------------------------------------------------------------------


def physical_box_check(d, rng, im, dyadic, box=None):
    """A physical box selects the same block as the voxel box of its converted corners.
    NOTE: the FIRST clause compares subregion(CoordinateArray) with subregion(VoxelArray(cs.voxel(points))) - in the implementation these are the
    same code path (the coordinate branch calls cs.voxel and then the same clip expression), so that clause is a self-consistency check; the
    independent clause is the LAST one: the selected block must be base[floor(min) clipped : floor(max) clipped] computed here from the voxel positions."""
    dim = im.space_dim
    N = list(im.img.shape[:dim])
    cs = im.coordinatesystem
    off = 0.0 if dyadic else 0.125
    vp = np.array(box) if box is not None else np.array([[rng.randint(-4, 4 * n + 4) / 4 + off for n in N] for _ in range(2)])
    pts = np.asarray(cs.coordinate(vp))
    a = call(im.subregion, d.make_coordinate(pts))
    vox = call(cs.voxel, pts)
    if isinstance(vox, Raised):
        return [("C02:voxel(box corners):raises", repr(vox))]
    b = call(im.subregion, d.make_voxel(np.asarray(vox)))
    if isinstance(a, Raised) or isinstance(b, Raised):
        if repr(a) != repr(b):
            return [("C02:physical-box!=voxel-box:raises", f"physical box {a!r} vs voxel box {b!r}")]
        return []
    tol_ = 64 * 2.0 ** -52 * (float(np.abs(np.asarray(im.origin, dtype=float)).max()) + float(max(im.dimensions)))
    if a.img.shape != b.img.shape or not np.array_equal(a.img, b.img) or not np.allclose(np.asarray(a.origin, dtype=float), np.asarray(b.origin, dtype=float), rtol=0, atol=tol_) \
            or not np.allclose(np.asarray(a.dimensions, dtype=float), np.asarray(b.dimensions, dtype=float), rtol=0, atol=tol_):
        return [("C02:physical-box!=voxel-box", f"box with corners at voxels {vp.tolist()}: physical ROI gives shape {a.img.shape}, voxel ROI {b.img.shape}")]
    # and it is the block between the floored corners, clipped
    lo = [max(0, int(np.floor(vp[:, k].min()))) for k in range(dim)]
    hi = [max(0, min(int(np.floor(vp[:, k].max())), N[k])) for k in range(dim)]
    want = im.img[tuple(slice(l, h) for l, h in zip(lo, hi))]
    if want.shape != a.img.shape or not np.array_equal(want, a.img):
        return [("C02:physical-box:not-the-floored-clipped-block", f"corners at voxels {vp.tolist()}: got shape {a.img.shape}, block {lo}..{hi}")]
    return []


def outside_box_check(d, im, dyadic, box, kind):
    """A ROI lying ENTIRELY outside the image on some axis selects no voxel (empty result on that axis).
    `box`: two corner points in (fractional) voxel positions; kind: 'voxel' (VoxelArray) or 'coordinate' (CoordinateArray)."""
    dim = im.space_dim
    N = list(im.img.shape[:dim])
    vp = np.array(box, dtype=float)
    out_axes = [a for a in range(dim) if np.floor(vp[:, a]).max() <= 0 or np.floor(vp[:, a]).min() >= N[a]]
    if not out_axes:
        return []
    if kind == "voxel":
        roi = d.make_voxel(np.floor(vp).astype(int))
    else:
        roi = d.make_coordinate(np.asarray(im.coordinatesystem.coordinate(vp)))
    res = call(im.subregion, roi)
    if isinstance(res, Raised):
        return []  # refusing such a ROI is acceptable; selecting voxels is not
    fails = []
    for a in out_axes:
        if res.img.shape[a] != 0:
            side = "negative-side" if np.floor(vp[:, a]).max() <= 0 else "beyond-side"
            fails.append((f"C02:roi-entirely-outside:{kind}:{side}:selects-voxels",
                          f"ROI with corners at voxel positions {vp.tolist()} lies entirely outside the image (shape {N}) on axis {a} but subregion returned {res.img.shape[a]} voxels on that axis (result shape {res.img.shape[:dim]})"))
    return fails


def gen_outside_box(rng, N, dyadic):
    dim = len(N)
    a = rng.randrange(dim)
    off = 0.0 if dyadic else 0.125
    box = [[rng.randint(0, 4 * n) / 4 + off for n in N] for _ in range(2)]
    if rng.random() < 0.5:
        lo = -rng.randint(1, 3 * N[a] + 6) / 2
        box[0][a], box[1][a] = lo - rng.randint(1, 6) / 2 + off, lo + off  # floor(max) <= -1 < 0 ... at most 0 below
    else:
        lo = N[a] + rng.randint(0, 6) / 2
        box[0][a], box[1][a] = lo + off, lo + rng.randint(1, 6) / 2 + off
    return box


SOFT = ("C02:stack:changes-its-input", "C02:roi-entirely-outside", "C02:extraction-result-aliases-parent", "C02:image-from-dates")
"""Clauses about behaviour the statement does not mention (stack leaving its arguments alone, ROIs entirely outside, the parent after append on a
sub-image, constructor times from dates): they are what the Lean model says - a difference is a broken tie (mark), not a claimed failing input."""


def run(ctx):
    import darsia as d
    from ..lib.core import VERIF

    hard_fail = ctx.fail

    def routed(sig, what, rep_):
        if sig.startswith("C02:implementation-result-unusable"):
            ctx.mark("HARNESS-EXCEPTION", {"correspondence": sig, "what": str(what)[:300]})
        elif sig.startswith(SOFT):
            ctx.mark("TIE-BROKEN", {"correspondence": sig, "what": str(what)[:300]})
        else:
            hard_fail(sig, what, rep_)

    ctx.fail = routed

    rng = ctx.rng
    # step 0: corpus of minimised past failures, re-executed on the implementation
    cdir = VERIF / "corpus" / "C02"
    ncorp = 0
    if cdir.is_dir():
        for f in sorted(cdir.glob("*.json")):
            data = json.loads(f.read_text())
            case = data.get("replay", data)
            r_ = call(reexecute, d, case)
            ncorp += 1
            if isinstance(r_, Raised):
                ctx.mark("CORR-BROKEN", {"corpus": f.name, "error": repr(r_.exc)})
                continue
            for sig, what in r_:
                ctx.fail(sig, f"corpus {f.name}: {what}", {**case, "signature": sig})
    ctx.cov["corpus_cases"] = ncorp
    t = c20.tabulate(d)
    ctx.write_gen("IndexingTables", c20.emit(t))
    ctx.prove("C02")
    lines, impl = [], []
    dist = {}

    def bump(k):
        dist[k] = dist.get(k, 0) + 1

    nprog = ctx.pick(300, 5000)
    for n in range(nprog):
        dyadic = n % 4 != 3  # a quarter of the programs on general floats (oracle only)
        r = gen_root(rng, rid=n % 7, dyadic=dyadic, tensor=(n % 11 == 5))
        nsteps = rng.randint(1, 4)
        malformed_at = rng.randrange(nsteps) if (dyadic and rng.random() < 0.12) else None
        out = call(run_program, d, rng, r, nsteps, dyadic, malformed_at)
        if out is None or isinstance(out, Raised):
            ctx.mark("CORR-BROKEN", {"correspondence": "program", "root": r, "error": repr(out)})
            continue
        line, final, root, toks, step_fails = out
        ctx.count(("program", line))
        if r["tkind"] == "dates":
            # an image built from dates alone: relative time = the WHOLE signed difference to the first date, in seconds
            want_t = [float(Fraction(s_) - Fraction(r["stamps"][0])) for s_ in r["stamps"]]
            if as_list(root.time, True) != want_t:
                ctx.fail("C02:image-from-dates:relative-times", f"image constructed with dates at {r['stamps']} s: relative times {root.time}, required {want_t}",
                         {"program": line, "root": r, "steps": [], "signature": "C02:image-from-dates:relative-times"})
        for sig, what in step_fails:
            ctx.fail(sig, f"{what}; program: {line}", {"program": line, "root": r, "steps": toks[1:], "signature": sig})
        bump(f"dim{r['dim']}:{'series' if r['series'] else 'single'}:{r['tkind']}:{'vector' if r['vector'] else 'scalar'}:{'dyadic' if dyadic else 'general'}")
        for tk in toks[1:]:
            bump("step:" + tk.split()[0])
        if dyadic:
            lines.append(line)
            if isinstance(final, Raised):
                impl.append(repr(final))
            else:
                dsc = call(describe, final, {r["rid"]: r})
                impl.append("!undescribable" if isinstance(dsc, Raised) else dsc)
            # the pixel ARRAY itself, entry by entry, against the array model (scalar, vector and tensor payloads)
            lines.append(aline(line, r["vector"], r.get("tensor", False)))
            impl.append(arr_str(final))
        if isinstance(final, Raised):
            bump("raised:" + repr(final))
            if malformed_at is None:
                ctx.fail(f"C02:extraction:raises:{final!r}", f"valid extraction program raises {final!r}: {line}", {"program": line, "root": r, "steps": toks[1:]})
            continue
        if any(s == 0 for s in final.img.shape[: final.space_dim]) or final.time_num == 0:
            bump("empty-result")
            continue
        tc_ = call(trace_check, d, root, r, final, dyadic)
        if isinstance(tc_, Raised):  # unexpected shape / type of the result: a failing input, not a harness error
            ctx.fail(f"C02:implementation-result-unusable:{type(tc_.exc).__name__}", f"the extracted image could not be examined: {tc_.exc!r}; program: {line}",
                     {"program": line, "root": r, "steps": toks[1:]})
            continue
        for sig, what in tc_:
            ctx.fail(sig, f"{what}; program: {line}", {"program": line, "root": r, "steps": toks[1:], "signature": sig})
        obox = gen_outside_box(rng, list(final.img.shape[: final.space_dim]), dyadic)
        for kind in ("voxel", "coordinate"):
            for sig, what in outside_box_check(d, final, dyadic, obox, kind):
                ctx.fail(sig, f"{what}; after program: {line}", {"program": line, "root": r, "steps": toks[1:], "outside_box": obox, "signature": sig})
        box = [[rng.randint(-4, 4 * n_ + 4) / 4 + (0.0 if dyadic else 0.125) for n_ in final.img.shape[: final.space_dim]] for _ in range(2)]
        for sig, what in physical_box_check(d, rng, final, dyadic, box):
            ctx.fail(sig, f"{what}; after program: {line}", {"program": line, "root": r, "steps": toks[1:], "box": box, "signature": sig})
    # exhaustive one-step slices (thorough): every shape <= 5 per axis in 2-D, every slice pair
    if ctx.big:
        for N0 in range(1, 6):
            for N1 in range(1, 6):
                r = gen_root(rng, 1, dim=2, series=False, shape=(N0, N1), tkind="none", vector=False)
                root = build_root(d, r)
                origin = [float(x) for x in np.asarray(root.origin)]
                for a0 in range(N0):
                    for b0 in range(a0 + 1, N0 + 1):
                        for a1 in range(N1):
                            for b1 in range(a1 + 1, N1 + 1):
                                sub = call(root.subregion, (slice(a0, b0), slice(a1, b1)))
                                line = f"prog {root_tokens(r, origin)} ; sub 2 {a0} {b0} {a1} {b1}"
                                ctx.count(("one-step", line))
                                lines.append(line)
                                impl.append(repr(sub) if isinstance(sub, Raised) else describe(sub, {1: r}))
                                lines.append(aline(line, False))
                                impl.append(arr_str(sub))
                                if isinstance(sub, Raised):
                                    ctx.fail(f"C02:extraction:raises:{sub!r}", line, {"program": line, "root": r, "steps": [line.split(" ; ", 1)[1]]})
                                else:
                                    for sig, what in trace_check(d, root, r, sub, True):
                                        ctx.fail(sig, f"{what}; program: {line}", {"program": line, "root": r, "steps": [line.split(" ; ", 1)[1]], "signature": sig})
    # stack / append then slice
    for n in range(ctx.pick(60, 600)):
        k = rng.randint(2, 5)
        tkind = TKINDS[n % 4]
        with_off = (n % 3 == 2) and tkind != "none"
        if with_off and n % 2 == 0:
            k = 2  # two images: also a correspondence line for the model
        out = call(stack_case, d, rng, k, tkind, rng.choice((2, 3)), with_off, shared_ref=(n % 4 == 0 and n % 8 == 0) or (n % 5 == 0 and tkind in ("dates", "both")))
        if out is None or isinstance(out, Raised):
            ctx.mark("CORR-BROKEN", {"correspondence": "stack", "error": repr(out)})
            continue
        line, res, rs, offs, fails = out
        ctx.count(("stack", line, k, tkind, with_off))
        bump(f"stack:{tkind}:{'offset' if with_off else 'plain'}:{k}")
        for sig, what in fails:
            ctx.fail(sig, what, {"kind": "stack", "stack": line, "roots": rs, "offsets": offs, "signature": sig})
        if line is not None:
            lines.append(line)
            if isinstance(res, Raised):
                impl.append(repr(res))
            else:
                dsc = call(describe, res, {r["rid"]: r for r in rs})
                impl.append("!undescribable" if isinstance(dsc, Raised) else dsc)
            if not line.startswith(("stackr", "appendr")):
                lines.append(aline(line, rs[0]["vector"]))
                impl.append(arr_str(res))
    # series ASSEMBLED by append (offset None / 0 / 0.0 / non-zero; dated, undated, both, mixed), then extraction programs:
    # every extracted slab must carry exactly the time and date the assembled series stores for it
    for n in range(ctx.pick(120, 1500)):
        ra = gen_root(rng, 0, tkind=TKINDS[n % 4])
        kb = ra["tkind"] if rng.random() < 0.8 else rng.choice(TKINDS)
        rb = gen_root(rng, 1, dim=ra["dim"], series=rng.random() < 0.5, shape=tuple(ra["shape"]), geom=(ra["dims"], ra["origin"]), tkind=kb, vector=ra["vector"])
        if rng.random() < 0.95:  # dates of the appended image after those of the receiver (else: AssertionError on both sides)
            shift = ra["stamps"][-1] + rng.randint(1, 20) - rb["stamps"][0]
            rb["stamps"] = [x + shift for x in rb["stamps"]]
        if n % 9 == 4:
            # the appended image's geometry differs slightly: append compares with np.allclose (1e-8 + 1e-5 |b|) and keeps the receiver's
            # geometry; within the tolerance (factor 1 + 2^-20) it is accepted, outside (1 + 2^-6) refused. Outside the property's quantifier
            # (images of one series share one geometry); the model mirrors the acceptance rule.
            fct = rng.choice([1 + 2.0 ** -20, 1 + 2.0 ** -6])
            k_ = rng.randrange(ra["dim"])
            rb["dims"] = [x * (fct if i == k_ else 1.0) for i, x in enumerate(rb["dims"])]
            if rb["origin"] is None and ra["origin"] is None and fct > 1.001:
                pass
            OUTSIDE["append-geometry-differs-within/outside-allclose"] = OUTSIDE.get("append-geometry-differs-within/outside-allclose", 0) + 1
        off = [None, 0, 0.0, rng.randint(1, 40) / 4, float(100 * rng.randint(1, 5))][n % 5]
        out = call(assembled_eval, d, ra, rb, off, rng, None)
        if isinstance(out, Raised):
            ctx.mark("CORR-BROKEN", {"correspondence": "assembled", "roots": [ra, rb], "error": repr(out.exc)})
            continue
        line, dsc, fails, steps, adsc = out
        ctx.count(("assembled", line))
        lines.append(aline(line, ra["vector"]))
        impl.append(adsc)
        bump(f"assembled:{ra['tkind']}+{rb['tkind']}:offset={'None' if off is None else ('zero' if off == 0 else 'nonzero')}")
        lines.append(line)
        impl.append(dsc)
        for sig, what in fails:
            ctx.fail(sig, f"{what}; {line}", {"kind": "assembled", "program": line, "roots": [ra, rb], "offset": off, "steps": steps, "signature": sig})
    # an extraction result must not share mutable time bookkeeping with its parent
    for n in range(ctx.pick(20, 200)):
        rp = gen_root(rng, 0, series=True, tkind=TKINDS[n % 4])
        for sig, what in alias_eval(d, rp, n % 3):
            ctx.fail(sig, what, {"kind": "alias", "roots": [rp], "mode": n % 3, "signature": sig})
        ctx.count(("alias", json.dumps(rp), n % 3))
        bump("alias")
    ctx.correspond("extraction-programs", lines, impl, driver="C02")
    ctx.cov["distribution"] = dict(sorted(dist.items()))
    ctx.cov["outside_quantifier_observed"] = dict(OUTSIDE)
    ctx.notes.append("series assembled from images of different kinds (dated + undated) store time None for dated slabs; time_slice then derives "
                     "date - reference_date (or raises TypeError when the reference date is None). Mirrored by the model, outside the property's quantifier.")
    ctx.cov["exhaustive"] = False
    ctx.cov["rule"] = ("random extraction programs of 1-4 steps over 2-D/3-D roots (scalar/vector, single/series, dates/relative times/both/neither) and over "
                       "series assembled by append with offset None/0/0.0/non-zero; stack/append round trips; aliasing of extraction results; "
                       "thorough adds every slice pair of every 2-D shape <= 5x5 as one-step programs; distinct = program line")
    ctx.assumptions += ["numpy basic slicing semantics", "dyadic geometries in the correspondence (exact float arithmetic)",
                        "payload encodes (root, time index, voxel) of every entry; block identity is decided on it"]


def reexecute(d, case, verbose=False):
    """Re-execute a stored case on the implementation. Returns the list of (signature, what) that fail now."""
    import random

    say = print if verbose else (lambda *a_, **k_: None)
    if case.get("kind") == "assembled":
        line, dsc, fails, _, _ = assembled_eval(d, case["roots"][0], case["roots"][1], case["offset"], None, case["steps"])
        say(f"C02 replay {line}\n  result: {dsc}")
    elif case.get("kind") == "alias":
        fails = alias_eval(d, case["roots"][0], case["mode"])
        say(f"C02 replay alias mode={case['mode']} root={case['roots'][0]}")
    elif case.get("kind") == "stack":
        out = stack_eval(d, case["roots"], case["offsets"])
        fails = [("C02:stack:roots-unbuildable", "the images cannot be built")] if out is None else out[4]
        say(f"C02 replay stack of {len(case['roots'])} images ({case['roots'][0]['tkind']}), offsets={case['offsets']}")
    else:
        r = case["root"]
        root = build_root(d, r)
        im = root
        say(f"C02 replay program: {case['program']}")
        fails = []
        for tok, fn in zip(case["steps"], parse_steps(d, case["steps"])):
            parent = im
            im = call(fn, im)
            if isinstance(im, Raised):
                fails.append((f"C02:extraction:raises:{im!r}", f"step `{tok}` raises {im!r}"))
                break
            wsel = call(expected_selection, tok, parent)
            if not isinstance(wsel, Raised) and (wsel.shape != im.img.shape or not np.array_equal(wsel, im.img)):
                fails.append((f"C02:wrong-block-selected:{tok.split()[0]}", f"step `{tok}` returned data of shape {im.img.shape}, the denoted block has shape {wsel.shape}"))
        if r["tkind"] == "dates":
            want_t = [float(Fraction(s_) - Fraction(r["stamps"][0])) for s_ in r["stamps"]]
            if as_list(root.time, True) != want_t:
                fails.append(("C02:image-from-dates:relative-times", f"image constructed with dates at {r['stamps']} s: relative times {root.time}, required {want_t}"))
        if not isinstance(im, Raised):
            dyadic = r.get("dyadic", True)
            fails = fails + trace_check(d, root, r, im, dyadic) + physical_box_check(d, random.Random(0), im, dyadic, case.get("box"))
            if case.get("outside_box"):
                for kind in ("voxel", "coordinate"):
                    fails = fails + outside_box_check(d, im, dyadic, case["outside_box"], kind)
            say("  result:", describe(im, {r["rid"]: r}))
    return fails


def replay(data):
    import darsia as d

    case = data.get("replay", data)
    want = case.get("signature", data.get("signature"))
    fails = reexecute(d, case, verbose=True)
    hit = [f for f in fails if f[0] == want] or fails
    for sig, what in hit[:5]:
        print(f"  FAILS {sig}: {what}")
    if not hit:
        print("  property HOLDS on this input")
    return 1 if hit else 0
